"""C17: transfers survive a restart - nothing lost, duplicated, or left 'in progress'.

The real TransferShelveCache.write/read, the real shelve.Shelf / DbfilenameShelf, the real pickle
machinery with the real Transfer.__getstate__/__setstate__, and the real TransferManager.add /
write_cache / read_cache / queue / pause / _get_queued_transfers run natively.  User names, remote
paths, local paths and reasons are strings of symbolic characters (every Unicode scalar value),
sizes / progress / counters / times are z3 Ints / Reals, the remote-queue mark is a z3 Bool.

Only the two C/OS boundaries below the code under test are replaced while exploring:

* ``dbm.open``      -> an in-memory table whose keys are compared by the solver (each comparison
                       forks), so "two different transfers end up under one key" is a path;
* ``hashlib.<alg>`` -> an injective uninterpreted function of the hashed character sequence
                       (two digests are equal iff the hashed sequences are equal);
* pickle            -> the real C pickler; symbolic leaves travel through the byte stream as
                       persistent ids (pickle's own by-reference mechanism), everything else is
                       really pickled (class reference, state dict, enums, None, floats);
* ``time`` in transfer/model.py -> one symbolic instant (only feeds the speed of a snapshot).

A counterexample model is replayed with plain str/int/float values through the unpatched
hashlib / shelve / dbm / pickle in a temporary directory.
"""
from __future__ import annotations

import copyreg
import dbm
import hashlib
import io
import os
import pickle
import shelve
import shutil
import tempfile
import types

import z3

from engine import symex
from engine.symex import SInt, SReal, SBool, And, Or, Not, Implies, HarnessError, ite
from engine.vloop import VLoop

import aioslsk
import aioslsk.transfer.cache as cache_mod
import aioslsk.transfer.model as model_mod
from aioslsk.events import EventBus
from aioslsk.settings import Settings
from aioslsk.transfer.cache import TransferShelveCache
from aioslsk.transfer.manager import TransferManager
from aioslsk.transfer.model import AbortReason, Transfer, TransferDirection
from aioslsk.transfer.state import TransferState
from aioslsk.user.model import UserStatus

PROPERTY = 'C17'

S = TransferState.State
STATES = ['VIRGIN', 'QUEUED', 'INITIALIZING', 'INCOMPLETE', 'DOWNLOADING', 'UPLOADING', 'COMPLETE', 'FAILED',
          'ABORTED', 'PAUSED']
IN_PROGRESS = (S.INITIALIZING, S.DOWNLOADING, S.UPLOADING)
DIRS = {'D': TransferDirection.DOWNLOAD, 'U': TransferDirection.UPLOAD}

# ------------------------------------------------------------------------------------------------
# strings of symbolic characters
# ------------------------------------------------------------------------------------------------
# A symbolic string is a real `str` (subclass) whose code points are *placeholders* from the
# supplementary private use area A; placeholder k stands for the z3 Int `env.chars[k]` (a Unicode
# scalar value).  Concatenation, formatting, join and utf-8 encoding done by CPython in C keep the
# placeholders in place, so whatever way the code under test assembles the text it hashes, the hash
# stub recovers the exact sequence of (symbolic | literal) characters.  Equality and hashing of the
# proxy itself are overridden (z3 equality, constant hash); every other content-inspecting str
# method raises HarnessError instead of silently looking at placeholders.

PH_BASE = 0xF0000
PH_LAST = 0xFFFFD
REPR_MARK = '\U0010FFFE'       # produced by repr() of a symbolic string: not decodable on purpose
MAX_CP = 0x10FFFF
CP_SHIFT = ord('a')

_ENV = None


def _env():
    if _ENV is None:
        raise HarnessError('symbolic string used outside an Env')
    return _ENV


def _tok(ch):
    cp = ord(ch)
    if PH_BASE <= cp <= PH_LAST:
        return _env().chars[cp - PH_BASE]
    if ch == REPR_MARK:
        raise HarnessError('repr() of a symbolic string reached a hash/key (content-dependent escaping is not modelled)')
    return cp


def tokens(s) -> tuple:
    """str -> tuple of (python int code point | z3 Int)"""
    return tuple(_tok(ch) for ch in str.__str__(s))


def tokens_bytes(b) -> tuple:
    """utf-8 bytes -> code point tokens.  utf-8 is a bijection between scalar-value sequences and
    their encodings, so equality of the byte strings is equality of the code point sequences.  Bytes
    that are not valid utf-8 become lone surrogates, which no symbolic character can equal."""
    return tokens(bytes(b).decode('utf-8', 'surrogateescape'))


def seq_eq(a: tuple, b: tuple):
    """equality of two token sequences: bool when decided syntactically, else SBool (no fork)"""
    if len(a) != len(b):
        return False
    conds = []
    for x, y in zip(a, b):
        xi, yi = isinstance(x, int), isinstance(y, int)
        if xi and yi:
            if x != y:
                return False
            continue
        if not xi and not yi and x.eq(y):
            continue
        conds.append(x == y)
    if not conds:
        return True
    r = KBool(z3.And(*conds) if len(conds) > 1 else conds[0])
    if z3.is_true(r.e):
        return True
    if z3.is_false(r.e):
        return False
    k = _env().known.get(r.e.get_id())
    if k is not None:
        return k[1]
    return r


def memo_eq(key, tok, a, b):
    """the placeholder text identifies the token sequence, so an equality between the same two texts
    is built once per path"""
    env = _env()
    r = env.eqmemo.get(key)
    if r is None:
        r = seq_eq(tok(a), tok(b))
        env.eqmemo[key] = r
        env.eqmemo[(key[0], key[2], key[1])] = r
    if isinstance(r, SBool):
        k = env.known.get(r.e.get_id())
        if k is not None:
            return k[1]
    return r


class KBool(SBool):
    """SBool that remembers how it was decided on this path.  The path condition only grows, so a
    condition decided once keeps its value; asking again costs no solver query and no decision."""
    __slots__ = ()

    def __bool__(self):
        if z3.is_true(self.e):
            return True
        if z3.is_false(self.e):
            return False
        env = _env()
        k = env.known.get(self.e.get_id())
        if k is not None:
            return k[1]
        v = SBool.__bool__(self)
        env.known[self.e.get_id()] = (self.e, v)      # keeps the AST alive, so the id stays unique
        return v


def learn(cond, value: bool):
    """record a fact that was just assumed"""
    if isinstance(cond, SBool) and _ENV is not None:
        _ENV.known[cond.e.get_id()] = (cond.e, value)


def _neg(r):
    return (not r) if isinstance(r, bool) else ~r


class SStr(str):
    __slots__ = ()

    def __eq__(self, o):
        if not isinstance(o, str):
            return False
        if o is self:
            return True
        return memo_eq(('s', str.__str__(self), str.__str__(o)), tokens, self, o)

    def __ne__(self, o):
        return _neg(self.__eq__(o))

    def __hash__(self):
        # constant: dict / set lookups among symbolic strings fall through to __eq__ (which forks)
        return 0x5157

    def __add__(self, o):
        if not isinstance(o, str):
            return NotImplemented
        return SStr(str.__add__(self, o))

    def __radd__(self, o):
        if not isinstance(o, str):
            return NotImplemented
        return SStr(str.__add__(o, self))

    def __str__(self):
        return self

    def __format__(self, spec):
        if spec:
            raise HarnessError('format spec on a symbolic string')
        return self

    def __repr__(self):
        return REPR_MARK + '<symbolic str>' + REPR_MARK

    def __reduce_ex__(self, proto):
        raise HarnessError('symbolic string pickled without the persistent-id pickler')


def _forbidden(name):
    def f(self, *a, **kw):
        raise HarnessError(f'str.{name} on a symbolic string is not modelled')
    f.__name__ = name
    return f


for _n in ('__lt__', '__le__', '__gt__', '__ge__', '__contains__', '__getitem__', '__mod__', '__mul__', '__rmul__',
           'capitalize', 'casefold', 'center', 'count', 'endswith', 'expandtabs', 'find', 'index', 'isalnum',
           'isalpha', 'isascii', 'isdecimal', 'isdigit', 'isidentifier', 'islower', 'isnumeric', 'isprintable',
           'isspace', 'istitle', 'isupper', 'ljust', 'lower', 'lstrip', 'partition', 'removeprefix', 'removesuffix',
           'replace', 'rfind', 'rindex', 'rjust', 'rpartition', 'rsplit', 'rstrip', 'split', 'splitlines',
           'startswith', 'strip', 'swapcase', 'title', 'translate', 'upper', 'zfill'):
    setattr(SStr, _n, _forbidden(_n))


def fresh_str(c, name: str, n: int):
    """string of n symbolic characters, each any Unicode scalar value"""
    # the solver variable is (code point - ord('a')): same domain, but a model that leaves a character
    # unconstrained shows it as 'a' instead of NUL
    vals = [c.fresh_int(f'{name}[{i}]', -CP_SHIFT, MAX_CP - CP_SHIFT) + CP_SHIFT for i in range(n)]
    if not c.symbolic:
        return ''.join(chr(v) for v in vals)
    env = _env()
    out = []
    for v in vals:
        if len(env.chars) > PH_LAST - PH_BASE:
            raise HarnessError('too many symbolic characters')
        out.append(chr(PH_BASE + len(env.chars)))
        env.chars.append(v.e)
    if vals:
        c.assume(And(*[Or(v < 0xD800, v > 0xDFFF) for v in vals]))   # surrogates are not characters
    return SStr(''.join(out))


def show(s):
    """for notes in replays"""
    return ascii(s) if not isinstance(s, SStr) else '<symbolic>'


# ------------------------------------------------------------------------------------------------
# hashlib stub: injective uninterpreted function over the hashed character sequence
# ------------------------------------------------------------------------------------------------

class _Digest:
    """identity of a digest: `text` is a concrete string naming the preimage on this path (algorithm +
    hashed text with placeholders), `toks` the (symbolic | literal) character sequence itself"""
    __slots__ = ('text', 'toks')

    def __init__(self, text, toks):
        self.text = text
        self.toks = toks


def _digest_eq(a: '_Digest', b: '_Digest'):
    if a is b or a.text == b.text:
        return True
    return memo_eq(('k', a.text, b.text), lambda d: d.toks, a, b)


class SKey(str):
    """hex digest: equal iff algorithm and preimage sequence are equal"""
    __slots__ = ('dg',)

    def __new__(cls, dg):
        o = str.__new__(cls, '<digest>')
        o.dg = dg
        return o

    def __eq__(self, o):
        if isinstance(o, SKey):
            return _digest_eq(self.dg, o.dg)
        return False

    def __ne__(self, o):
        return _neg(self.__eq__(o))

    def __hash__(self):
        return 0x5158

    def encode(self, *a, **kw):
        return SKeyBytes(self.dg)

    def __reduce_ex__(self, proto):
        raise HarnessError('digest pickled')


class SKeyBytes(bytes):

    def __new__(cls, dg):
        o = bytes.__new__(cls, b'<digest>')
        o.dg = dg
        return o

    def __eq__(self, o):
        if isinstance(o, SKeyBytes):
            return _digest_eq(self.dg, o.dg)
        return False

    def __ne__(self, o):
        return _neg(self.__eq__(o))

    def __hash__(self):
        return 0x5159

    def decode(self, *a, **kw):
        return SKey(self.dg)


_SEP, _OPEN, _CLOSE = -1, -2, -3       # never characters


class _HashObj:
    def __init__(self, alg, data=b''):
        self.alg = alg
        self.text = ''
        self.toks = ()
        self.update(data)

    def update(self, data):
        if isinstance(data, str):
            raise TypeError('Strings must be encoded before hashing')
        if isinstance(data, SKeyBytes):    # hash of a digest: still injective
            self.text += '\uFFFE[' + data.dg.text + '\uFFFE]'
            self.toks += (_OPEN,) + data.dg.toks + (_CLOSE,)
        else:
            t = bytes(data).decode('utf-8', 'surrogateescape')
            self.text += t
            self.toks += tokens(t)

    def _digest(self):
        # the algorithm is part of the identity
        return _Digest(self.alg + '\uFFFE:' + self.text, tuple(ord(ch) for ch in self.alg) + (_SEP,) + self.toks)

    def hexdigest(self):
        return SKey(self._digest())

    def digest(self):
        return SKeyBytes(self._digest())

    def copy(self):
        o = _HashObj(self.alg)
        o.text, o.toks = self.text, self.toks
        return o


class _HashlibStub:
    def __getattr__(self, name):
        if name in hashlib.algorithms_available or name in hashlib.algorithms_guaranteed:
            return lambda data=b'', **kw: _HashObj(name, data)
        raise HarnessError(f'hashlib.{name} is not modelled')

    def new(self, name, data=b'', **kw):
        return _HashObj(name, data)


def key_digest(k) -> '_Digest':
    """database key -> identity.  Keys that are not digests are compared as character sequences too."""
    if isinstance(k, (SKey, SKeyBytes)):
        return k.dg
    t = str.__str__(k) if isinstance(k, str) else bytes(k).decode('utf-8', 'surrogateescape')
    return _Digest('\uFFFEraw:' + t, (_CLOSE, _SEP) + tokens(t))


# ------------------------------------------------------------------------------------------------
# dbm stub: table with solver-compared keys.  Insertion-ordered like dbm.dumb.
# ------------------------------------------------------------------------------------------------

class SymDbm:
    def __init__(self):
        self.entries: list = []     # [key object, key identity, value bytes]

    def _find(self, key):
        kd = key_digest(key)
        for i, e in enumerate(self.entries):
            if e[0] is key:
                return i
            r = _digest_eq(e[1], kd)
            if r is True or (r is not False and bool(r)):     # bool(SBool) forks
                return i
        return -1

    def keys(self):
        return [e[0] for e in self.entries]

    def __iter__(self):
        return iter(self.keys())

    def __len__(self):
        return len(self.entries)

    def __contains__(self, key):
        return self._find(key) >= 0

    def get(self, key, default=None):
        i = self._find(key)
        return default if i < 0 else self.entries[i][2]

    def __getitem__(self, key):
        i = self._find(key)
        if i < 0:
            raise KeyError(key)
        return self.entries[i][2]

    def __setitem__(self, key, value):
        if not isinstance(value, (bytes, bytearray)):
            raise TypeError('dbm values must be bytes')
        i = self._find(key)
        if i < 0:
            self.entries.append([key, key_digest(key), bytes(value)])
        else:
            self.entries[i][2] = bytes(value)

    def __delitem__(self, key):
        i = self._find(key)
        if i < 0:
            raise KeyError(key)
        del self.entries[i]

    def setdefault(self, key, default=b''):
        i = self._find(key)
        if i < 0:
            self[key] = default
            return default
        return self.entries[i][2]

    def sync(self):
        pass

    def close(self):
        pass


# ------------------------------------------------------------------------------------------------
# pickle: the real pickler, symbolic leaves by persistent id
# ------------------------------------------------------------------------------------------------

_PROXIES = (SInt, SReal, SBool, SStr)


class SymPickler(pickle.Pickler):
    def persistent_id(self, obj):
        if isinstance(obj, _PROXIES):
            env = _env()
            env.pobjs.append(obj)
            return len(env.pobjs) - 1
        return None


class SymUnpickler(pickle.Unpickler):
    def persistent_load(self, pid):
        return _env().pobjs[pid]


_MISSING = object()


class Env:
    """installs the stubs while exploring (nothing in /repo is edited; stdlib module attributes are
    restored on exit); in concrete replay nothing is patched and a temporary directory is used"""

    def __init__(self, c, symbolic=None):
        self.c = c
        self.symbolic = c.symbolic if symbolic is None else symbolic
        self.chars: list = []
        self.known: dict = {}
        self.eqmemo: dict = {}
        self.pobjs: list = []
        self.files: dict = {}
        self.saved: list = []
        self.dir = None
        self.now = 1000.0
        self.hashlib = hashlib

    def _patch(self, mod, name, val):
        self.saved.append((mod, name, mod.__dict__.get(name, _MISSING)))
        setattr(mod, name, val)

    def _dbm_open(self, file, flag='r', mode=0o666):
        file = os.fspath(file)
        if file not in self.files:
            if flag in ('r', 'w'):
                raise dbm.error[0]('db file does not exist')
            self.files[file] = SymDbm()
        elif flag == 'n':
            self.files[file] = SymDbm()
        return self.files[file]

    def __enter__(self):
        global _ENV
        if _ENV is not None:
            raise HarnessError('nested Env')
        _ENV = self
        if self.symbolic:
            self.dir = '/c17-virtual-data-dir'
            self.hashlib = _HashlibStub()
            self._patch(cache_mod, 'hashlib', self.hashlib)
            self._patch(dbm, 'open', self._dbm_open)
            self._patch(shelve, 'Pickler', SymPickler)
            self._patch(shelve, 'Unpickler', SymUnpickler)
            if self.c is not None:
                self.now = self.c.fresh_real('now', lo=0)
            self._patch(model_mod, 'time', types.SimpleNamespace(time=lambda: self.now, monotonic=lambda: self.now))
        else:
            self.dir = tempfile.mkdtemp(prefix='c17-')
        return self

    def __exit__(self, *a):
        global _ENV
        for mod, name, old in reversed(self.saved):
            if old is _MISSING:
                delattr(mod, name)
            else:
                setattr(mod, name, old)
        self.saved.clear()
        if not self.symbolic and self.dir:
            shutil.rmtree(self.dir, ignore_errors=True)
        _ENV = None
        return False

    def db_path(self):
        return os.path.join(self.dir, TransferShelveCache.DEFAULT_FILENAME)


# ------------------------------------------------------------------------------------------------
# records written by older versions (pinned from tests/unit/resources/data/transfers, see prelude)
# ------------------------------------------------------------------------------------------------

LEGACY_KEYS = ['state', 'username', 'remote_path', 'local_path', 'direction', 'remotely_queued', 'place_in_queue',
               'fail_reason', 'filesize', '_offset', 'bytes_transfered', 'bytes_written', 'bytes_read',
               'queue_attempts', 'last_queue_attempt', 'upload_request_attempts', 'last_upload_request_attempt',
               'start_time', 'complete_time']


class _LegacyRecord:
    """pickles to exactly what an old aioslsk wrote: NEWOBJ aioslsk.transfer.model.Transfer + BUILD
    of a state dict without `abort_reason` and with `_offset` / `bytes_written` / `bytes_read`"""
    __class__ = Transfer

    def __init__(self, state):
        self._st = state

    def __reduce_ex__(self, proto):
        return (copyreg.__newobj__, (Transfer,), self._st)


def baseline_key(env, username, remote_path, direction):
    """key format of the pinned baseline (and of every cache file written so far)"""
    return env.hashlib.sha256((username + remote_path + str(direction.value)).encode('utf-8')).hexdigest()


def legacy_state(t: Transfer, offset):
    st = {k: t.__dict__[k] for k in LEGACY_KEYS if k in t.__dict__}
    st['state'] = t.state.VALUE
    st['_offset'] = offset
    st['bytes_written'] = t.bytes_transfered
    st['bytes_read'] = 0
    return {k: st[k] for k in LEGACY_KEYS}


def put_legacy(c, env, ts):
    """the cache file as an older version left it.  That version kept one record per (old-format) key, so
    a file holding all of `ts` exists only when their old keys differ pairwise: assumed."""
    keys = [baseline_key(env, t.username, t.remote_path, t.direction) for t in ts]
    for i in range(len(keys)):
        for j in range(i):
            e = keys[i] == keys[j]
            c.assume(_neg(e))
            learn(e, False)
    with shelve.open(env.db_path(), flag='c') as db:
        for k, t in zip(keys, ts):
            db[k] = _LegacyRecord(legacy_state(t, t.__dict__.get('_offset')))


# ------------------------------------------------------------------------------------------------
# building transfers, snapshots, reference
# ------------------------------------------------------------------------------------------------

SHAPE_BITS = ['local_path', 'place_in_queue', 'fail_reason', 'abort_reason', 'filesize', 'start_time',
              'complete_time', 'offset']
FULL = {k: True for k in SHAPE_BITS}
BARE = {k: False for k in SHAPE_BITS}


def shape_of(mask: int) -> dict:
    return {k: bool(mask >> i & 1) for i, k in enumerate(SHAPE_BITS)}


async def _never():
    import asyncio
    await asyncio.sleep(10 ** 9)


def mk_transfer(c, i, state, d, lens=(1, 1), shape=None, loop=None, names=None):
    """a transfer in `state` with every persisted field symbolic (None-ness per `shape`)"""
    sh = FULL if shape is None else shape
    if names is None:
        u = fresh_str(c, f't{i}_user', lens[0])
        p = fresh_str(c, f't{i}_path', lens[1])
    else:
        u, p = names
    t = Transfer(u, p, DIRS[d])
    fill_fields(c, t, f't{i}', state, sh, loop)
    c.note(f't{i}', show(u), show(p), d, state)
    return t


def fill_fields(c, t, pre, state, sh, loop=None):
    t.state = TransferState.init_from_state(S[state], t)
    t.local_path = fresh_str(c, f'{pre}_local', 2) if sh['local_path'] else None
    t.remotely_queued = c.fresh_bool(f'{pre}_remotely_queued')
    t.place_in_queue = c.fresh_int(f'{pre}_place', 0, 2 ** 32 - 1) if sh['place_in_queue'] else None
    t.fail_reason = fresh_str(c, f'{pre}_fail', 1) if sh['fail_reason'] else None
    t.abort_reason = fresh_str(c, f'{pre}_abort', 1) if sh['abort_reason'] else None
    t.filesize = c.fresh_int(f'{pre}_filesize', 0, 2 ** 64 - 1) if sh['filesize'] else None
    t.bytes_transfered = c.fresh_int(f'{pre}_bytes', 0, 2 ** 64 - 1)
    t.queue_attempts = c.fresh_int(f'{pre}_qa', 0, None)
    t.last_queue_attempt = c.fresh_real(f'{pre}_lqa', lo=0)
    t.upload_request_attempts = c.fresh_int(f'{pre}_ura', 0, None)
    t.last_upload_request_attempt = c.fresh_real(f'{pre}_lura', lo=0)
    t.start_time = c.fresh_real(f'{pre}_start', lo=0) if sh['start_time'] else None
    t.complete_time = c.fresh_real(f'{pre}_complete', lo=0) if sh['complete_time'] else None
    if sh['offset']:
        t._offset = c.fresh_int(f'{pre}_offset', 0, None)
    elif '_offset' in t.__dict__:
        del t.__dict__['_offset']
    if loop is not None and t.state.VALUE in IN_PROGRESS:
        # what a live in-progress transfer carries: running tasks and a speed log
        t._transfer_task = loop.spawn(_never())
        if t.is_download():
            t._remotely_queue_task = loop.spawn(_never())
        t._speed_log.append((0.0, 10))


OBSERVED = ['username', 'remote_path', 'direction', 'local_path', 'filesize', 'bytes_transfered', 'fail_reason',
            'abort_reason']


def snap(t: Transfer) -> dict:
    s = {k: getattr(t, k) for k in OBSERVED}
    s['state'] = t.state.VALUE
    s['obj'] = t
    return s


def veq(a, b):
    """value equality without forking: bool or SBool"""
    if a is b:
        return True
    if a is None or b is None:
        return a is None and b is None
    if isinstance(a, str) or isinstance(b, str):
        if not (isinstance(a, str) and isinstance(b, str)):
            return False
        if isinstance(a, SStr):
            return SStr.__eq__(a, b)
        if isinstance(b, SStr):
            return SStr.__eq__(b, a)
        return a == b
    if isinstance(a, bool) and isinstance(b, bool):
        return a == b
    return a == b


def ident_eq(r, s):
    """same transfer = same (user, remote path, direction)"""
    if r.direction is not s['direction']:
        return False
    p = veq(r.remote_path, s['remote_path'])
    if p is False:
        return False
    u = veq(r.username, s['username'])
    if u is False:
        return False
    if u is True:
        return p
    if p is True:
        return u
    return And(u, p)


def expected_abort_reason(s):
    # pinned: a record without abort reason in state ABORTED (older caches) is given 'Requested'
    if s['abort_reason'] is None and s['state'] == S.ABORTED:
        return AbortReason.REQUESTED
    return s['abort_reason']


def fields_same(r, s):
    return And(veq(r.local_path, s['local_path']), veq(r.filesize, s['filesize']),
               veq(r.bytes_transfered, s['bytes_transfered']), veq(r.fail_reason, s['fail_reason']),
               veq(r.abort_reason, expected_abort_reason(s)))


def ob(c, cond, label, sig=None, info=None):
    """obligation; a condition that already folded to a constant needs no solver query"""
    if isinstance(cond, SBool):
        if z3.is_true(cond.e):
            cond = True
        elif z3.is_false(cond.e):
            cond = False
    return c.check(cond, label, sig=sig, info=info)


def count_true(conds):
    n = 0
    for x in conds:
        n = n + ite(x, 1, 0)
    return n


def all_distinct(c, ts):
    """the transfer list of a manager never holds two equal transfers (add() refuses them)"""
    for i in range(len(ts)):
        for j in range(i):
            e = ident_eq(ts[i], snap(ts[j]))
            c.assume(Not(e) if not isinstance(e, bool) else not e)
            learn(e, False)


def check_same_set(c, R, snaps, prefix, sig, with_state=False):
    """R (what was read / loaded) is exactly the snapshot list as a set, each once, same fields.
    with_state: also the very same state (cache level: read() hands back what was stored; at manager
    level the state clause with its repairs is expected_state_after_load)"""
    sig = list(sig) + ['expected', len(snaps), 'got', len(R)]
    ok = ob(c, len(R) == len(snaps), f'{prefix}_each_once', sig=sig, info='number of transfers differs')
    for k, s in enumerate(snaps):
        matches = [ident_eq(r, s) for r in R]
        ok &= ob(c, count_true(matches) == 1, f'{prefix}_each_once', sig=sig,
                 info=f'transfer #{k} is not present exactly once')
        for r, m in zip(R, matches):
            if m is False:
                continue
            ob(c, Implies(m, fields_same(r, s)), f'{prefix}_fields_same', sig=sig[:-4],
               info=f'transfer #{k}: local path / sizes / progress / reasons differ')
            if with_state:
                ob(c, Implies(m, r.state.VALUE == s['state']), f'{prefix}_state_same', sig=sig[:-4] + [s['state'].name],
                   info=f'transfer #{k}: stored in {s["state"].name}, read back in {r.state.VALUE.name}')
    for r in R:
        ob(c, Or(*[ident_eq(r, s) for s in snaps]) if snaps else False, f'{prefix}_nothing_else', sig=sig,
           info='a transfer that is not in the written list came back')
    return ok


def guarded(c, label, sig, fn, *a):
    """run a piece of the real code; an exception is a refuted obligation, not a crash"""
    try:
        return True, fn(*a)
    except HarnessError:
        raise
    except Exception as e:  # noqa
        ob(c, False, label, sig=sig, info=repr(e)[:300])
        return False, None


# ------------------------------------------------------------------------------------------------
# H1: cache level, two transfers with symbolic names: read(write(L)) == L as a set
# ------------------------------------------------------------------------------------------------

def h_pair(c, lens0=(1, 1), max_len=2, dirs='DD'):
    with Env(c) as env:
        l1 = (c.choose(max_len + 1, 'len_user1'), c.choose(max_len + 1, 'len_path1'))
        t0 = mk_transfer(c, 0, 'QUEUED', dirs[0], tuple(lens0), BARE)
        t1 = mk_transfer(c, 1, 'QUEUED', dirs[1], l1, BARE)
        all_distinct(c, [t0, t1])
        snaps = [snap(t0), snap(t1)]
        cache = TransferShelveCache(env.dir)
        sig = ['pair', 'same_direction' if dirs[0] == dirs[1] else 'other_direction']
        ok, _ = guarded(c, 'write_no_exception', sig, cache.write, [t0, t1])
        if not ok:
            return
        ok, R = guarded(c, 'read_no_exception', sig, cache.read)
        if not ok:
            return
        c.reach('pair_read')
        check_same_set(c, R, snaps, 'roundtrip', sig, with_state=True)


# ------------------------------------------------------------------------------------------------
# restart through the managers
# ------------------------------------------------------------------------------------------------

SETTINGS = Settings(credentials={'username': 'me', 'password': 'pw'})


class _Users:
    """TransferManager only asks the user manager for status / privileges when scheduling (C05)"""

    def get_user_object(self, name):
        return types.SimpleNamespace(name=name, status=UserStatus.UNKNOWN, privileged=False)

    async def track_user(self, *a):
        pass

    async def untrack_user(self, *a):
        pass


def mk_manager(env):
    m = TransferManager(SETTINGS, EventBus(), _Users(), object(), object(), cache=TransferShelveCache(env.dir))
    m.notified = []
    real = m.on_transfer_state_changed

    async def spy(transfer, old, new):
        m.notified.append((transfer, old, new))
        await real(transfer, old, new)
    m.on_transfer_state_changed = spy
    return m


def expected_state_after_load(c, r, s, sig):
    """the state clause; returns nothing, issues obligations"""
    st, new = s['state'], r.state.VALUE
    ob(c, new not in IN_PROGRESS, 'no_in_progress_after_load', sig=sig, info=new.name)
    if st == S.INITIALIZING:
        c.reach('was_initializing')
        ob(c, new == S.QUEUED, 'initializing_requeued', sig=sig, info=new.name)
    elif st in (S.DOWNLOADING, S.UPLOADING):
        done = veq(s['filesize'], s['bytes_transfered'])
        if new in (S.COMPLETE, S.INCOMPLETE):
            c.reach('repaired_' + new.name)
        if new == S.COMPLETE:
            ob(c, done, 'transferring_complete_iff_all_bytes', sig=sig + ['COMPLETE'],
               info='COMPLETE although not all bytes had arrived')
        elif new == S.INCOMPLETE:
            ob(c, _neg(done), 'transferring_complete_iff_all_bytes', sig=sig + ['INCOMPLETE'],
               info='INCOMPLETE although all bytes had arrived')
        else:
            ob(c, False, 'transferring_complete_iff_all_bytes', sig=sig + [new.name], info=new.name)
    else:
        ob(c, new == st, 'other_states_kept', sig=sig, info=f'{st.name} -> {new.name}')


def check_loaded(c, loop, M, snaps, sig, full=True):
    """every clause of the property on manager M right after load_data() (full=False: without the
    scheduling / state-change part, used for the second restart in a row)"""
    R = list(M.transfers)
    check_same_set(c, R, snaps, 'loaded', sig)
    pairs = []
    for s in snaps:
        for r in R:
            # decided on this path when the code under test compared the two; otherwise a case split
            if bool(ident_eq(r, s)):
                pairs.append((r, s))
                break
    for r, s in pairs:
        tsig = sig + [s['state'].name, 'D' if r.is_download() else 'U']
        expected_state_after_load(c, r, s, tsig)
        rq = r.remotely_queued
        ob(c, Not(rq) if not isinstance(rq, bool) else rq is False, 'remote_queue_mark_cleared', sig=tsig)
        ob(c, sum(1 for l in r.state_listeners if l is M) == 1 and len(r.state_listeners) == 1,
           'listener_attached_once', sig=tsig, info=f'{len(r.state_listeners)} listeners')
        ob(c, r._transfer_task is None and r._remotely_queue_task is None and not r._state_lock.locked()
           and r.state.transfer is r, 'fresh_runtime_fields', sig=tsig)
    if R:
        ob(c, M._management_queue.qsize() == 1, 'management_cycle_requested', sig=sig)
    if not full:
        return pairs
    # scheduling sees the loaded transfers exactly like fresh ones in the same state
    ok, res = guarded(c, 'scheduling_picks_up', sig + ['exception'], M._get_queued_transfers)
    if ok:
        downs, ups = res
        for r, s in pairs:
            st = r.state.VALUE
            tsig = sig + [s['state'].name, 'D' if r.is_download() else 'U']
            if r.is_download():
                elig = st in (S.QUEUED, S.INCOMPLETE) or (st == S.FAILED and r.fail_reason is None)
                ob(c, any(x is r for x in downs) == elig, 'scheduling_picks_up', sig=tsig,
                   info=f'download in {st.name} eligible={elig}')
            elif st == S.QUEUED:
                ob(c, Or(*[veq(x.username, r.username) for x in ups]) if ups else False, 'scheduling_picks_up',
                   sig=tsig, info='no queued upload offered for this user')
        ob(c, all(x.is_upload() and x.state.VALUE == S.QUEUED for x in ups) and
           all(x.is_download() for x in downs), 'scheduling_picks_up', sig=sig + ['foreign'])
    # a state change on a loaded transfer is reported (exactly once, with the right states)
    for r, s in pairs:
        old = r.state.VALUE
        tsig = sig + [s['state'].name, 'D' if r.is_download() else 'U']
        if old in IN_PROGRESS:
            continue        # already refuted above; file/task handling of these states is C03/C06
        M.notified.clear()
        op = M.pause if old == S.QUEUED else M.queue
        ok, _ = guarded(c, 'state_change_reported', tsig + ['exception'], loop.run_until_complete, op(r))
        if not ok:
            continue
        new = S.PAUSED if old == S.QUEUED else S.QUEUED
        c.reach('state_changed')
        ob(c, r.state.VALUE == new and len(M.notified) == 1 and M.notified[0][0] is r
           and M.notified[0][1:] == (old, new), 'state_change_reported', sig=tsig,
           info=f'{old.name}->{r.state.VALUE.name}, notifications={[(o.name, n.name) for _, o, n in M.notified]}')
    return pairs


async def _stop_and_store(m):
    import asyncio
    cancelled = await m.stop()
    await asyncio.gather(*cancelled, return_exceptions=True)
    await m.store_data()


def restart(c, env, loop, ts, sig, legacy=False, generations=2):
    """process A holds `ts` and ends (cache written); process B starts and loads; B ends; C loads"""
    snaps = [snap(t) for t in ts]
    if legacy:
        # the cache file was written by an older version: no manager A of this version involved
        put_legacy(c, env, ts)
    else:
        A = mk_manager(env)
        for t in ts:
            loop.run_until_complete(A.add(t))
        # the process ends the way SoulSeekClient.stop() ends it: services stopped, then data stored
        ok, _ = guarded(c, 'write_no_exception', sig, loop.run_until_complete, _stop_and_store(A))
        if not ok:
            return
    M = None
    for g in range(generations):
        M = mk_manager(env)
        gsig = sig + [f'gen{g + 1}']
        ok, _ = guarded(c, 'load_no_exception', gsig, loop.run_until_complete, M.load_data())
        if not ok:
            return
        c.reach('loaded')
        check_loaded(c, loop, M, snaps, gsig, full=(g == 0))
        if g + 1 < generations:
            snaps = [snap(t) for t in M.transfers]
            ok, _ = guarded(c, 'write_no_exception', gsig, loop.run_until_complete, _stop_and_store(M))
            if not ok:
                return
    return M


def h_single(c, state='QUEUED', d='D', legacy=False, masks='control'):
    """one transfer, every None-ness combination of the optional fields"""
    loop = VLoop()
    try:
        with Env(c) as env:
            if masks == 'all':
                mask = c.choose(256, 'shape')
            else:
                # the four None-ness bits the code branches on, the passive ones all-or-nothing
                m = c.choose(32, 'shape')
                ctrl, passive = m & 15, m >> 4
                sh = {'abort_reason': ctrl & 1, 'filesize': ctrl & 2, 'start_time': ctrl & 4, 'complete_time': ctrl & 8,
                      'local_path': passive, 'place_in_queue': passive, 'fail_reason': passive, 'offset': passive}
                mask = sum(1 << i for i, k in enumerate(SHAPE_BITS) if sh[k])
            sh = shape_of(mask)
            if legacy and sh['abort_reason']:
                raise symex.PathAbort('legacy records have no abort reason')
            t = mk_transfer(c, 0, state, d, (1, 1), sh, loop)
            restart(c, env, loop, [t], ['single', 'legacy' if legacy else 'current'], legacy=legacy)
    finally:
        loop.cleanup()


def h_restart(c, specs=(('QUEUED', 'D'),), lens=None, legacy=False, lean=False, distinct_paths=False):
    """n transfers with symbolic names in the given persisted states"""
    loop = VLoop()
    try:
        with Env(c) as env:
            ts = []
            for i, (st, d) in enumerate(specs):
                sh = dict(FULL)
                if legacy:
                    sh['abort_reason'] = False
                if lean and i > 0:
                    # keep the path count down: only transfer 0 carries times (each pair of times forks the
                    # speed computation of a snapshot)
                    sh['start_time'] = sh['complete_time'] = False
                ts.append(mk_transfer(c, i, st, d, tuple(lens[i]) if lens else (1, 1), sh, loop))
            if distinct_paths:
                for i in range(len(ts)):
                    for j in range(i):
                        e = veq(ts[i].remote_path, ts[j].remote_path)
                        c.assume(_neg(e))
                        learn(e, False)
            else:
                all_distinct(c, ts)
            restart(c, env, loop, ts, ['restart', len(ts), 'legacy' if legacy else 'current'], legacy=legacy)
    finally:
        loop.cleanup()


def h_rewrite(c, s0='FAILED', d='D', legacy=False, targets=None):
    """the same transfer is written twice by one process with a change in between: manager A stores (periodic
    write), the live transfer gets fresh symbolic values in every persisted field and state s1 (chosen here; s0
    and s1 both finalized is the 'finished, re-queued, finished differently' case; s1 == s0 the 'same state, other
    progress / reasons' case), A stops and stores, a new manager loads: it must see the live values of the last
    write.  legacy: the first record is the one an older version left under the old key."""
    loop = VLoop()
    try:
        with Env(c) as env:
            s1 = c.pick(targets or STATES, 'state1')
            sh = dict(FULL, abort_reason=not legacy)
            t = mk_transfer(c, 0, s0, d, (1, 1), sh, loop)
            sig = ['rewrite', 'legacy' if legacy else 'current', s0, s1]
            A = mk_manager(env)
            if legacy:
                put_legacy(c, env, [t])
                ok, _ = guarded(c, 'load_no_exception', sig, loop.run_until_complete, A.load_data())
                if not ok or len(A.transfers) != 1:
                    ob(c, not ok or len(A.transfers) == 1, 'loaded_each_once', sig=sig)
                    return
                t = A.transfers[0]
            else:
                loop.run_until_complete(A.add(t))
            ok, _ = guarded(c, 'write_no_exception', sig, loop.run_until_complete, A.store_data())
            if not ok:
                return
            fill_fields(c, t, 'm1', s1, FULL, loop)
            c.note('rewrite', s0, '->', s1)
            snaps = [snap(t)]
            ok, _ = guarded(c, 'write_no_exception', sig, loop.run_until_complete, _stop_and_store(A))
            if not ok:
                return
            B = mk_manager(env)
            ok, _ = guarded(c, 'load_no_exception', sig, loop.run_until_complete, B.load_data())
            if not ok:
                return
            c.reach('loaded')
            check_loaded(c, loop, B, snaps, sig, full=False)
    finally:
        loop.cleanup()


# ------------------------------------------------------------------------------------------------
# sequences write / mutate / remove / add / write on one cache file
# ------------------------------------------------------------------------------------------------

# what a "move" mutation does to the state: between finalized states (a finished transfer is re-queued and
# finishes differently before the next write), and from the queue to a finalized state
MOVE = {'QUEUED': 'COMPLETE', 'COMPLETE': 'ABORTED', 'ABORTED': 'FAILED', 'FAILED': 'COMPLETE', 'PAUSED': 'ABORTED',
        'INCOMPLETE': 'FAILED', 'VIRGIN': 'QUEUED', 'INITIALIZING': 'FAILED', 'DOWNLOADING': 'COMPLETE',
        'UPLOADING': 'COMPLETE'}


def h_sequence(c, n=2, steps=3, lens=None, dirs=None, legacy_start=False, first=None, start='QUEUED', flip=0):
    """`first`: index of the first operation (job partition); None = chosen inside the job.
    `start`: state every transfer is in at the beginning.  A mutation gives *every* persisted field of the
    transfer a fresh symbolic value (so old != new is feasible and the solver decides whether the value read
    back is the one of the live object at the last write); it either keeps the state or moves it along MOVE:
    kind = (pool index + flip + earlier mutations of that transfer) % 2, 0 = keep, 1 = move."""
    with Env(c) as env:
        lens = lens or [(1, 1)] * (n + 1)
        dirs = dirs or 'D' * (n + 1)
        full0 = dict(FULL, abort_reason=not legacy_start)   # records of an old version carry no abort reason
        pool = [mk_transfer(c, i, start, dirs[i], tuple(lens[i]), full0 if i == 0 else BARE) for i in range(n + 1)]
        nmut = [0] * (n + 1)
        all_distinct(c, pool)
        live = pool[:n]          # pool[n] is the one that may be added later
        cache = TransferShelveCache(env.dir)
        sig = ['sequence', 'legacy_start' if legacy_start else 'fresh_start']
        if legacy_start:
            put_legacy(c, env, live)
            persisted = [snap(t) for t in live]
            persisted_objs = list(live)
        else:
            persisted, persisted_objs = [], []
        gone = []
        muts = 0
        for k in range(steps):
            ops = ['write'] + [f'mutate{i}' for i in range(len(live))] + [f'remove{i}' for i in range(len(live))]
            if not any(x is pool[n] for x in live):
                ops.append('add')
            if k == 0 and first is not None:
                if first >= len(ops):
                    raise symex.PathAbort('no such first operation')
                op = ops[first]
            else:
                op = c.pick(ops, f'op{k}')
            c.note('op', op)
            if op == 'write':
                ok, _ = guarded(c, 'write_no_exception', sig, cache.write, list(live))
                if not ok:
                    return
                persisted = [snap(t) for t in live]
                persisted_objs = list(live)
            elif op.startswith('mutate'):
                t = live[int(op[6:])]
                pi = [i for i, x in enumerate(pool) if x is t][0]
                muts += 1
                old = t.state.VALUE.name
                new = MOVE[old] if (pi + flip + nmut[pi]) % 2 else old
                nmut[pi] += 1
                c.note('mutate', pi, old, '->', new)
                if persisted and any(t is x for x in persisted_objs):
                    c.reach('mutated_after_write')
                fill_fields(c, t, f'm{muts}', new, FULL)
            elif op.startswith('remove'):
                gone.append(live.pop(int(op[6:])))
            else:
                live.append(pool[n])
        ok, R = guarded(c, 'read_no_exception', sig, cache.read)
        if not ok:
            return
        c.reach('sequence_read')
        check_same_set(c, R, persisted, 'roundtrip', sig, with_state=True)
        for t in gone:
            if any(t is x for x in persisted_objs):
                continue
            s = snap(t)
            ob(c, Not(Or(*[ident_eq(r, s) for r in R])) if R else True, 'removed_gone', sig=sig)


# ------------------------------------------------------------------------------------------------
# from the constructor state through the public API (reachability of refuting situations)
# ------------------------------------------------------------------------------------------------

def h_api(c, lens=((2, 1), (1, 2)), scenario='download_download'):
    loop = VLoop()
    try:
        with Env(c) as env:
            A = mk_manager(env)
            names = [(fresh_str(c, f't{i}_user', l[0]), fresh_str(c, f't{i}_path', l[1])) for i, l in enumerate(lens)]
            for i, (u, p) in enumerate(names):
                c.note(f't{i}', show(u), show(p))
            sig = ['api', scenario]
            t0 = loop.run_until_complete(A.download(names[0][0], names[0][1]))
            if scenario == 'download_download':
                t1 = loop.run_until_complete(A.download(names[1][0], names[1][1]))
            elif scenario == 'download_paused':
                t1 = loop.run_until_complete(A.download(names[1][0], names[1][1], paused=True))
            else:   # an upload somebody queued with us
                t1 = Transfer(names[1][0], names[1][1], TransferDirection.UPLOAD)
                t1.filesize = c.fresh_int('t1_filesize', 0, 2 ** 64 - 1)
                t1 = loop.run_until_complete(A.add(t1))
                loop.run_until_complete(t1.state.queue())
            snaps = [snap(t) for t in A.transfers]
            ob(c, len(A.transfers) == (1 if t0 is t1 else 2), 'api_setup')
            ok, _ = guarded(c, 'write_no_exception', sig, loop.run_until_complete, A.store_data())
            if not ok:
                return
            # later in the same process: one transfer is removed and the cache written again
            if scenario == 'upload_removed' and len(A.transfers) == 2:
                loop.run_until_complete(A.remove(t1))
                snaps = [snap(t) for t in A.transfers]
                ok, _ = guarded(c, 'write_no_exception', sig, loop.run_until_complete, A.store_data())
                if not ok:
                    return
            B = mk_manager(env)
            ok, _ = guarded(c, 'load_no_exception', sig, loop.run_until_complete, B.load_data())
            if not ok:
                return
            c.reach('loaded')
            check_loaded(c, loop, B, snaps, sig)
    finally:
        loop.cleanup()


# ------------------------------------------------------------------------------------------------
# prelude: the stubs against the real thing on concrete values
# ------------------------------------------------------------------------------------------------

def _concrete_transfers():
    out = []
    specs = [('user0', '@abcdef\\file.mp3', 'D', 'COMPLETE', 100, 100), ('user1', '@abcdef\\file.flac', 'U', 'FAILED', 100, 50),
             ('user1', '@abcdef\\sub\\file.flac', 'U', 'UPLOADING', 100, 50), ('üser', 'ü\\中.mp3', 'D', 'ABORTED', None, 0),
             ('a', 'b', 'D', 'INITIALIZING', 5, 0), ('', 'x', 'D', 'DOWNLOADING', 7, 7)]
    for u, p, d, st, fs, bt in specs:
        t = Transfer(u, p, DIRS[d])
        t.state = TransferState.init_from_state(S[st], t)
        t.filesize, t.bytes_transfered = fs, bt
        t.start_time, t.complete_time = 1.0, (3.0 if st in ('COMPLETE', 'FAILED') else None)
        t.local_path = '/dl/' + p if d == 'D' else None
        if st == 'ABORTED':
            t.abort_reason = AbortReason.BLOCKED
        out.append(t)
    return out


def _dump(ts):
    def key(t):
        return (t.username, t.remote_path, t.direction.value)
    return sorted((key(t), t.state.VALUE.name, sorted((k, repr(v)) for k, v in t.__getstate__().items())) for t in ts)


class _Cap:
    def __setstate__(self, st):
        self.keys = list(st)


class _LegacyProbe(pickle.Unpickler):
    def find_class(self, mod, name):
        if (mod, name) == ('aioslsk.transfer.model', 'Transfer'):
            return _Cap
        return super().find_class(mod, name)


def prelude(tier):
    notes = []
    # 1. hash stub: digest equality == preimage equality, against real sha256
    samples = ['', 'a', 'ab', 'abc1', 'ab' + 'c' + '1', 'a' + 'bc' + '1', 'é', 'é', '中', '\x00', 'a\x00', '\x00a', '0', '1']
    with Env(None, symbolic=True) as env:
        for a in samples:
            for b in samples:
                real = hashlib.sha256(a.encode()).hexdigest() == hashlib.sha256(b.encode()).hexdigest()
                stub = env.hashlib.sha256(a.encode()).hexdigest() == env.hashlib.sha256(b.encode()).hexdigest()
                if bool(stub) != real:
                    raise HarnessError(f'hash stub disagrees with sha256 on {a!r} {b!r}')
        if env.hashlib.sha256(b'a').hexdigest() == env.hashlib.md5(b'a').hexdigest():
            raise HarnessError('hash stub: algorithms not separated')
    notes.append(f'hash stub == sha256 equality on {len(samples) ** 2} concrete pairs')
    # 2. dbm/pickle plumbing against real shelve: same scenario, same result
    results = []
    for symbolic in (True, False):
        with Env(None, symbolic=symbolic) as env:
            cache = TransferShelveCache(env.dir)
            ts = _concrete_transfers()
            cache.write(ts)
            r1 = _dump(cache.read())
            ts[0].bytes_transfered = 42
            del ts[1]
            cache.write(ts)
            r2 = _dump(cache.read())
            results.append((r1, r2))
            if symbolic and not isinstance(env.files[env.db_path()], SymDbm):
                raise HarnessError('dbm stub was not used')
    if results[0] != results[1]:
        raise HarnessError('stubbed dbm/pickle path disagrees with real shelve on the concrete scenario')
    # (only agreement of the two paths is demanded here; what the result should be is the harnesses' business)
    notes.append('stubbed dbm + persistent-id pickler == real shelve on a 6-transfer write/mutate/remove/write scenario')
    # 3. the legacy record shape and key format are the ones of a cache file written by an old version
    fixture = os.path.join(os.path.dirname(os.path.dirname(os.path.dirname(aioslsk.__file__))), 'tests', 'unit',
                           'resources', 'data')
    if not os.path.exists(os.path.join(fixture, 'transfers.dat')):
        fixture = '/repo/tests/unit/resources/data'
    if os.path.exists(os.path.join(fixture, 'transfers.dat')):
        d = tempfile.mkdtemp(prefix='c17-fixture-')
        try:
            for f in os.listdir(fixture):
                if f.startswith('transfers'):
                    shutil.copy(os.path.join(fixture, f), d)
            db = dbm.open(os.path.join(d, 'transfers'), 'r')
            n = 0
            for k in db.keys():
                n += 1
                keys = _LegacyProbe(io.BytesIO(db[k])).load().keys
                if keys != LEGACY_KEYS:
                    raise HarnessError(f'legacy record shape differs from the pinned one: {keys}')
                t = pickle.loads(db[k])
                with Env(None, symbolic=False) as env:
                    if baseline_key(env, t.username, t.remote_path, t.direction).encode() != k:
                        raise HarnessError('baseline key format differs from the cache fixture')
            db.close()
            notes.append(f'legacy record shape and key format match {n} records of tests/unit/resources/data/transfers')
        finally:
            shutil.rmtree(d, ignore_errors=True)
    else:
        notes.append('legacy fixture not found; legacy shape not cross-checked')
    return notes


# ------------------------------------------------------------------------------------------------

META = {
    'level': 'other',
    'technique': 'symbolic execution of the real cache / pickle-state / load-repair code on z3-backed proxies (strings of '
                 'symbolic characters, Int sizes and counters, Real times, Bool marks); the database is a table whose key '
                 'comparisons are solver-decided forks; set-equality and state-repair obligations are z3 queries per path',
    'explanation': 'Real TransferShelveCache.write/read, shelve.Shelf, the C pickler with Transfer.__getstate__/__setstate__, '
                   'TransferState.init_from_state and TransferManager.add/write_cache/read_cache/queue/pause/'
                   '_get_queued_transfers run natively. Each character of user name / remote path / local path / reasons is a '
                   'z3 Int over all Unicode scalar values; filesize, bytes_transfered, counters, times and the remote-queue '
                   'mark are z3 Int/Real/Bool. Whether two transfers get the same database key, whether the stale-entry '
                   'removal keeps or deletes a record, and COMPLETE-vs-INCOMPLETE on load are decided by the solver over all '
                   'those values; persisted state, direction, None-ness of optional fields, string lengths, number of '
                   'transfers and the operation sequence are enumerated.',
    'functions': [TransferShelveCache.write, TransferShelveCache.read, Transfer.__getstate__, Transfer.__setstate__,
                  Transfer.__eq__, Transfer.take_progress_snapshot, Transfer.get_speed, Transfer.is_transfered,
                  Transfer.is_transferring, Transfer.reset_time_vars, TransferState.init_from_state, TransferState._wrap_lock,
                  TransferManager.read_cache, TransferManager.write_cache, TransferManager.load_data, TransferManager.store_data,
                  TransferManager.add, TransferManager.queue, TransferManager.pause, TransferManager.download,
                  TransferManager.remove, TransferManager._get_queued_transfers, TransferManager.on_transfer_state_changed,
                  TransferManager.request_management_cycle, TransferManager.stop, shelve.Shelf.__setitem__, shelve.Shelf.__getitem__,
                  shelve.DbfilenameShelf.__init__],
    'stubs': ['dbm.open -> in-memory insertion-ordered table; key equality is a z3 query and forks (props/c17.py SymDbm)',
              'aioslsk.transfer.cache.hashlib -> injective uninterpreted function per algorithm over the hashed character '
              'sequence (digests equal iff preimages equal)',
              'shelve.Pickler / shelve.Unpickler -> subclasses of the real C pickler/unpickler that pass z3 proxies through the '
              'byte stream as persistent ids',
              'aioslsk.transfer.model.time -> one symbolic instant `now` (feeds only the speed field of progress snapshots)',
              'user manager -> object answering get_user_object() with status UNKNOWN (scheduling itself is C05)',
              'shares manager / network -> inert objects (not touched by the executed code)',
              'asyncio event loop -> engine.vloop.VLoop',
              'concrete replay: none of the above; real hashlib, shelve, dbm, pickle in a temporary directory'],
    'data_variables': ['each character of username / remote_path (length 0..2 q, 0..3 t, every Unicode scalar value)',
                       'each character of local_path (2), fail_reason (1), abort_reason (1)',
                       'filesize, bytes_transfered (0..2^64-1)', 'place_in_queue, queue_attempts, upload_request_attempts, _offset (Int)',
                       'start_time, complete_time, last_queue_attempt, last_upload_request_attempt, now (Real >= 0)',
                       'remotely_queued (Bool)'],
    'discriminants': ['number of transfers', 'persisted state (10) x direction (2) per transfer',
                      'None-ness of local_path / place_in_queue / fail_reason / abort_reason / filesize / start_time / '
                      'complete_time, presence of a stray _offset', 'record format: current / written by an older version',
                      'string lengths', 'operation sequence write / mutate i / remove i / add',
                      'state before and after a mutation (same state / moved)'],
    'bounds': {'quick': {'pair': 'user / path lengths 0..2 for both transfers (81 length combinations) x 4 direction pairs',
                         'single': '10 states x 2 directions x 32 None-ness shapes (the 4 bits the code branches on x the passive ones '
                                   'all-or-nothing) x current / legacy record; two restarts in a row',
                         'restart': 'n=0; n=2: 20 x 6 representative partners (current), 10 x 4 (legacy); n=8: every state present, '
                                    '10 rotations (+2 legacy), remote paths assumed pairwise different',
                         'sequence': '2 live transfers + 1 addable, 3 operations out of write / mutate i / remove i / add, fresh and '
                                     'legacy start, start state QUEUED / FAILED / ABORTED / COMPLETE, a mutation = fresh symbolic '
                                     'values in every persisted field and either the same state or a move (finalized -> other '
                                     'finalized, QUEUED -> COMPLETE); name lengths (1,1) and the colliding shapes (2,1)/(1,2)',
                         'rewrite': 'one transfer written twice by one process: 10 start states x 2 directions x 6 target states '
                                    '(current), 3 finalized start states (record of an older version)',
                         'api': '4 scenarios through download()/add()/remove()/stop()/store_data()/load_data() x 2 name shapes'},
               'thorough': {'pair': 'lengths 0..3 (256 combinations) x 4 direction pairs', 'single': 'all 256 None-ness shapes',
                            'restart': 'n=2 all 400 pairs, current and legacy; n=3: 400 pairs x 10 representative third transfers; '
                                       'n=5 and n=8: 20 rotations x current / legacy',
                            'sequence': '2 live + 1 with 4 operations x 4 start states x both keep/move assignments; 3 live + 1 '
                                        'with 3 operations; colliding shapes with 4 operations',
                            'rewrite': '10 x 2 x 10 start/target states, current and legacy',
                            'api': 'as quick'}},
    'outside': ['names longer than the bound; more than 3 transfers whose names may alias each other (n=5/8 runs assume pairwise '
                'different remote paths)',
                'the dbm file format and the pickle byte format of symbolic leaves (exercised concretely only: prelude '
                'differential run, and every counterexample replay goes through real shelve/dbm/pickle)',
                'strings derived from symbolic ones by C-level formatting are only supported as hash / database-key input',
                'what stop() does to running transfers before the cache is written (C03/C06); here every state is taken as the '
                'persisted one', 'TransferState.__setstate__: state objects are never pickled (Transfer.__getstate__ stores the '
                'enum value), the method is dead code for this property',
                'progress_snapshot of a loaded transfer (internal baseline of progress events)'],
    'assumptions': ['the hash used for database keys is collision free', 'a manager never holds two equal transfers (add() refuses them)',
                    'an ABORTED record without abort reason is given "Requested" on load (pinned baseline behaviour for older caches)'],
}


def jobs(tier):
    q = tier == 'quick'
    out = []
    ml = 2 if q else 3
    for lu in range(ml + 1):
        for lp in range(ml + 1):
            for dirs in ('DD', 'UU', 'DU', 'UD'):
                out.append({'harness': 'pair', 'fn': h_pair, 'params': {'lens0': [lu, lp], 'max_len': ml, 'dirs': dirs},
                            'requires': ['pair_read']})
    for st in STATES:
        for d in 'DU':
            for legacy in (False, True):
                req = ['loaded', 'state_changed']
                if st == 'INITIALIZING':
                    req.append('was_initializing')
                if st in ('DOWNLOADING', 'UPLOADING'):
                    req += ['repaired_COMPLETE', 'repaired_INCOMPLETE']
                out.append({'harness': 'single', 'fn': h_single,
                            'params': {'state': st, 'd': d, 'legacy': legacy, 'masks': 'control' if q else 'all'},
                            'requires': req})
    out.append({'harness': 'restart', 'fn': h_restart, 'params': {'specs': []}, 'requires': ['loaded']})
    combos = [(s, d) for s in STATES for d in 'DU']
    rep2 = [('QUEUED', 'D'), ('INITIALIZING', 'U'), ('DOWNLOADING', 'D'), ('UPLOADING', 'U'), ('ABORTED', 'D'), ('COMPLETE', 'U')]
    for a in combos:
        for b in (rep2 if q else combos):
            out.append({'harness': 'restart', 'fn': h_restart, 'params': {'specs': [list(a), list(b)], 'lean': q},
                        'requires': ['loaded']})
    rep = ['QUEUED', 'INITIALIZING', 'DOWNLOADING', 'ABORTED', 'COMPLETE']
    for a in [(s, d) for s in (rep if q else STATES) for d in 'DU']:
        for b in (rep2[:4] if q else combos):
            out.append({'harness': 'restart', 'fn': h_restart,
                        'params': {'specs': [list(a), list(b)], 'legacy': True, 'lean': True}, 'requires': ['loaded']})
    if not q:
        for a in combos:
            for b in combos:
                out.append({'harness': 'restart3', 'fn': h_restart_third, 'params': {'a': list(a), 'b': list(b)},
                            'requires': ['loaded']})
    # many transfers at once, every state present, every position
    for n in ([8] if q else [5, 8]):
        for rot in range(len(STATES)):
            for flip in ([rot % 2] if q else [0, 1]):
                specs = [[STATES[(rot + i) % len(STATES)], 'DU'[(i + flip) % 2]] for i in range(n)]
                for legacy in (False, True):
                    if q and legacy and rot not in (0, 5):
                        continue
                    out.append({'harness': 'restart', 'fn': h_restart,
                                'params': {'specs': specs, 'lean': True, 'distinct_paths': True, 'legacy': legacy},
                                'requires': ['loaded']})
    starts = ['QUEUED', 'FAILED', 'ABORTED', 'COMPLETE']
    seq_req = ['sequence_read', 'mutated_after_write']
    for legacy_start in (False, True):
        for si, start in enumerate(starts):
            if q:
                out.append({'harness': 'sequence', 'fn': h_sequence,
                            'params': {'n': 2, 'steps': 3, 'legacy_start': legacy_start, 'start': start, 'flip': si % 2},
                            'requires': seq_req})
            else:
                for first in range(6):
                    for flip in (0, 1):
                        out.append({'harness': 'sequence', 'fn': h_sequence,
                                    'params': {'n': 2, 'steps': 4, 'legacy_start': legacy_start, 'first': first,
                                               'start': start, 'flip': flip},
                                    'requires': ['sequence_read'] + (['mutated_after_write'] if first == 0 else [])})
        if not q:
            for first in range(8):
                out.append({'harness': 'sequence', 'fn': h_sequence,
                            'params': {'n': 3, 'steps': 3, 'legacy_start': legacy_start, 'first': first,
                                       'start': starts[first % 4], 'flip': first // 4},
                            'requires': ['sequence_read']})
        k = 0
        for lens in ([[2, 1], [1, 2], [1, 1]], [[1, 2], [2, 1], [2, 1]]):
            for dirs in (('DDD',) if q else ('DDD', 'DUD')):
                for first in ([None] if q else range(6)):
                    k += 1
                    out.append({'harness': 'sequence', 'fn': h_sequence,
                                'params': {'n': 2, 'steps': 3 if q else 4, 'lens': lens, 'dirs': dirs,
                                           'legacy_start': legacy_start, 'first': first, 'start': starts[k % 4],
                                           'flip': (k // 4) % 2},
                                'requires': ['sequence_read']})
    # one transfer written twice with a change in between, through the managers
    fin = ['COMPLETE', 'FAILED', 'ABORTED']
    for s0 in STATES:
        for d in 'DU':
            for legacy in (False, True):
                if q and legacy and s0 not in fin:
                    continue
                out.append({'harness': 'rewrite', 'fn': h_rewrite,
                            'params': {'s0': s0, 'd': d, 'legacy': legacy,
                                       'targets': (fin + ['QUEUED', 'DOWNLOADING', 'PAUSED']) if q else None},
                            'requires': ['loaded']})
    for sc in ('download_download', 'download_paused', 'download_upload', 'upload_removed'):
        for lens in ([[2, 1], [1, 2]], [[1, 1], [1, 1]]):
            out.append({'harness': 'api', 'fn': h_api, 'params': {'lens': lens, 'scenario': sc}, 'requires': ['loaded']})
    return out


THIRD = [('VIRGIN', 'U'), ('QUEUED', 'D'), ('INITIALIZING', 'D'), ('INCOMPLETE', 'D'), ('DOWNLOADING', 'D'), ('UPLOADING', 'U'),
         ('COMPLETE', 'U'), ('FAILED', 'D'), ('ABORTED', 'U'), ('PAUSED', 'D')]


def h_restart_third(c, a, b):
    """thorough: third transfer's state x direction chosen inside the job"""
    st, d = c.pick(THIRD, 'spec2')
    h_restart(c, specs=[a, b, [st, d]], lean=True)
