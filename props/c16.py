"""C16 (first sentence): after a successful login the server has been told exactly what
the settings say; commands are refused without a session.

A real SoulSeekClient (real Network, UserManager, RoomManager, InterestManager, SharesManager,
DistributedNetwork, TransferManager, SearchManager, real EventBus, real pydantic Settings) is
built per path on the virtual loop, the real `SoulSeekClient.login()` is run against a simulated
server that sits behind the real `ServerConnection.send_message` / `receive_message_object` /
reader loop, and every `_on_session_initialized` handler runs through the real
`SessionInitializedEvent`.  The listening port numbers, the share counts, the parent's branch
level and the boolean settings (auto_join, private_room_invites, search_for_parent, the login
verdict) are z3 values flowing through the real code into the message fields; the oracle is the
*server's view* obtained by folding the frames it received (last SetListenPort, last SetStatus,
AddUser minus RemoveUser, JoinRoom minus LeaveRoom, ...) compared with a reference computed from
the settings.

Sentences 2-4 of C16 (session loss, reset, reconnect, stop() finality) are checked by h_loss / h_reset
(environment in engine/c16life.py) in the style of C06/C15: the data (reconnect.auto, the login
verdicts, the server-sent values) is symbolic; the POSITION and KIND of the fault are enumerated
injection points on the real code running on the virtual loop.  See the comment above h_loss.
"""
from __future__ import annotations

import asyncio
import contextlib
import logging

import z3

from engine import symex
from engine.symex import SBool, SInt, Not
from engine.vloop import VLoop
from engine.c16life import Env, Loop

from aioslsk.client import SoulSeekClient
from aioslsk.commands import GetUserStatusCommand, JoinRoomCommand, PrivateMessageCommand
from aioslsk.distributed import DistributedNetwork, DistributedPeer
from aioslsk.events import EventBus, SessionInitializedEvent
from aioslsk.exceptions import InvalidSessionError, MessageDeserializationError
from aioslsk.interest.manager import InterestManager
from aioslsk.network.connection import (
    CloseReason, ConnectionState, DataConnection, ListeningConnection, PeerConnection, PeerConnectionType)
from aioslsk.network.network import ListeningConnectionErrorMode, Network
from aioslsk.protocol.messages import (
    AddHatedInterest, AddInterest, AddUser, BranchLevel, BranchRoot, GetUserStatus, JoinRoom, Kicked, LeaveRoom,
    Login, MinParentsInCache, DistributedAliveInterval, ParentInactivityTimeout, ParentMinSpeed, ParentSpeedRatio,
    Ping, PotentialParents, PrivilegedUsers, RoomList, UserJoinedRoom, RemoveHatedInterest, RemoveInterest, RemoveUser, ServerMessage, SetListenPort,
    SetStatus, SharedFoldersFiles, ToggleParentSearch, TogglePrivateRoomInvites)
from aioslsk.protocol.primitives import PotentialParent, UserStats
from aioslsk.room.manager import RoomManager
from aioslsk.search.manager import SearchManager
from aioslsk.server import ServerManager
from aioslsk.tasks import BackgroundTask
from aioslsk.settings import (
    CredentialsSettings, DebugSettings, InterestsSettings, ListeningSettings, NetworkSettings, RoomsSettings,
    Settings, SharedDirectorySettingEntry, SharesSettings, UsersSettings)
from aioslsk.shares.manager import SharesManager
from aioslsk.shares.model import SharedItem
from aioslsk.transfer.manager import TransferManager
from aioslsk.user.manager import UserManager, UserTrackingManager
from aioslsk.user.model import TrackingFlag, TrackingState

PROPERTY = 'C16'

OWN = 'me'
FRIENDS = ['alice', 'bob', 'carol']        # candidate friends; the own user name is always a candidate as well
ROOMS = ['r1', 'r2', 'r3']                 # candidate favourite rooms
INTERESTS = ['jazz', 'rock', 'pop']        # candidates for liked *and* hated (so a name can be in both)
GROUPS = ('login', 'ports', 'rooms', 'users', 'interests', 'shares', 'distributed')
ONLINE = 2                                 # protocol: SetStatus online = 2, away = 1, offline = 0
# what one shared directory may contain (subdir, filename): 0..3 files in 0..2 sub directories
DIR_SHAPES = [[], [('a', 'f1')], [('a', 'f1'), ('a', 'f2')], [('a', 'f1'), ('b', 'f2')],
              [('.', 'f1'), ('a', 'f2'), ('a', 'f3')]]


# ------------------------------------------------------------------------------------------------
# configuration: the settings-level values of one path (symbolic or concrete) and their reference
# ------------------------------------------------------------------------------------------------

class Cfg:
    pass


def _subset(c, base, names, symbolic, default):
    """membership of each candidate name is an SBool, materialised per path into a real set"""
    if not symbolic:
        return set(default)
    out = set()
    for nm in names:
        if c.fresh_bool(f'{base}_{nm}'):
            out.add(nm)
    return out


def build_cfg(c, sym, n, ports, lstates, parent, shares):
    g = Cfg()
    g.sym, g.ports, g.parent, g.shares_mode = sym, ports, parent, shares
    # listening ports: which ones are configured is a discriminant, the numbers are data
    has_clear, has_obf = ports in ('clear', 'both'), ports in ('obf', 'both')
    if 'ports' in sym:
        g.port = c.fresh_int('listen_port', 1, 65535) if has_clear else 0
        g.obf_port = c.fresh_int('listen_obfuscated_port', 1, 65535) if has_obf else 0
    else:
        g.port, g.obf_port = (60000 if has_clear else 0), (60001 if has_obf else 0)
    g.lstate = [c.pick(lstates, 'listen_state_clear') if has_clear else None,
                c.pick(lstates, 'listen_state_obfuscated') if has_obf else None]
    # rooms
    g.auto_join = c.fresh_bool('auto_join') if 'rooms' in sym else True
    g.invites = c.fresh_bool('private_room_invites') if 'rooms' in sym else True
    g.favorites = _subset(c, 'favorite', ROOMS[:n], 'rooms' in sym, ['r1'])
    # users
    g.friends = _subset(c, 'friend', FRIENDS[:n] + [OWN], 'users' in sym, ['alice'])
    # interests
    g.liked = _subset(c, 'liked', INTERESTS[:n], 'interests' in sym, ['jazz'])
    g.hated = _subset(c, 'hated', INTERESTS[:n], 'interests' in sym, ['pop'])
    # distributed
    g.search_for_parent = c.fresh_bool('search_for_parent') if 'distributed' in sym else True
    g.parent_level = None
    if parent != 'none':
        g.parent_level = c.fresh_int('parent_branch_level', 0, 2 ** 32 - 2) if 'distributed' in sym else 3
    g.parent_root = {'none': None, 'other_root': 'rootuser', 'own_root': OWN}[parent]
    # shares
    g.dir_shapes = []
    g.stats = None
    if shares == 'counts':
        g.stats = (c.fresh_int('shared_folder_count', 0, 2 ** 32 - 1), c.fresh_int('shared_file_count', 0, 2 ** 32 - 1))
    elif shares == 'shapes':
        for d in range(c.choose(3, 'n_shared_directories')):
            g.dir_shapes.append(c.pick(DIR_SHAPES, f'dir{d}_shape'))
    # login verdict of the server
    g.login_ok = c.fresh_bool('login_accepted') if 'login' in sym else True
    g.reconnect = c.fresh_bool('reconnect_auto') if 'login' in sym else False
    return g


def reference(g):
    """what the settings say the server must know after the login burst (independent of aioslsk)"""
    r = Cfg()
    r.port = g.port if g.lstate[0] == 'CONNECTED' else 0
    r.obf_port = g.obf_port if g.lstate[1] == 'CONNECTED' else 0
    r.obf_amount = 1 if g.lstate[1] == 'CONNECTED' and g.ports in ('obf', 'both') else 0
    r.status = ONLINE
    if g.stats is not None:
        r.folders, r.files = g.stats
    else:
        r.files = sum(len(s) for s in g.dir_shapes)
        r.folders = sum(len({sub for sub, _ in s}) for s in g.dir_shapes)
    r.watch = lambda u: u in g.friends
    r.liked = lambda i: i in g.liked
    r.hated = lambda i: i in g.hated
    r.invites = g.invites
    r.room = lambda room: g.auto_join if room in g.favorites else False
    if g.parent == 'other_root':
        r.level, r.root = g.parent_level + 1, g.parent_root
    else:   # no parent, or the parent's branch root is ourselves: we are the root
        r.level, r.root = 0, OWN
    r.search = g.search_for_parent if g.parent == 'none' else False
    return r


def _put(model, field, value):
    """store a settings value; z3 proxies go around pydantic's assignment validation (which would
    reject / concretise them) straight into the model's field dict"""
    if isinstance(value, (SBool, SInt)):
        model.__dict__[field] = value
    else:
        setattr(model, field, value)


def build_settings(g):
    s = Settings(
        credentials=CredentialsSettings(username=OWN, password='pw'),
        network=NetworkSettings(listening=ListeningSettings(port=0, obfuscated_port=0)),
        users=UsersSettings(friends=set(g.friends)),
        rooms=RoomsSettings(favorites=set(g.favorites)),
        interests=InterestsSettings(liked=set(g.liked), hated=set(g.hated)),
        shares=SharesSettings(scan_on_start=False, download='/tmp/c16-dl', directories=[
            SharedDirectorySettingEntry(path=f'/tmp/c16-share/d{i}') for i in range(len(g.dir_shapes))]),
        debug=DebugSettings(),
    )
    _put(s.network.listening, 'port', g.port)
    _put(s.network.listening, 'obfuscated_port', g.obf_port)
    _put(s.rooms, 'auto_join', g.auto_join)
    _put(s.rooms, 'private_room_invites', g.invites)
    _put(s.debug, 'search_for_parent', g.search_for_parent)
    _put(s.network.server.reconnect, 'auto', g.reconnect)
    return s


# ------------------------------------------------------------------------------------------------
# the simulated server
# ------------------------------------------------------------------------------------------------

class _Frame:
    """symbolic mode: a frame on the wire is the message object itself (fields may be proxies)"""
    __slots__ = ('message', 'broken')

    def __init__(self, message, broken=False):
        self.message, self.broken = message, broken


class _Writer:
    """concrete mode: the socket towards the server; splits the byte stream into frames"""

    def __init__(self, server):
        self.server, self.buf, self.closed = server, b'', False

    def write(self, data):
        self.buf += bytes(data)
        while len(self.buf) >= 4:
            n = int.from_bytes(self.buf[:4], 'little')
            if len(self.buf) < 4 + n:
                break
            frame, self.buf = self.buf[:4 + n], self.buf[4 + n:]
            try:
                msg = ServerMessage.deserialize_request(frame)
            except Exception as e:  # noqa
                msg = ('undecodable', frame, repr(e))
            self.server.on_frame(msg)

    async def drain(self):
        return None

    def is_closing(self):
        return self.closed

    def close(self):
        self.closed = True

    async def wait_closed(self):
        return None

    def get_extra_info(self, name, default=None):
        return ('10.0.0.1', 40000) if name == 'sockname' else default


class FakeServer:
    """Sits behind the real ServerConnection.  stubbed=True (symbolic exploration): the codec is
    bypassed (encode/decode_message_data, _send, receive_message are replaced on the instance) so
    that proxy values travel inside the message objects.  stubbed=False (concrete replay): the real
    codec and the real read path run over a fake StreamWriter / a real asyncio.StreamReader."""

    def __init__(self, loop, conn, stubbed, login_reply, add_user='exists'):
        self.loop, self.conn, self.stubbed = loop, conn, stubbed
        self.login_reply, self.add_user = login_reply, add_user
        self.received = []

    def install(self):
        conn = self.conn
        conn.state = ConnectionState.CONNECTED
        if self.stubbed:
            self.inbox = asyncio.Queue()
            conn.encode_message_data = lambda m: _Frame(m)
            conn.decode_message_data = self._decode
            conn._send = self._send
            conn.receive_message = self.inbox.get
        else:
            self.reader = asyncio.StreamReader(loop=self.loop)
            conn._reader = self.reader
            conn._writer = _Writer(self)

    @staticmethod
    def _decode(frame):
        if frame.broken:
            raise MessageDeserializationError(b'', 'failed to deserialize message')
        return frame.message

    async def _send(self, data, timeout=None):
        self.on_frame(data.message if isinstance(data, _Frame) else ('raw', data))

    def on_frame(self, msg):
        self.received.append(msg)
        if isinstance(msg, Login.Request):
            self.deliver(self.login_reply())
        elif isinstance(msg, AddUser.Request) and self.add_user != 'silent':
            if self.add_user == 'exists':
                self.deliver(AddUser.Response(msg.username, True, status=ONLINE,
                                              user_stats=UserStats(100, 2, 30, 4), country_code='BE'))
            else:
                self.deliver(AddUser.Response(msg.username, False))

    def deliver(self, msg):
        if msg is None:
            return
        if self.stubbed:
            self.inbox.put_nowait(msg if isinstance(msg, _Frame) else _Frame(msg))
        else:
            self.reader.feed_data(msg if isinstance(msg, bytes) else msg.serialize())


class View:
    """what the server knows about this client: a fold over the frames it received"""

    def __init__(self):
        self.listen = self.status = self.shares = self.invites = None
        self.level = self.root = self.search = None
        self.watched, self.liked, self.hated, self.rooms = set(), set(), set(), set()
        self.frames = {}

    def fold(self, m):
        name = type(m).__qualname__ if not isinstance(m, tuple) else m[0]
        self.frames[name] = self.frames.get(name, 0) + 1
        if isinstance(m, SetListenPort.Request):
            none0 = lambda v: 0 if v is None else v  # noqa  (the optional tail may be omitted: same as 0/0)
            self.listen = (m.port, none0(m.obfuscated_port_amount), none0(m.obfuscated_port))
        elif isinstance(m, SetStatus.Request):
            self.status = m.status
        elif isinstance(m, SharedFoldersFiles.Request):
            self.shares = (m.shared_folder_count, m.shared_file_count)
        elif isinstance(m, AddUser.Request):
            self.watched.add(m.username)
        elif isinstance(m, RemoveUser.Request):
            self.watched.discard(m.username)
        elif isinstance(m, AddInterest.Request):
            self.liked.add(m.interest)
        elif isinstance(m, RemoveInterest.Request):
            self.liked.discard(m.interest)
        elif isinstance(m, AddHatedInterest.Request):
            self.hated.add(m.hated_interest)
        elif isinstance(m, RemoveHatedInterest.Request):
            self.hated.discard(m.hated_interest)
        elif isinstance(m, TogglePrivateRoomInvites.Request):
            self.invites = m.enable
        elif isinstance(m, JoinRoom.Request):
            self.rooms.add(m.room)
        elif isinstance(m, LeaveRoom.Request):
            self.rooms.discard(m.room)
        elif isinstance(m, BranchLevel.Request):
            self.level = m.level
        elif isinstance(m, BranchRoot.Request):
            self.root = m.username
        elif isinstance(m, ToggleParentSearch.Request):
            self.search = m.enable


def view_of(frames):
    v = View()
    for m in frames:
        v.fold(m)
    return v


# ------------------------------------------------------------------------------------------------
# the obligations of the first sentence
# ------------------------------------------------------------------------------------------------

def ob(c, cond, label, sig=None, info=None):
    """obligation.  Same verdict as c.check; the only difference: when a symbolic obligation can not
    hold for *any* value on this path the engine would cut the path after reporting it - here the path
    goes on (the remaining clauses are still looked at) by reporting it as the constant False, which is
    what it is on this path (pc & cond unsat  =>  every model of pc refutes it)."""
    if c.symbolic and isinstance(cond, SBool):
        e = z3.simplify(cond.e)
        if z3.is_true(e):
            cond = True
        elif z3.is_false(e) or c._check(e) == 'unsat':
            cond = False
    return c.check(cond, label, sig=sig, info=info)


def feasible(c, cond):
    """is `cond` possible on the current path?  (used for vacuity labels only, never for a verdict)"""
    if isinstance(cond, bool) or not c.symbolic:
        return bool(cond)
    return c._check(cond.e) == 'sat'


def _told(c, value, label, what):
    """the server was told at all (None = no such frame arrived)"""
    return ob(c, value is not None, label, sig=[what, 'never_told'])


def check_view(c, v, g, r):
    ls = [g.ports, g.lstate[0], g.lstate[1]]
    if _told(c, v.listen, 'listen_ports_advertised', 'SetListenPort'):
        ob(c, v.listen[0] == r.port, 'listen_ports_advertised', sig=['port'] + ls)
        ob(c, v.listen[2] == r.obf_port, 'listen_ports_advertised', sig=['obfuscated_port'] + ls)
        ob(c, v.listen[1] == r.obf_amount, 'listen_ports_advertised', sig=['obfuscated_port_amount'] + ls)
    if _told(c, v.status, 'online_status_advertised', 'SetStatus'):
        ob(c, v.status == r.status, 'online_status_advertised', sig=['status'])
    if _told(c, v.shares, 'share_counts_advertised', 'SharedFoldersFiles'):
        ob(c, v.shares[0] == r.folders, 'share_counts_advertised', sig=['shared_folder_count', g.shares_mode])
        ob(c, v.shares[1] == r.files, 'share_counts_advertised', sig=['shared_file_count', g.shares_mode])
    for u in sorted(set(FRIENDS) | {OWN} | v.watched):
        if u == OWN and OWN not in g.friends:
            continue   # the library also watches its own name "for convenience"; the property is silent on it
        got = u in v.watched
        ob(c, got == r.watch(u), 'friends_tracked',
           sig=['watched' if got else 'not_watched', 'self' if u == OWN else 'other'])
    for i in sorted(set(INTERESTS) | v.liked):
        got = i in v.liked
        ob(c, got == r.liked(i), 'liked_interests_advertised', sig=['added' if got else 'not_added'])
    for i in sorted(set(INTERESTS) | v.hated):
        got = i in v.hated
        ob(c, got == r.hated(i), 'hated_interests_advertised', sig=['added' if got else 'not_added'])
    if _told(c, v.invites, 'private_room_invites_advertised', 'TogglePrivateRoomInvites'):
        ob(c, v.invites == r.invites, 'private_room_invites_advertised', sig=['enable'])
    for room in sorted(set(ROOMS) | v.rooms):
        got = room in v.rooms
        c.reach('favourite_joined' if got else 'room_not_joined')
        ob(c, got == r.room(room), 'favourites_joined_iff_auto_join',
           sig=['joined' if got else 'not_joined', 'favourite' if room in g.favorites else 'not_favourite'])
    if _told(c, v.level, 'branch_position_advertised', 'BranchLevel'):
        ob(c, v.level == r.level, 'branch_position_advertised', sig=['level', g.parent])
    if _told(c, v.root, 'branch_position_advertised', 'BranchRoot'):
        ob(c, v.root == r.root, 'branch_position_advertised', sig=['root', g.parent])
    if _told(c, v.search, 'branch_position_advertised', 'ToggleParentSearch'):
        ob(c, v.search == r.search, 'branch_position_advertised', sig=['parent_search', g.parent])


# ------------------------------------------------------------------------------------------------
# scenario
# ------------------------------------------------------------------------------------------------

class _Capture(logging.Handler):
    def __init__(self):
        super().__init__(logging.WARNING)
        self.records = []

    def emit(self, record):
        exc = record.exc_info[1] if record.exc_info else None
        self.records.append((record.name, record.msg if isinstance(record.msg, str) else repr(record.msg), exc))


@contextlib.contextmanager
def captured_logs():
    """EventBus.emit swallows listener exceptions into the log: collect them (unformatted)"""
    lg = logging.getLogger('aioslsk')
    h = _Capture()
    old, old_disable = lg.propagate, logging.root.manager.disable
    lg.addHandler(h)
    lg.propagate = False
    logging.disable(logging.INFO)    # the cli switches all logging off; WARNING and above are needed here
    try:
        yield h
    finally:
        logging.disable(old_disable)
        lg.removeHandler(h)
        lg.propagate = old


COMMANDS = [
    ('GetUserStatus', lambda: GetUserStatusCommand('dave'), GetUserStatus.Request),
    ('JoinRoom', lambda: JoinRoomCommand('cmdroom'), JoinRoom.Request),
    ('PrivateMessage', lambda: PrivateMessageCommand('dave', 'hi'), None),
]


def _try_command(c, loop, client, server, cmd, expect_refused, when):
    name, mk, req_cls = COMMANDS[cmd]
    before = len(server.received)
    t = loop.spawn(client.execute(mk()))
    loop.run_ready()
    new = server.received[before:]
    if expect_refused:
        c.reach('refused_' + when)
        ob(c, t.done() and not t.cancelled() and isinstance(t.exception(), InvalidSessionError),
           'refused_without_session', sig=[when, name, 'no_InvalidSessionError'],
           info=repr(t.exception()) if t.done() and not t.cancelled() else 'not finished')
        ob(c, len(new) == 0, 'refused_without_session', sig=[when, name, 'sent_anyway'])
    else:
        c.reach('accepted_with_session')
        ok = t.done() and not t.cancelled() and t.exception() is None
        ob(c, ok and len(new) >= 1 and (req_cls is None or any(isinstance(m, req_cls) for m in new)),
           'accepted_with_session', sig=[name],
           info=repr(t.exception()) if t.done() and not t.cancelled() else 'not finished')
    if not t.done():
        t.cancel()


def scenario(c, loop, g, stubbed, reply='response', add_user='exists', cmd=0, window=2.0):
    """build the client from the settings, log in against the simulated server, let the loop run for
    `window` virtual seconds; returns (client, server, login task, frames of the login burst, init events)"""
    settings = build_settings(g)
    client = loop.call(SoulSeekClient, settings)
    net = client.network
    # listening connections: opened (or not) without sockets
    for conn, st in zip(net.listening_connections, g.lstate):
        if conn is not None and st is not None:
            conn.state = ConnectionState[st]
    # shared directories as a finished scan leaves them
    client.shares.load_from_settings()
    for sd, shape in zip(client.shares.shared_directories, g.dir_shapes):
        for sub, fn in shape:
            sd.items.add(SharedItem(sd, sub, fn, 1.0))
    if len(client.shares.shared_directories) != len(g.dir_shapes):
        raise symex.HarnessError('shared directories not loaded')
    if g.stats is not None:
        client.shares.get_stats = lambda: g.stats     # stub: counts as data (jobs with shares='counts')
    # a distributed parent that survived from before this login
    if g.parent != 'none':
        pc = PeerConnection('10.0.0.9', 2234, net, connection_type=PeerConnectionType.DISTRIBUTED, username='pparent')
        pc.state = ConnectionState.CONNECTED
        net.peer_connections.append(pc)
        peer = DistributedPeer('pparent', pc, branch_level=g.parent_level, branch_root=g.parent_root)
        client.distributed_network.distributed_peers.append(peer)
        client.distributed_network.parent = peer

    def login_reply():
        if reply == 'response':
            ok = g.login_ok
            if stubbed:
                return Login.Response(ok, greeting='hello', ip='1.2.3.4', md5hash='0' * 32, privileged=False,
                                      reason='INVALIDPASS')
            if ok:
                return Login.Response(True, greeting='hello', ip='1.2.3.4', md5hash='0' * 32, privileged=False)
            return Login.Response(False, reason='INVALIDPASS')
        if reply == 'other_message':
            return Kicked.Response()
        if reply == 'undecodable':
            return _Frame(None, broken=True) if stubbed else bytes.fromhex('0800000001000000ffffffff')
        raise symex.HarnessError(reply)

    server = FakeServer(loop, net.server_connection, stubbed, login_reply, add_user)
    loop.call(server.install)
    n_init = []
    keep = lambda ev: n_init.append(ev)  # noqa
    client.events.register(SessionInitializedEvent, keep)

    # no session yet: commands are refused
    ob(c, client.session is None, 'refused_without_session', sig=['before_login', 'session_present'])
    _try_command(c, loop, client, server, cmd, True, 'before_login')

    task = loop.spawn(client.login())
    loop.advance(window)
    # the login burst: what reached the server from the Login.Request on
    first = next((i for i, m in enumerate(server.received) if isinstance(m, Login.Request)), len(server.received))
    burst = list(server.received[first:])
    return client, server, task, burst, n_init


def h_login(c, sym=(), n=1, ports='both', lstates=('CONNECTED', 'CLOSED'), parent='none', shares='none',
            reply='response', add_user='exists', cmd=0):
    sym = list(sym)
    g = build_cfg(c, sym, n, ports, list(lstates), parent, shares)
    r = reference(g)
    loop = VLoop()
    try:
        with captured_logs() as logs:
            _run_and_check(c, loop, logs, g, r, reply, add_user, cmd)
    finally:
        loop.cleanup()


def _run_and_check(c, loop, logs, g, r, reply, add_user, cmd):
    client, server, task, burst, n_init = scenario(c, loop, g, c.symbolic, reply, add_user, cmd)
    # the server answers at once, so login() is over long before the window ends
    ob(c, task.done(), 'session_iff_login_accepted', sig=[reply, 'login_did_not_return'])
    exc = task.exception() if task.done() and not task.cancelled() else None
    present = client.session is not None
    for name, msg, e in logs.records[:6]:
        c.note('log', name, msg, repr(e))
        if c.symbolic and isinstance(e, TypeError) and any(p in str(e) for p in ('SInt', 'SBool', 'SReal')):
            raise symex.HarnessError(f'proxy leaked into C code: {e!r}')
    for ctx in loop.errors[:3]:
        c.note('loop error', repr(ctx.get('exception')), ctx.get('message'))
    c.note('frames', view_of(burst).frames, 'login exception', repr(exc), 'SessionInitializedEvents', len(n_init))

    # a session exists iff the server accepted the login
    accepted = g.login_ok if reply == 'response' else False
    if feasible(c, accepted):
        c.reach('server_accepts')
    if feasible(c, Not(accepted)):
        c.reach('server_rejects_' + reply)
    ob(c, accepted if present else Not(accepted), 'session_iff_login_accepted',
       sig=[reply, 'session' if present else 'no_session'], info=repr(exc))
    if present:
        c.reach('logged_in')
        check_view(c, view_of(burst), g, r)
        _try_command(c, loop, client, server, cmd, False, 'after_login')
    else:
        _try_command(c, loop, client, server, cmd, True, 'after_failed_login')


# ------------------------------------------------------------------------------------------------
# sentences 2-4: loss of the server connection, reconnect decision, stop() finality
#
# Technique, stated plainly: the data (reconnect.auto, both login verdicts, the values of the server-sent
# parameters) is symbolic and flows through the real code; the POSITION of the fault (loop step of the
# real login burst, idle, while the watchdog sleeps, with connects pending), the KIND of fault and the
# environment outcomes are enumerated injection points on the real code running on the virtual loop.
# ------------------------------------------------------------------------------------------------

UNREQUESTED = ('UNKNOWN', 'CONNECT_FAILED', 'READ_ERROR', 'WRITE_ERROR', 'TIMEOUT')
T_SETTLE = 3.0        # after the fault: long enough for every handler, shorter than the reconnect delay
T_RECONNECT = 13.0    # watchdog: poll <= 0.5 s + reconnect.timeout 10 s + the login burst
T_AFTER_STOP = 70.0   # > PEER_INDIRECT_CONNECT_TIMEOUT (60 s) and > PEER_CONNECT_TIMEOUT: anything left would show


def fault_is_unrequested(fault):
    """the reference for sentence 3: what counts as an unrequested loss"""
    if fault.startswith('drop:'):
        return fault[5:] in UNREQUESTED
    return fault in ('reset', 'write')       # READ_ERROR / WRITE_ERROR through the real read / write path


def inject(env, fault):
    """the fault itself; returns the stop() task when the fault is stop()"""
    net, client = env.net, env.client
    net.log('FAULT', fault)
    if fault.startswith('drop:'):       # another task of the library detects the failure and closes
        env.spawn(env.conn.disconnect(CloseReason[fault[5:]]), 'fault')
    elif fault == 'eof':                # the server closes its end: seen by the next / pending read
        if net.current is not None:
            net.current.pipe.feed_eof()
    elif fault == 'reset':              # connection reset: the next / pending read raises
        if net.current is not None:
            net.current.pipe.feed_error(ConnectionResetError('injected'))
    elif fault == 'write':              # every further write on this connection fails
        if net.current is not None:
            net.current.writes_fail = True
            # make sure something is written even when the client is idle
            env.spawn(_swallow(client.network.send_server_messages(Ping.Request())), 'poke')
    elif fault == 'disconnect':         # the application asks for it
        env.spawn(client.network.disconnect_server(), 'fault')
    elif fault == 'stop':
        return env.spawn(client.stop(), 'stop')
    else:
        raise symex.HarnessError(fault)
    return None


async def _swallow(coro):
    try:
        await coro
    except Exception:  # noqa
        pass


def probe_refusal(c, env, when):
    """execute() without a session: InvalidSessionError and nothing written"""
    before = env.net.frames_written
    t = env.spawn(env.client.execute(GetUserStatusCommand('dave')), 'probe')
    env.loop.run_ready()
    ob(c, t.done() and not t.cancelled() and isinstance(t.exception(), InvalidSessionError),
       'refused_without_session', sig=[when, 'GetUserStatus', 'no_InvalidSessionError'])
    ob(c, env.net.frames_written == before, 'refused_without_session', sig=[when, 'GetUserStatus', 'sent_anyway'])
    if not t.done():
        t.cancel()


def session_holders(client):
    out = []
    for name in ('users', 'rooms', 'interests', 'shares', 'transfers', 'peers', 'searches', 'server_manager',
                 'distributed_network', 'network'):
        m = getattr(client, name, None)
        if m is not None and hasattr(m, '_session'):
            out.append((name, m))
    return out


def check_session(c, env, when, fault, phase):
    """sentence 2, first half, at a quiescent instant"""
    client, sx = env.client, [fault, phase, when]
    ini, des = env.initialized, env.destroyed
    cur = client.session
    ob(c, len({id(s) for s in des}) == len(des), 'session_destroyed_exactly_once', sig=sx + ['destroyed_twice'],
       info={'initialised': len(ini), 'destroyed': len(des)})
    ob(c, all(any(s is i for i in ini) for s in des), 'session_destroyed_exactly_once', sig=sx + ['destroyed_unknown_session'])
    gone = [s for s in ini if s is not cur]
    ob(c, all(any(s is d for d in des) for s in gone), 'session_destroyed_exactly_once', sig=sx + ['never_destroyed'],
       info={'initialised': len(ini), 'destroyed': len(des), 'session_present': cur is not None})
    ob(c, cur is None or not any(cur is d for d in des), 'session_destroyed_exactly_once', sig=sx + ['destroyed_but_kept'])
    # SoulSeekClient.session: present iff logged in on the current server connection
    ob(c, cur is None or (env.conn.state == ConnectionState.CONNECTED and len(ini) > 0 and cur is ini[-1]),
       'session_only_on_live_connection', sig=sx + [env.conn.state.name],
       info={'state': env.conn.state.name, 'initialised': len(ini), 'destroyed': len(des)})
    for name, m in session_holders(client):
        ob(c, m._session is cur, 'managers_session_cleared',
           sig=sx + [name, 'stale' if m._session is not None else 'missing'])
    if cur is None:
        c.reach('no_session_' + when)
        probe_refusal(c, env, when)


def server_state_cleared(c, env, when, fault, phase, names, rooms):
    """sentence 2, second half: users, rooms, tracking, server-sent distributed parameters"""
    client, sx = env.client, [fault, phase, when]
    ob(c, client.users.users == {}, 'users_cleared', sig=sx + ['users'], info=sorted(client.users.users))
    ob(c, client.users.privileged_users == set(), 'users_cleared', sig=sx + ['privileged_users'])
    ob(c, client.rooms.rooms == {}, 'rooms_cleared', sig=sx, info=sorted(client.rooms.rooms))
    for u in names:
        ob(c, client.users.get_tracking_state(u) == TrackingState.UNTRACKED
           and client.users.get_tracking_flags(u) == TrackingFlag(0), 'tracking_cleared', sig=sx)
    dn = client.distributed_network
    for attr in DIST_PARAMS:
        ob(c, getattr(dn, attr) is None, 'distributed_parameters_cleared', sig=sx + [attr])


def _no_pending_task(c, env, sx):
    """no task started by the library is pending; one obligation per kind of task that is left"""
    left = {}
    for t in env.library_tasks():
        left.setdefault(getattr(t.get_coro(), '__qualname__', '?'), []).append(t.get_name())
    if not left:
        ob(c, True, 'stopped_no_pending_task', sig=sx + ['none'])
    for kind in sorted(left):
        ob(c, False, 'stopped_no_pending_task', sig=sx + [kind], info=left[kind])


def check_stopped(c, env, stop_task, fault, phase, pending):
    """sentence 4"""
    loop, net, sx = env.loop, env.net, [fault, phase, pending]
    n = 0
    while not stop_task.done() and n < 40:        # fakes close at once; DISCONNECT_TIMEOUT is 5 s
        loop.advance(0.5)
        n += 1
    loop.run_ready()
    c.reach('stopped')
    ob(c, stop_task.done() and not stop_task.cancelled() and stop_task.exception() is None, 'stop_returns', sig=sx,
       info=repr(stop_task.exception()) if stop_task.done() and not stop_task.cancelled() else 'not finished')
    t_stop = loop.time()
    net.log('STOP RETURNED')
    ob(c, net.open_connections() == [], 'stopped_no_open_connection', sig=sx + ['at_return'], info=net.open_connections())
    _no_pending_task(c, env, sx + ['at_return'])
    check_session(c, env, 'after_stop', fault, phase)
    loop.advance(T_AFTER_STOP)
    later = [o for o in net.opens if o[0] > t_stop] + [('server attempt', t) for t in net.server_attempts if t > t_stop]
    ob(c, later == [], 'stopped_nothing_opened_later', sig=sx, info=repr(later))
    ob(c, net.open_connections() == [], 'stopped_no_open_connection', sig=sx + ['later'], info=net.open_connections())
    _no_pending_task(c, env, sx + ['later'])
    ob(c, env.client.session is None, 'session_only_on_live_connection', sig=sx + ['after_stop_later'])
    ob(c, len(env.initialized) == len(env.destroyed), 'session_destroyed_exactly_once', sig=sx + ['after_stop_later'],
       info={'initialised': len(env.initialized), 'destroyed': len(env.destroyed)})


def _goto_fine(c, env, tag, max_steps=400):
    """step the loop one callback at a time; before each callback a flip decides `inject here`.
    returns True when a point was chosen, False when the loop went quiet first"""
    loop, n = env.loop, 0
    while loop.has_ready():
        if bool(c.fresh_bool(f'{tag}_at_step{n}')):
            env.net.log('inject before loop step', n)
            return True
        loop.step()
        n += 1
        if n > max_steps:
            raise symex.BoundHit('fine stepping bound')
    return False


def _cleanup(loop):
    """VLoop.cleanup cancels what is left; a task that waits for a gather containing itself (a defect this
    check reports through its obligations) makes Task.cancel recurse without end"""
    try:
        loop.cleanup()
    except RecursionError:
        loop.created_tasks.clear()
        loop._ready.clear()
        loop._timers.clear()


def _lose_and_wait_for_reconnect(c, env, mode):
    """an unrequested loss, then on to the point where the fault (stop) is injected:
    'watchdog'     -> while the watchdog waits before reconnecting (0.2 s / 5 s into the 10 s)
    'reconnecting' -> at every loop step from the instant the reconnect starts to the end of the re-login"""
    loop, net = env.loop, env.net
    env.spawn(env.conn.disconnect(CloseReason.READ_ERROR), 'first-loss')
    if mode == 'watchdog':
        loop.advance([0.2, 5.0][c.choose(2, 'watchdog_wait')])
        return
    loop.run_ready()
    n0 = len(net.server_attempts)
    while len(net.server_attempts) == n0:
        if loop.has_ready():
            loop.step()
        elif loop.next_timer() is None or loop.time() > 30:
            return                      # no reconnect on this path (auto off): nothing to step through
        else:
            loop.jump()
    if not _goto_fine(c, env, 'fault'):
        c.reach('reconnect_quiet')


def h_loss(c, fault='drop:READ_ERROR', phase='burst', pending='none', server_plan='ok'):
    """start() -> [login()] -> fault at an injection point -> settle -> (reconnect?) -> stop()"""
    A = c.fresh_bool('reconnect_auto')
    ok1, ok2 = c.fresh_bool('login_accepted'), c.fresh_bool('relogin_accepted')
    plan = {'ok': lambda i: 'ok', 'refuse_once': lambda i: 'refuse' if i == 1 else 'ok'}[server_plan]
    if phase in ('watchdog', 'reconnecting') and fault != 'stop':
        raise symex.HarnessError('only stop() is injected while a reconnect is under way')
    loop = Loop()
    env = Env(c, loop, A, lambda i: ok1 if i == 0 else ok2, plan, search_timeout=30 if pending == 'search' else 0)
    client, net = env.client, env.net
    try:
        with captured_logs() as logs, net:
            st = env.spawn(client.start(), 'start')
            loop.run_ready()
            if not (st.done() and st.exception() is None and env.conn.state == ConnectionState.CONNECTED):
                raise symex.HarnessError(f'client did not start: {st}')
            injected = False
            if phase == 'pre_login':
                c.reach('fault_pre_login')
            else:
                env.spawn(client.login(), 'login')
                if phase == 'burst' and _goto_fine(c, env, 'fault'):
                    c.reach('fault_during_burst')
                    injected = True
                if not injected:
                    # the burst is over and the loop is quiet
                    loop.advance(1.0)
                    if pending == 'parents':
                        net.current.pipe.feed(PotentialParents.Response([PotentialParent('pp1', '10.1.1.1', 2234)]))
                        loop.advance(1.0)
                    elif pending == 'search' and client.session is not None:
                        env.spawn(client.searches.search('some query'), 'search')
                        loop.advance(1.0)
                    if phase in ('watchdog', 'reconnecting'):
                        _lose_and_wait_for_reconnect(c, env, phase)
                    c.reach('fault_' + ('idle' if phase == 'burst' else phase))
            stop_task = inject(env, fault)
            t_fault = loop.time()

            if stop_task is not None:
                check_stopped(c, env, stop_task, fault, phase, pending)
            else:
                # ---- right after the fault (no reconnect can have happened yet) ----------------------------
                loop.advance(T_SETTLE)
                if fault in ('eof', 'reset') and env.conn.state == ConnectionState.CONNECTED and client.session is None:
                    # nobody reads the connection after a rejected login: the server's EOF / reset goes unnoticed.
                    # Not a loss in the sense of the property; nothing to check on this path but stop()
                    c.reach('fault_unnoticed_without_reader')
                    check_stopped(c, env, env.spawn(client.stop(), 'stop'), fault + '+stop', phase, pending)
                    return
                ob(c, env.conn.state == ConnectionState.CLOSED, 'fault_closes_connection', sig=[fault, phase],
                   info=env.conn.state.name)
                check_session(c, env, 'after_loss', fault, phase)
                server_state_cleared(c, env, 'after_loss', fault, phase, ['alice', OWN], ['r1'])
                # ---- sentence 3: the reconnect decision ---------------------------------------------------------
                loop.advance(T_RECONNECT + (11.0 if server_plan == 'refuse_once' else 0.0))
                reconnected = any(t > t_fault for t in net.server_attempts)
                want = symex.And(A, fault_is_unrequested(fault))
                c.reach('reconnected' if reconnected else 'not_reconnected')
                ob(c, want if reconnected else Not(want), 'reconnect_iff_unrequested_loss_and_auto',
                   sig=[fault, phase, 'reconnected' if reconnected else 'not_reconnected'],
                   info={'attempts': net.server_attempts, 'fault_at': t_fault})
                if reconnected:
                    ob(c, env.conn.state == ConnectionState.CONNECTED, 'relogin_after_reconnect',
                       sig=[fault, phase, 'not_connected'], info=env.conn.state.name)
                    relogin = any(isinstance(m, Login.Request) for m in net.current.received)
                    ob(c, relogin, 'relogin_after_reconnect', sig=[fault, phase, 'no_login'])
                    n_logins = sum(1 for sd in net.server_sides for m in sd.received if isinstance(m, Login.Request))
                    accepted = ok1 if n_logins <= 1 else ok2          # the server's verdict on the latest login
                    present = client.session is not None
                    ob(c, accepted if present else Not(accepted), 'session_iff_login_accepted',
                       sig=['relogin', 'session' if present else 'no_session'])
                check_session(c, env, 'settled', fault, phase)
                # ---- sentence 4 --------------------------------------------------------------------------------------
                check_stopped(c, env, env.spawn(client.stop(), 'stop'), fault + '+stop', phase, pending)
            for name, msg, e in logs.records[:8]:
                c.note('log', name, msg, repr(e))
            for ev in net.events[-60:]:
                c.note(*ev)
    finally:
        _cleanup(loop)


DIST_PARAMS = ('parent_min_speed', 'parent_speed_ratio', 'min_parents_in_cache', 'parent_inactivity_timeout',
               'distributed_alive_interval')
DIST_MESSAGES = {'parent_min_speed': lambda v: ParentMinSpeed.Response(v),
                 'parent_speed_ratio': lambda v: ParentSpeedRatio.Response(v),
                 'min_parents_in_cache': lambda v: MinParentsInCache.Response(v),
                 'parent_inactivity_timeout': lambda v: ParentInactivityTimeout.Response(v),
                 'distributed_alive_interval': lambda v: DistributedAliveInterval.Response(v)}


def h_reset(c, fault='drop:READ_ERROR'):
    """one step from a server-derived state built from symbolic pieces through the real handlers:
    after the loss everything the statement lists is cleared, whatever the values were"""
    ok1 = c.fresh_bool('login_accepted')
    loop = Loop()
    env = Env(c, loop, False, lambda i: ok1)
    client, net = env.client, env.net
    try:
        with captured_logs() as logs, net:
            env.spawn(client.start(), 'start')
            loop.run_ready()
            env.spawn(client.login(), 'login')
            loop.advance(1.0)
            pipe = net.current.pipe
            # server-sent distributed parameters: each one received or not, any uint32 value
            for attr in DIST_PARAMS:
                if c.fresh_bool(f'has_{attr}'):
                    pipe.feed(DIST_MESSAGES[attr](c.fresh_int(attr, 0, 2 ** 32 - 1)))
            # users known from rooms / privileges, rooms known from the room list / joins
            held = []
            if c.fresh_bool('has_privileged_users'):
                pipe.feed(PrivilegedUsers.Response(['bob', 'erin']))
            if c.fresh_bool('has_room_users'):
                pipe.feed(UserJoinedRoom.Response('r1', 'bob', 2, UserStats(1, 2, 3, 4), 1, 'BE'))
                pipe.feed(UserJoinedRoom.Response('r2', 'carol', 1, UserStats(1, 2, 3, 4), 0, 'NL'))
            if c.fresh_bool('has_room_list'):
                pipe.feed(RoomList.Response(rooms=['r1', 'r3'], rooms_user_count=[1, 2], rooms_private_owned=[],
                                            rooms_private_owned_user_count=[], rooms_private=[], rooms_private_user_count=[],
                                            rooms_private_operated=[]))
            loop.advance(0.5)
            # tracking requested by the application (kept alive by a reference, like a GUI would)
            if c.fresh_bool('has_tracked_user'):
                env.spawn(client.users.track_user('dave', TrackingFlag.REQUESTED), 'track')
                loop.advance(0.5)
            held.extend(client.users.users.values())
            held.extend(client.rooms.rooms.values())
            had_session = client.session is not None
            c.reach('with_session' if had_session else 'without_session')
            stop_task = inject(env, fault)
            if stop_task is not None:
                raise symex.HarnessError('h_reset is about losses, not stop()')
            loop.advance(T_SETTLE)
            if fault in ('eof', 'reset') and env.conn.state == ConnectionState.CONNECTED and client.session is None:
                c.reach('fault_unnoticed_without_reader')     # see h_loss
                return
            ob(c, env.conn.state == ConnectionState.CLOSED, 'fault_closes_connection', sig=[fault, 'reset'],
               info=env.conn.state.name)
            c.reach('lost')
            check_session(c, env, 'after_loss', fault, 'reset')
            ob(c, len(env.destroyed) == (1 if had_session else 0), 'session_destroyed_exactly_once',
               sig=[fault, 'reset', 'count'], info={'destroyed': len(env.destroyed), 'had_session': had_session})
            server_state_cleared(c, env, 'after_loss', fault, 'reset', ['alice', 'dave', 'bob', OWN], ['r1', 'r2', 'r3'])
            del held
            for name, msg, e in logs.records[:8]:
                c.note('log', name, msg, repr(e))
    finally:
        _cleanup(loop)


# ------------------------------------------------------------------------------------------------
# sentence 1 holds for EVERY login: the server view of the session after a reconnect
# ------------------------------------------------------------------------------------------------

class _TagCtx:
    """the obligations of check_view with one more element in every sig (which session of the run)"""

    def __init__(self, c, tag):
        self._c, self._tag = c, tag

    def __getattr__(self, name):
        return getattr(self._c, name)

    def check(self, cond, label, sig=None, info=None):
        return self._c.check(cond, label, sig=list(sig or []) + [self._tag], info=info)


def apply_cfg(client, g, stats_holder):
    """the application changes its settings while the client is disconnected"""
    s = client.settings
    s.users.friends = set(g.friends)
    s.rooms.favorites = set(g.favorites)
    s.interests.liked = set(g.liked)
    s.interests.hated = set(g.hated)
    _put(s.rooms, 'auto_join', g.auto_join)
    _put(s.rooms, 'private_room_invites', g.invites)
    _put(s.debug, 'search_for_parent', g.search_for_parent)
    stats_holder[0] = g.stats


def session_burst(side):
    first = next((i for i, m in enumerate(side.received) if isinstance(m, Login.Request)), len(side.received))
    return list(side.received[first:])


def h_relogin(c, sym=(), n=1, ports='both', obf_bind='ok', shares='counts', change='unchanged', via='watchdog',
              loss='drop:READ_ERROR'):
    """login -> the server view of session 1 -> unrequested loss -> [settings changed] -> reconnect (watchdog or by
    hand) -> login -> the server view of session 2 (a fresh simulated server session: what THAT session was told)"""
    sym = list(sym)
    lst = ['CONNECTED']
    g1 = build_cfg(c, sym, n, ports, lst, 'none', shares)
    if obf_bind == 'fails' and ports in ('obf', 'both'):
        g1.lstate[1] = 'CLOSED'                  # the bind of the obfuscated port fails: real CONNECT_FAILED path
    g1.login_ok = True
    if change == 'changed':
        g2 = build_cfg(c, sym, n, ports, lst, 'none', shares)    # fresh symbolic values for the second login
        # the listening connections are created once: port numbers and their state stay what they were
        g2.port, g2.obf_port, g2.lstate = g1.port, g1.obf_port, g1.lstate
    else:
        g2 = g1
    ok2 = c.fresh_bool('relogin_accepted')
    loop = Loop()
    settings = build_settings(g1)
    if ports in ('obf', 'none'):
        # the default error_mode (clear) refuses to start without a connected clear port
        settings.network.listening.error_mode = ListeningConnectionErrorMode.ANY
    env = Env(c, loop, via == 'watchdog', lambda i: True if i == 0 else ok2, settings=settings)
    client, net = env.client, env.net
    net.obfuscated_bind_fails = g1.lstate[1] == 'CLOSED'
    try:
        with captured_logs() as logs, net:
            holder = [g1.stats]
            if g1.stats is not None:
                client.shares.get_stats = lambda: holder[0]     # stub: counts as data (shares='counts')
            st = env.spawn(client.start(), 'start')
            loop.run_ready()
            if not (st.done() and st.exception() is None and env.conn.state == ConnectionState.CONNECTED):
                raise symex.HarnessError(f'client did not start: {st}')
            # start() has loaded the shared directories from the settings; fill them as a finished scan would
            if len(client.shares.shared_directories) != len(g1.dir_shapes):
                raise symex.HarnessError('shared directories not loaded')
            for sd, shape in zip(client.shares.shared_directories, g1.dir_shapes):
                for sub, fn in shape:
                    sd.items.add(SharedItem(sd, sub, fn, 1.0))
            for conn, want in zip(client.network.listening_connections, g1.lstate):
                if conn is not None and conn.state.name != want:
                    raise symex.HarnessError(f'listening connection is {conn.state.name}, scenario wants {want}')
            env.spawn(client.login(), 'login')
            loop.advance(2.0)
            if client.session is None:
                raise symex.HarnessError('first login failed')
            c.reach('first_session')
            check_view(_TagCtx(c, 'first_session'), view_of(session_burst(net.server_sides[0])), g1, reference(g1))

            inject(env, loss)
            loop.advance(T_SETTLE)
            ob(c, env.conn.state == ConnectionState.CLOSED and client.session is None, 'fault_closes_connection',
               sig=[loss, 'relogin'], info=env.conn.state.name)
            if change == 'changed':
                apply_cfg(client, g2, holder)
            if via == 'watchdog':
                loop.advance(T_RECONNECT)
            else:
                t = env.spawn(client.network.connect_server(), 'connect')
                loop.run_ready()
                if not (t.done() and t.exception() is None):
                    raise symex.HarnessError('manual reconnect failed')
                env.spawn(client.login(), 'login2')
                loop.advance(2.0)
            ob(c, len(net.server_sides) == 2 and env.conn.state == ConnectionState.CONNECTED, 'relogin_after_reconnect',
               sig=[loss, via, 'not_connected'], info=env.conn.state.name)
            if len(net.server_sides) == 2:
                side = net.server_sides[1]
                ob(c, any(isinstance(m, Login.Request) for m in side.received), 'relogin_after_reconnect',
                   sig=[loss, via, 'no_login'])
                present = client.session is not None
                ob(c, ok2 if present else Not(ok2), 'session_iff_login_accepted',
                   sig=['relogin', 'session' if present else 'no_session'])
                if present:
                    c.reach('second_session')
                    check_view(_TagCtx(c, 'second_session'), view_of(session_burst(side)), g2, reference(g2))
            for name, msg, e in logs.records[:8]:
                c.note('log', name, msg, repr(e))
                if c.symbolic and isinstance(e, TypeError) and any(p in str(e) for p in ('SInt', 'SBool', 'SReal')):
                    raise symex.HarnessError(f'proxy leaked into C code: {e!r}')
            for i, side in enumerate(net.server_sides):
                c.note('frames of session', i + 1, view_of(session_burst(side)).frames)
    finally:
        _cleanup(loop)


# ------------------------------------------------------------------------------------------------
# prelude: the symbolic-mode codec bypass must show the server the same thing as the real codec
# ------------------------------------------------------------------------------------------------

def _concrete_ctx(model=None):
    return symex.Ctx(None, [], False, model=model or {})


def _snapshot(v):
    return {'listen': v.listen, 'status': v.status, 'shares': v.shares, 'watched': sorted(v.watched),
            'liked': sorted(v.liked), 'hated': sorted(v.hated), 'invites': v.invites, 'rooms': sorted(v.rooms),
            'level': v.level, 'root': v.root, 'search': v.search, 'frames': dict(sorted(v.frames.items()))}


def prelude(tier):
    """stub validation: for concrete settings the frames seen through the bypassed codec (symbolic-mode
    stubs, stubbed=True) and through the real codec / real reader (stubbed=False) give the same server view"""
    notes = []
    cases = [
        dict(model={'login_accepted': True}, ports='both', parent='none', shares='shapes'),
        dict(model={'listen_port': 2234, 'listen_obfuscated_port': 2235, 'listen_state_obfuscated': 1, 'auto_join': True,
                    'private_room_invites': False, 'favorite_r1': True, 'favorite_r2': True, 'friend_alice': True,
                    'friend_me': True, 'liked_jazz': True, 'hated_jazz': True, 'hated_rock': True,
                    'search_for_parent': True, 'parent_branch_level': 7, 'login_accepted': True,
                    'n_shared_directories': 2, 'dir0_shape': 3, 'dir1_shape': 4},
             ports='both', parent='other_root', shares='shapes'),
        dict(model={'listen_obfuscated_port': 999, 'auto_join': False, 'favorite_r3': True, 'login_accepted': True,
                    'shared_folder_count': 12, 'shared_file_count': 3456, 'search_for_parent': False},
             ports='obf', parent='own_root', shares='counts'),
        dict(model={'login_accepted': False}, ports='clear', parent='none', shares='none'),
    ]
    for case in cases:
        snaps = []
        for stubbed in (True, False):
            c = _concrete_ctx(case['model'])
            g = build_cfg(c, list(GROUPS), 3, case['ports'], ['CONNECTED', 'CLOSED'], case['parent'], case['shares'])
            loop = VLoop()
            try:
                with captured_logs() as logs:
                    client, server, task, burst, n_init = scenario(c, loop, g, stubbed)
                    snaps.append((_snapshot(view_of(burst)), client.session is not None, len(n_init),
                                  [type(e).__name__ for _, _, e in logs.records]))
            finally:
                loop.cleanup()
        if snaps[0] != snaps[1]:
            raise symex.HarnessError(f'codec bypass and real codec disagree:\n stubbed={snaps[0]}\n real   ={snaps[1]}')
        notes.append(f"codec bypass == real codec for {case['ports']}/{case['parent']}/{case['shares']}: "
                     f"{sum(snaps[0][0]['frames'].values())} frames, session={snaps[0][1]}")
    # life-cycle environment: same trace of connects / state changes / session events / closes with the frame
    # bypass (exploration) and with real bytes through a real StreamReader (replay)
    for fault in ('drop:READ_ERROR', 'eof', 'write', 'stop'):
        traces = []
        for stubbed in (True, False):
            c = _concrete_ctx({})
            loop = Loop()
            env = Env(c, loop, True, lambda i: True, stubbed=stubbed)
            try:
                with captured_logs(), env.net:
                    env.spawn(env.client.start(), 'start')
                    loop.run_ready()
                    env.spawn(env.client.login(), 'login')
                    loop.advance(1.0)
                    st = inject(env, fault)
                    loop.advance(15.0)
                    st = st or env.spawn(env.client.stop(), 'stop')
                    loop.advance(5.0)
                    traces.append((env.net.events, len(env.initialized), len(env.destroyed), st.done(),
                                   [[type(m).__qualname__ for m in sd.received] for sd in env.net.server_sides]))
            finally:
                _cleanup(loop)
        if traces[0] != traces[1]:
            raise symex.HarnessError(f'life-cycle environment: frame bypass and real codec disagree for {fault}:\n'
                                     f' stubbed={traces[0]}\n real   ={traces[1]}')
        notes.append(f'life-cycle trace identical with frame bypass and real codec for {fault}: {len(traces[0][0])} events')
    return notes


# ------------------------------------------------------------------------------------------------

META = {
    'level': 'other',
    'technique': 'symbolic execution of the real login path and of every real SessionInitialized handler on z3 Int/Bool '
                 'proxies stored in the real Settings / Login.Response / distributed parent; the frames the simulated '
                 'server received are folded into a server view and compared, per path, by z3 with a reference computed '
                 'from the settings. Sentences 2-4: the real start()/login()/disconnect()/watchdog/stop() code runs on the '
                 'virtual loop over a simulated TCP layer with symbolic reconnect.auto / login verdicts / server-sent values; '
                 'fault kind and fault position are ENUMERATED injection points (every loop step of the real login burst, '
                 'pre-login, idle, while the watchdog waits, every loop step of the reconnect)',
    'explanation': 'Sentence 1 (h_login): a real SoulSeekClient (all real managers, real EventBus, real '
                   'pydantic Settings) is constructed per path on a deterministic virtual loop; the real SoulSeekClient.login() '
                   'runs against a simulated server placed behind the real ServerConnection.send_message / '
                   'receive_message_object / reader loop, so Network, UserManager (+ the real tracking tasks), RoomManager, '
                   'InterestManager, SharesManager, DistributedNetwork, TransferManager and SearchManager handle the real '
                   'SessionInitializedEvent. Listening port numbers, share counts, the surviving parent\'s branch level, '
                   'auto_join, private_room_invites, search_for_parent and the server\'s login verdict are z3 values that flow '
                   'through the real code into the fields of the frames; z3 decides on every path that the server\'s view '
                   '(last SetListenPort / SetStatus / SharedFoldersFiles / TogglePrivateRoomInvites / Branch* values, AddUser '
                   'minus RemoveUser, Add(Hated)Interest minus Remove, JoinRoom minus LeaveRoom) equals the reference, that a '
                   'session exists iff the login was accepted, and that execute() raises InvalidSessionError and sends nothing '
                   'exactly when there is no session. Membership of the candidate friends / interests / favourites is an '
                   'SBool materialised per path into the real settings sets (a finite shape). '
                   'Sentence 1 for EVERY login (h_relogin, same environment as sentences 2-4): real start(), login, the server '
                   'view of session 1, an unrequested loss (disconnect(READ_ERROR / TIMEOUT) / reset / failing write), settings '
                   'unchanged or replaced by FRESH symbolic values while disconnected, reconnect by the watchdog or by hand, '
                   'second login (verdict symbolic): the complete server-view oracle is applied to what the NEW simulated server '
                   'session was told (sig element first_session / second_session). '
                   'Sentences 2-4 (h_loss, h_reset; environment engine/c16life.py): the real client.start() (load_data, start of '
                   'all services, Network.initialize with real ListeningConnection.connect / ServerConnection.connect), login(), '
                   'DataConnection.disconnect / _read / _send error paths, Network.on_state_changed and the watchdog, every '
                   'ConnectionStateChanged / SessionDestroyed listener and client.stop() run on the virtual loop; only '
                   'asyncio.open_connection / start_server are replaced. reconnect.auto and both login verdicts are symbolic Bools '
                   'the real code branches on (z3 decides `reconnect attempt <=> auto and unrequested loss` and `session <=> '
                   'verdict of the latest login` per path); in h_reset the server-sent distributed parameters are symbolic '
                   'uint32 delivered through the real handlers. What is NOT symbolic, and cannot be with this technique: the '
                   'position of the fault (a flip before every loop step of the real login burst / of the reconnect, plus '
                   'pre-login, idle, 0.2 s / 5 s into the watchdog wait), the kind of fault (disconnect(reason) for each of the 7 '
                   'CloseReasons from another task, EOF / reset through the real read path, failing writes through the real '
                   'write path, Network.disconnect_server(), client.stop()), the pending work (potential-parent connects, a '
                   'search with a timeout) and the outcome of reconnect attempts: these are enumerated. The obligations about '
                   'events, cleared state, open connections and pending tasks are therefore decided on concrete observations '
                   'per enumerated point; only the reconnect / re-login / session clauses are solver-decided over data.',
    'functions': [SoulSeekClient.login, SoulSeekClient.execute, EventBus.emit, Network._on_session_initialized,
                  Network.advertise_listening_ports, Network.get_listening_ports, Network.create_listening_connections,
                  Network.send_server_messages, DataConnection.send_message, DataConnection.receive_message_object,
                  DataConnection._message_reader_loop, Network.on_message_received,
                  UserManager._on_session_initialized, UserManager.track_friends, UserManager.track_user,
                  UserTrackingManager.track_user, UserTrackingManager._tracking_task, UserTrackingManager._request_tracking,
                  RoomManager._on_session_initialized, RoomManager.auto_join_rooms,
                  InterestManager._on_session_initialized, InterestManager.advertise_interests,
                  SharesManager._on_session_initialized, SharesManager.report_shares, SharesManager.get_stats,
                  SharesManager.load_from_settings,
                  DistributedNetwork._on_session_initialized, DistributedNetwork._notify_server_of_parent,
                  DistributedNetwork._get_advertised_branch_values,
                  TransferManager._on_session_initialized, SearchManager._on_session_initialized,
                  GetUserStatusCommand.send, JoinRoomCommand.send, PrivateMessageCommand.send,
                  # sentences 2-4
                  SoulSeekClient.start, SoulSeekClient.stop, SoulSeekClient.connect, SoulSeekClient._on_connection_state_changed,
                  SoulSeekClient._on_server_reconnected, Network.initialize, Network.connect_listening_ports,
                  Network.connect_server, Network.disconnect, Network.disconnect_server, Network._cancel_all_tasks,
                  Network.on_state_changed, Network._on_server_connection_state_changed,
                  Network._server_connection_watchdog_job, Network.create_peer_connection, Network._create_peer_connection_race,
                  DataConnection.connect, DataConnection.disconnect, DataConnection._read, DataConnection._send,
                  DataConnection.receive_message, ListeningConnection.connect, ListeningConnection.disconnect,
                  BackgroundTask.start, BackgroundTask.cancel, BackgroundTask.runner,
                  UserManager._on_state_changed, UserManager._on_session_destroyed, UserManager.reset_users, UserManager.stop,
                  UserTrackingManager._on_state_changed, UserTrackingManager.stop, RoomManager._on_state_changed,
                  RoomManager.reset_rooms, DistributedNetwork._on_state_changed, DistributedNetwork._reset_server_values,
                  DistributedNetwork._on_session_destroyed, DistributedNetwork._on_potential_parents, DistributedNetwork.stop,
                  SharesManager._on_session_destroyed, SearchManager._on_session_destroyed, SearchManager._on_state_changed,
                  SearchManager.stop, SearchManager.search, ServerManager._on_state_changed, TransferManager.stop],
    'stubs': ['asyncio event loop -> engine.vloop.VLoop (virtual time); no sockets are opened: ServerConnection.state and '
              'ListeningConnection.state are assigned directly (CONNECTED / CLOSED / ...)',
              'symbolic exploration only: on the ServerConnection *instance* encode_message_data / decode_message_data / _send / '
              'receive_message are replaced so that a frame is the message object itself (proxy fields survive); the real '
              'send_message, receive_message_object and _message_reader_loop still run. Concrete replay uses the real codec, a '
              'fake StreamWriter and a real asyncio.StreamReader; prelude() checks both give the same server view',
              'simulated server: answers Login.Request with the configured reply and AddUser.Request with an AddUser.Response '
              '(exists / not exists / silence per job)',
              'z3 proxies are written into the pydantic settings models through __dict__ (assignment validation bypassed) while '
              'exploring; concrete replay assigns plain values through the validating setters',
              "jobs with shares='counts': SharesManager.get_stats on the instance -> (symbolic folder count, symbolic file count); "
              "jobs with shares='shapes'/'none' run the real get_stats over real SharedDirectory/SharedItem objects",
              'logging: the aioslsk logger is captured (EventBus.emit swallows listener exceptions into it); records are attached '
              'to replays as notes',
              'sentences 2-4: `asyncio` in the module globals of aioslsk.network.connection -> shim whose open_connection / '
              'start_server are the simulated TCP layer engine.c16life.SimNet (everything else is the real asyncio). The server '
              'end answers Login / AddUser; writer.close() feeds EOF to the reader one loop iteration later like a real '
              'transport; connects to peers are established after 5 s unless cancelled; faults: feed_eof, set_exception, '
              'write() raising ConnectionResetError',
              'sentences 2-4, symbolic exploration only: encode_message_data / decode_message_data / _read_message replaced on the '
              'ServerConnection instance (frame = message object); the real _send, _read, receive_message, reader loop run. '
              'Replay: real codec over a real asyncio.StreamReader; prelude() requires identical event traces for both',
              'sentences 2-4: settings network.upnp.enabled=False (the UPnP job would use real sockets), shares.scan_on_start=False'],
    'data_variables': ['listen_port, listen_obfuscated_port (Int 1..65535 when configured)',
                       'shared_folder_count, shared_file_count (Int 0..2^32-1)',
                       'parent_branch_level (Int 0..2^32-2)',
                       'auto_join, private_room_invites, search_for_parent (Bool, stored un-materialised in the real Settings)',
                       'login_accepted (Bool, the success field of the Login.Response)',
                       'reconnect_auto (Bool, network.server.reconnect.auto; must not influence the burst)',
                       'membership of each candidate friend (alice, bob, carol, own name) / liked and hated interest (jazz, rock, '
                       'pop) / favourite room (r1..r3): Bool, materialised per path into the real settings sets',
                       'sentences 2-4: reconnect_auto (Bool, un-materialised in the real Settings: the real code forks on it), '
                       'login_accepted and relogin_accepted (Bool, success of the first / every later Login.Response)',
                       'h_reset: parent_min_speed, parent_speed_ratio, min_parents_in_cache, parent_inactivity_timeout, '
                       'distributed_alive_interval (Int 0..2^32-1, delivered through the real handlers; presence of each, of '
                       'privileged users, room users, room list, an application-tracked user: Bool materialised per path)'],
    'discriminants': ['which listening ports are configured (none / clear / obfuscated / both)',
                      'state of each listening connection (CONNECTED, CLOSED; thorough also UNINITIALIZED, CONNECTING, CLOSING)',
                      'distributed parent at login time (none / parent with foreign branch root / parent whose root is ourselves)',
                      'kind of login reply (Login.Response / another message / undecodable frame)',
                      'server behaviour on AddUser (exists / does not exist / silent)',
                      '0..2 shared directories x 5 content shapes (0..3 files in 0..2 sub directories)',
                      'command used to probe the session gate (GetUserStatus / JoinRoom / PrivateMessage)',
                      'h_relogin: settings unchanged / changed between the logins; reconnect by watchdog / by hand; kind of '
                      'unrequested loss (4); obfuscated port bind ok / fails (real CONNECT_FAILED path); which ports are configured',
                      'sentences 2-4 - ALL of these are enumerated injection points, not solver variables: kind of fault '
                      '(disconnect(reason) x 7 close reasons, eof, reset, failing write, disconnect_server(), stop()); position of '
                      'the fault (pre_login; before each of the ~56 loop steps of the real login burst; idle 1 s later; 0.2 s / 5 s '
                      'into the watchdog wait after an unrequested loss; before each loop step of the reconnect + re-login); '
                      'pending work (none / a potential-parent connect in flight / a search with a 30 s timeout); outcome of the '
                      'first reconnect attempt (ok / refused once)'],
    'bounds': {'quick': {'candidate_names_per_set': '3 in the per-manager jobs, 1 (+ own name) in the all-symbolic jobs',
                         'window_after_login_s': 2.0, 'shared_directories': '0..2',
                         'relogin': 'two sessions per run; per-group jobs with 1-2 candidate names x unchanged/changed x '
                                    'watchdog/manual, all groups symbolic with 1 candidate (unchanged), directory shapes',
                         'life_cycle': 'fault at every loop step of the burst for 6 fault kinds + stop(); all 7 close reasons '
                                       'pre-login and idle; stop() pre-login / burst / idle (3 kinds of pending work) / watchdog '
                                       'wait / every step of the reconnect; observation: 3 s after the fault, 13 s for the '
                                       'reconnect (+11 s when the first attempt is refused), 70 s after stop() returned'},
               'thorough': {'candidate_names_per_set': '3 in the per-manager jobs, 2 (+ own name) in the all-symbolic jobs',
                            'window_after_login_s': 2.0, 'shared_directories': '0..2', 'listening_states': 5,
                            'life_cycle': 'as quick, with every loop step of the burst for all 11 fault kinds, pending work '
                                          'for every close reason, 11 fault kinds in h_reset'}},
    'outside': ['how the listening / server connections reach their state in sentence 1 (sockets, bind errors, error_mode): C10',
                'frames of other kinds (CheckPrivileges, Ping, ...) and the relative order of frames, except where the fold is '
                'order sensitive (last value wins, add before remove)',
                'retries of AddUser after the 2 s observation window (10 s / 600 s timers), settings changed during the burst',
                'more candidate names than the bound; string contents of names (names are concrete strings)',
                'h_relogin: more than two sessions per client; listening ports changed at run time (the connections are '
                'created once); a distributed parent surviving the loss (h_login covers the parent cases for one login)',
                'sentences 2-4: more than one fault per run (except unrequested loss + stop()); faults while transfers are in '
                'progress (C03-C06 own the transfer tasks); peer connections other than potential-parent connects; UPnP; '
                'the wishlist job; real sockets (partial writes, half-open connections, wait_closed that blocks); schedules '
                'other than the FIFO order of the virtual loop (the fault position is enumerated, the order of ready '
                'callbacks is not); settings changed at run time; anything later than 70 s after stop()'],
    'assumptions': ['asyncio Task/Future semantics of CPython 3.12', 'the optional tail of SetListenPort may be omitted, which '
                    'the server reads as amount 0 / port 0', 'the library watching its own user name is neither required nor forbidden'],
}


def _job(requires, **params):
    return {'harness': 'login', 'fn': h_login, 'params': params, 'requires': requires}


def jobs(tier):
    q = tier == 'quick'
    out = []
    ok = ['server_accepts', 'logged_in', 'accepted_with_session', 'refused_before_login']
    five = ['CONNECTED', 'CLOSED', 'UNINITIALIZED', 'CONNECTING', 'CLOSING']
    # -- one job family per manager: its variables symbolic, 3 candidate names, the rest at fixed values
    for p in ('none', 'clear', 'obf', 'both'):
        out.append(_job(ok + ['server_rejects_response'], sym=['ports', 'login'], ports=p,
                        lstates=['CONNECTED', 'CLOSED'] if q else five))
    out.append(_job(ok + ['favourite_joined', 'room_not_joined'], sym=['rooms'], n=3))
    for au in ('exists', 'not_exists', 'silent'):
        out.append(_job(ok, sym=['users'], n=3, add_user=au))
    out.append(_job(ok, sym=['interests'], n=3))
    out.append(_job(ok, sym=['shares'], shares='counts'))
    out.append(_job(ok, sym=['shares'], shares='shapes'))
    for par in ('none', 'other_root', 'own_root'):
        out.append(_job(ok, sym=['distributed'], parent=par))
    # -- the session gate: every reply kind x every probing command
    for cmd in range(len(COMMANDS)):
        out.append(_job(ok + ['server_rejects_response'], sym=['login'], cmd=cmd))
        for rep in ('other_message', 'undecodable'):
            out.append(_job(['server_rejects_' + rep, 'refused_before_login'], sym=['login'], reply=rep, cmd=cmd))
    # -- everything symbolic at once (interaction between the handlers), partitioned over the discriminants
    allg = list(GROUPS)
    for p in ('none', 'clear', 'obf', 'both'):
        for par in (('none', 'other_root') if q else ('none', 'other_root', 'own_root')):
            for au in (['exists'] if q or par != 'none' else ['exists', 'silent']):
                out.append(_job(ok, sym=allg, n=1 if q else 2, ports=p, parent=par, shares='counts', add_user=au,
                                cmd=(len(out) % len(COMMANDS))))
    if not q:
        # real get_stats over every directory shape together with the other symbolic groups (1 candidate name)
        for p in ('none', 'both'):
            out.append(_job(ok, sym=allg, n=1, ports=p, shares='shapes'))
    return out + life_jobs(tier) + relogin_jobs(tier)


ALL_REASONS = ['UNKNOWN', 'CONNECT_FAILED', 'REQUESTED', 'READ_ERROR', 'WRITE_ERROR', 'TIMEOUT', 'EOF']


def _ljob(fn, name, requires, **params):
    return {'harness': name, 'fn': fn, 'params': params, 'requires': requires}


def relogin_jobs(tier):
    """sentence 1 for the session after a reconnect (and for the first one, in the live environment)"""
    q = tier == 'quick'
    out = []
    req = ['first_session', 'second_session']
    for via in ('watchdog', 'manual'):
        for change in ('unchanged', 'changed'):
            for grp, n in (('shares', 1), ('rooms', 2), ('users', 2), ('interests', 1 if q and change == 'changed' else 2),
                           ('distributed', 1), ('ports', 1)):
                if grp == 'ports' and change == 'changed':
                    continue        # the listening connections are created once per client
                out.append(_ljob(h_relogin, 'relogin', req, sym=[grp], n=n, change=change, via=via))
        # everything symbolic at once, settings unchanged; with and without a failed bind of the obfuscated port
        for p, bind in (('both', 'ok'), ('both', 'fails'), ('clear', 'ok')) if q else \
                (('both', 'ok'), ('both', 'fails'), ('clear', 'ok'), ('obf', 'ok'), ('none', 'ok')):
            out.append(_ljob(h_relogin, 'relogin', req, sym=list(GROUPS), n=1, ports=p, obf_bind=bind, via=via))
    # real get_stats over every directory shape, other kinds of unrequested loss
    out.append(_ljob(h_relogin, 'relogin', req, sym=['shares'], shares='shapes'))
    for loss in ('reset', 'write', 'drop:TIMEOUT'):
        out.append(_ljob(h_relogin, 'relogin', req, sym=['shares', 'rooms'], n=1, loss=loss))
    if not q:
        out.append(_ljob(h_relogin, 'relogin', req, sym=['shares', 'rooms', 'distributed'], n=2, change='changed'))
        out.append(_ljob(h_relogin, 'relogin', req, sym=['users', 'interests'], n=1, change='changed', via='manual'))
    return out


def life_jobs(tier):
    """sentences 2-4.  Injection points are enumerated: see the comment above h_loss"""
    q = tier == 'quick'
    out = []
    lost = ['no_session_after_loss', 'stopped']
    # (a)+(c)+(d) fault at EVERY loop step of the real login burst, then idle
    fine = ['drop:READ_ERROR', 'drop:REQUESTED', 'drop:EOF', 'write', 'eof', 'disconnect'] if q else \
        ['drop:' + r for r in ALL_REASONS] + ['write', 'eof', 'reset', 'disconnect']
    for f in fine:
        out.append(_ljob(h_loss, 'loss', lost + ['fault_during_burst', 'fault_idle'], fault=f, phase='burst'))
    out.append(_ljob(h_loss, 'loss', ['stopped', 'fault_during_burst', 'fault_idle'], fault='stop', phase='burst'))
    # every close reason before the login and while idle (with and without work pending)
    for r in ALL_REASONS:
        out.append(_ljob(h_loss, 'loss', lost + ['fault_pre_login'], fault='drop:' + r, phase='pre_login'))
        for pend in (['none'] if q else ['none', 'parents', 'search']):
            out.append(_ljob(h_loss, 'loss', lost + ['fault_idle'], fault='drop:' + r, phase='idle', pending=pend))
    for f in ('reset', 'eof', 'write', 'disconnect'):
        out.append(_ljob(h_loss, 'loss', ['stopped', 'fault_idle'], fault=f, phase='idle'))
        out.append(_ljob(h_loss, 'loss', ['stopped', 'fault_pre_login'], fault=f, phase='pre_login'))
    # the first reconnect attempt is refused
    for f in ('drop:READ_ERROR', 'drop:EOF'):
        out.append(_ljob(h_loss, 'loss', lost, fault=f, phase='idle', server_plan='refuse_once'))
    # (d) stop() at every kind of point
    out.append(_ljob(h_loss, 'loss', ['stopped', 'fault_pre_login'], fault='stop', phase='pre_login'))
    for pend in ('none', 'parents', 'search'):
        out.append(_ljob(h_loss, 'loss', ['stopped', 'fault_idle'], fault='stop', phase='idle', pending=pend))
    out.append(_ljob(h_loss, 'loss', ['stopped', 'fault_watchdog'], fault='stop', phase='watchdog'))
    out.append(_ljob(h_loss, 'loss', ['stopped', 'fault_reconnecting'], fault='stop', phase='reconnecting'))
    if not q:
        out.append(_ljob(h_loss, 'loss', ['stopped', 'fault_watchdog'], fault='stop', phase='watchdog', pending='parents'))
        out.append(_ljob(h_loss, 'loss', ['stopped'], fault='stop', phase='reconnecting', server_plan='refuse_once'))
    # (b) one step from a server-derived state with symbolic values
    for f in (['drop:READ_ERROR', 'drop:REQUESTED', 'eof'] if q else ['drop:' + r for r in ALL_REASONS] + ['eof', 'reset', 'write', 'disconnect']):
        out.append(_ljob(h_reset, 'reset', ['lost', 'with_session', 'without_session'], fault=f))
    return out
