"""C08: files are only offered and uploaded to users entitled to them.

Harnesses: search, shares, request, cycle (one step from any state), change (sequences through the public API), overlap
(a second change injected at every suspension point of the running TransferManager._management_job).

The real SharesManager (is_directory_locked / is_item_locked / query / create_shares_reply /
get_shared_item[_cache] / add_ / update_ / remove_shared_directory / scan_directory_files), the real
TransferManager (_on_peer_transfer_queue / _on_peer_transfer_request / _add_upload /
_evaluate_aborted_state / manage_shares_changed / _management_job / manage_transfers /
_initialize_upload up to its first network wait), the real SearchManager (_query_shares_and_reply
through its four carrier handlers), the real PeerManager._on_peer_shares_request, the real
UserManager._management_job (change detection) and UsersSettings.is_blocked run on the virtual loop
against a small real directory tree.  The entitlement inputs are solver variables:

* `friend(u)`, `listed(d, u)`      one z3 Bool per user (and directory) held in a membership proxy
                                    that is installed as `settings.users.friends` / `SharedDirectory.users`
* `flags(u)`                        8-bit vector stored in the real `settings.users.blocked` dict
* excluded phrases                  engine.sstr.SStr, 1..3 symbolic characters each, over an alphabet with both letter cases;
                                    lower/strip/split/regex on them stay symbolic (`re` stand-in, PStr paths, SymKeyDict term map)

and every obligation is a z3 query against the pinned reference
    entitled(u, d) = EVERYONE or (FRIENDS and friend(u)) or (USERS and listed(d, u))
    permitted(u, f) = f shared and entitled(u, dir(f)) and not flags(u) & UPLOADS
Share modes, directory shapes, requested path variant, message kind, upload state and the kind of
configuration change are enumerated discriminants."""
from __future__ import annotations

import asyncio
import logging
import os

import z3

from engine import symex
from engine.symex import And, Or, Not, SBool
from engine.vloop import VLoop
from engine import sstr, reshim
from engine.c08sym import SFlag, SymMembers, PStr, SymKeyDict, flag_has, phrase_ci_in

import aioslsk.shares.model as shares_model
import aioslsk.shares.manager as shares_manager_mod
import aioslsk.shares.utils as shares_utils_mod
import aioslsk.search.model as search_model_mod
from aioslsk.events import EventBus, MessageReceivedEvent
from aioslsk.peer import PeerManager
from aioslsk.protocol.messages import (
    DistributedSearchRequest, DistributedServerSearchRequest, ExcludedSearchPhrases, FileSearch,
    PeerSearchReply, PeerSharesReply, PeerSharesRequest, PeerTransferQueue, PeerTransferQueueFailed,
    PeerTransferReply, PeerTransferRequest, ServerSearchRequest,
)
from aioslsk.search.manager import SearchManager
from aioslsk.session import Session
from aioslsk.settings import Settings, UsersSettings
from aioslsk.shares.manager import SharesManager
from aioslsk.shares.model import DirectoryShareMode, SharedItem
from aioslsk.transfer.manager import TransferManager
from aioslsk.transfer.model import AbortReason, Transfer, TransferDirection
from aioslsk.transfer.state import TransferState
from aioslsk.user.manager import UserManager
from aioslsk.user.model import BlockingFlag, User

PROPERTY = 'C08'

# --------------------------------------------------------------------------------
# the directory tree the shares manager works on (real files; created once)
# --------------------------------------------------------------------------------

ROOT = '/tmp/verif_c08_fs'
DIRS = {'Music': 'Music', 'Private': 'Private', 'Rock': 'Music/Rock', 'Live': 'Music/Rock/Live'}   # Music > Rock > Live
DISK = ['Music/Rock/Song One.mp3', 'Music/top song.flac', 'Music/Rock/Live/Song Live.mp3',
        'Private/Demo Song.mp3', 'Unshared/Lost Song.mp3']
USERS = ['alice', 'bob', 'carol']
ME = 'me'
MODES = ['everyone', 'friends', 'users']
UPLOADS, SEARCHES = int(BlockingFlag.UPLOADS), int(BlockingFlag.SEARCHES)
# alphabet of the excluded phrases: every letter (both cases) of the query paths' words that matter,
# a letter that occurs nowhere, digits/punctuation/separators and one non-ASCII cased pair
SIGMA = list('deginostz' + 'DEGINOSTZ' + 'éÉ' + ' .1\\')

UNFINISHED = ('QUEUED', 'INITIALIZING', 'UPLOADING', 'PAUSED', 'INCOMPLETE', 'VIRGIN')
PRE_STATES = ['QUEUED', 'INITIALIZING', 'UPLOADING', 'PAUSED', 'INCOMPLETE', 'ABORTED', 'COMPLETE', 'FAILED']


def ensure_fs():
    for rel in DISK:
        p = os.path.join(ROOT, rel)
        if os.path.exists(p):
            continue
        os.makedirs(os.path.dirname(p), exist_ok=True)
        tmp = f'{p}.{os.getpid()}.tmp'
        with open(tmp, 'wb') as fh:
            fh.write(b'0123456789')
        os.replace(tmp, p)


ensure_fs()
ALL_FILES = {os.path.join(ROOT, rel) for rel in DISK}


class _LeakGuard(logging.Handler):
    """aioslsk swallows listener / gather exceptions and logs them; a proxy that hit an
    unmodelled operation must not disappear that way"""

    def __init__(self):
        super().__init__(logging.ERROR)
        self.bad = []

    def emit(self, record):
        if record.exc_info and isinstance(record.exc_info[1], (TypeError, AttributeError, symex.HarnessError)):
            self.bad.append(repr(record.exc_info[1]))


_GUARD = _LeakGuard()
_log = logging.getLogger('aioslsk')
_log.setLevel(logging.ERROR)
_log.propagate = False
if not any(isinstance(h, _LeakGuard) for h in _log.handlers):
    _log.addHandler(_GUARD)


# --------------------------------------------------------------------------------
# environment fakes (no aioslsk logic in them)
# --------------------------------------------------------------------------------

class FakeNet:
    def __init__(self):
        self.peer_sent = []      # (username, message)
        self.server_sent = []

    async def send_peer_messages(self, username, *messages):
        for m in messages:
            self.peer_sent.append((username, m))

    async def send_server_messages(self, *messages):
        self.server_sent.extend(messages)

    def queue_server_messages(self, *messages):
        self.server_sent.extend(messages)

    def create_peer_response_future(self, peer, message_class, fields=None):
        return asyncio.get_running_loop().create_future()   # the peer never answers


class FakeConn:
    def __init__(self, username):
        self.username = username
        self.out = []

    def queue_message(self, message):
        self.out.append(message)

    async def send_message(self, message):
        self.out.append(message)


async def _noop(*a, **kw):
    return None


def _isinstance(obj, cls):
    """builtins.isinstance for which a symbolic string is a str"""
    if isinstance(obj, sstr.SStr) and (cls is str or (isinstance(cls, tuple) and str in cls)):
        return True
    return isinstance(obj, cls)


class _StringEnv:
    """symbolic runs only.  The server-excluded phrases are engine.sstr.SStr values; whatever the code under test does
    to them has to stay inside the engine:
    * SharedItem.get_query_path still computes the path with the real code; the result is handed on as a `str`
      subclass with identical characters whose string methods accept a symbolic argument (a plain str would raise
      TypeError in C);
    * `re` in shares.manager / shares.utils / shares.model / search.model -> engine.reshim.ReShim (the real `re` for
      plain strings, solver-decided matching / forking split for symbolic ones), `isinstance(x, str)` in
      shares.manager accepts an SStr."""

    def __init__(self, on):
        self.on = on
        self.saved = []

    def __enter__(self):
        sstr.use_alphabet(SIGMA)
        if self.on:
            import re as real_re
            self.orig = SharedItem.__dict__['get_query_path']
            orig = self.orig

            def get_query_path(item):
                return PStr(orig(item))
            SharedItem.get_query_path = get_query_path
            shim = reshim.ReShim()
            for mod in (shares_manager_mod, shares_utils_mod, shares_model, search_model_mod):
                if mod.__dict__.get('re') is real_re:
                    self.saved.append((mod, 're', real_re))
                    mod.__dict__['re'] = shim
            self.saved.append((shares_manager_mod, 'isinstance', shares_manager_mod.__dict__.get('isinstance', _MISSING)))
            shares_manager_mod.__dict__['isinstance'] = _isinstance
        return self

    def __exit__(self, *a):
        if self.on:
            SharedItem.get_query_path = self.orig
            for mod, name, old in reversed(self.saved):
                if old is _MISSING:
                    mod.__dict__.pop(name, None)
                else:
                    mod.__dict__[name] = old
            self.saved = []


_MISSING = object()


# --------------------------------------------------------------------------------
# the world: real managers + the reference copy of the configuration
# --------------------------------------------------------------------------------

class World:
    def __init__(self, c, dirs, absent=(), ops=()):
        """dirs: list of [dirkey, mode], added and then scanned; ops: directories added / removed afterwards
        *without* a new scan (['add', dirkey, mode] | ['remove', dirkey]); absent: users without an entry in
        the block list"""
        self.c = c
        self.loop = VLoop()
        self.gen = 0
        del _GUARD.bad[:]
        # reference copy of the configuration (what the oracle reads)
        self.mode = {}
        self.friend = {}
        self.listed = {}
        self.flags = {}
        self.sd = {}
        self.order = []
        self.aliases = {}      # every directory registered during this run (also removed ones)
        self.removed = []      # the application keeps the objects remove_shared_directory() returned (their items stay
        #                        alive deterministically instead of until some garbage collection)
        self.scanned = False   # initial scan done
        self.restructured = False   # a directory was added / removed after the last scan

        self.settings = Settings(credentials={'username': ME, 'password': 'x'})
        self.friend = {u: c.fresh_bool(f'friend_{u}') for u in USERS}
        self._install_friends(new_object=True)
        for u in USERS:
            self.set_flags(u, present=u not in absent)

        self.bus = EventBus()
        self.net = FakeNet()
        lp = self.loop

        def build():
            self.sm = SharesManager(self.settings, self.bus, self.net)
            self.um = UserManager(self.settings, self.bus, self.net)
            self.um.track_user = _noop
            self.um.untrack_user = _noop
            self.tm = TransferManager(self.settings, self.bus, self.um, self.sm, self.net)
            self.se = SearchManager(self.settings, self.bus, self.sm, self.tm, self.net)
            self.pm = PeerManager(self.settings, self.bus, self.um, self.sm, self.tm, self.net)
        lp.call(build)
        for dkey, mode in dirs:
            self.add_dir(dkey, mode)
        for dkey, _ in dirs:
            self.run(self.sm.scan_directory_files(self.sd[dkey]))
        self.scanned = True
        for op in ops:
            if op[0] == 'add':
                self.add_dir(op[1], op[2])
            else:
                self.remove_dir(op[1])
        # the initial configuration is the one the managers start with: nothing is pending
        while not self.tm._management_queue.empty():
            self.tm._management_queue.get_nowait()
        self.tm._management_flags = type(self.tm._management_flags)(0)

    # ---- plumbing -------------------------------------------------------------------------
    def run(self, coro):
        return self.loop.run_until_complete(coro)

    def finish(self):
        self.loop.run_ready()
        if _GUARD.bad:
            raise symex.HarnessError(f'proxy leak swallowed by aioslsk: {_GUARD.bad[:2]}')
        if self.loop.errors:
            raise symex.HarnessError(f'exception reached the loop exception handler: {self.loop.errors[:1]!r}')

    def close(self):
        self.loop.cleanup()

    def fresh_name(self, base):
        return f'{base}_g{self.gen}' if self.gen else base

    # ---- configuration (applied through the real objects, mirrored in the reference) -------
    def _install_friends(self, new_object):
        c = self.c
        if c.symbolic:
            if new_object:
                self.settings.users.__dict__['friends'] = SymMembers(self.friend)
            else:   # in-place mutation of the existing container, like friends.add()/discard()
                self.settings.users.friends.bits.update(self.friend)
        else:
            want = {u for u in USERS if self.friend[u]}
            if new_object:
                self.settings.users.friends = want
            else:
                cur = self.settings.users.friends
                for u in USERS:
                    (cur.add if u in want else cur.discard)(u)

    def set_flags(self, u, present=True):
        c = self.c
        if not present:
            self.settings.users.blocked.pop(u, None)
            self.flags[u] = None
            return
        v = c.fresh_bv(self.fresh_name(f'flags_{u}'), 8)
        val = SFlag(v) if c.symbolic else BlockingFlag(v)
        self.settings.users.blocked[u] = val
        self.flags[u] = val

    def add_dir(self, dkey, mode):
        sd = self.sm.add_shared_directory(os.path.join(ROOT, DIRS[dkey]), share_mode=DirectoryShareMode(mode))
        self.restructured = self.restructured or self.scanned
        self.sd[dkey] = sd
        self.aliases[dkey] = sd.alias
        self.mode[dkey] = mode
        self.order.append(dkey)
        self.set_listed(dkey)
        return sd

    def set_listed(self, dkey):
        c = self.c
        bits = {u: c.fresh_bool(self.fresh_name(f'listed_{dkey}_{u}')) for u in USERS}
        self.listed[dkey] = bits
        users = SymMembers(bits) if c.symbolic else [u for u in USERS if bits[u]]
        self.sm.update_shared_directory(self.sd[dkey], users=users)

    def set_mode(self, dkey, mode):
        self.mode[dkey] = mode
        self.sm.update_shared_directory(self.sd[dkey], share_mode=DirectoryShareMode(mode))

    def remove_dir(self, dkey):
        self.restructured = self.restructured or self.scanned
        self.removed.append(self.sm.remove_shared_directory(self.sd[dkey]))
        del self.mode[dkey], self.listed[dkey], self.sd[dkey]
        self.order.remove(dkey)

    # ---- reference (independent of the aioslsk helpers) ---------------------------------
    def owner(self, abs_path):
        """key of the deepest shared directory containing the file, or None"""
        best = None
        for dkey in self.order:
            root = os.path.join(ROOT, DIRS[dkey])
            if abs_path.startswith(root + '/') and (best is None or len(DIRS[dkey]) > len(DIRS[best])):
                best = dkey
        return best

    def shared_files(self):
        return [os.path.join(ROOT, rel) for rel in DISK if self.owner(os.path.join(ROOT, rel))]

    def ref_remote_path(self, abs_path):
        dkey = self.owner(abs_path)
        rel = abs_path[len(os.path.join(ROOT, DIRS[dkey])) + 1:]
        return '@@' + self.sd[dkey].alias + '\\' + rel.replace('/', '\\')

    def ref_query_path(self, abs_path):
        dkey = self.owner(abs_path)
        return abs_path[len(os.path.join(ROOT, DIRS[dkey])) + 1:].replace('/', '\\')

    def names(self, remote_path):
        """strict reading (used where the manager is *obliged* to act): the path is one we currently hand out for a
        file of a shared directory (equal to the canonical '@@alias\\relative path' whenever the directories were
        scanned after the last add/remove)"""
        for sd in self.sm.shared_directories:
            for item in sd.items:
                if item.get_remote_path() == remote_path:
                    p = item.get_absolute_path()
                    return p if p in ALL_FILES and self.owner(p) else None
        return None

    def denotes(self, remote_path):
        """lenient reading (used for everything that must *not* happen): '@@<alias of any directory registered
        in this run>\\<relative path>' -> that file, provided it exists and lies in a currently shared directory"""
        if not remote_path.startswith('@@'):
            return None
        alias, _, rel = remote_path[2:].partition('\\')
        for dkey, a in self.aliases.items():
            if a == alias:
                p = os.path.join(ROOT, DIRS[dkey], rel.replace('\\', '/'))
                if p in ALL_FILES and self.owner(p):
                    return p
        return None

    def advertised(self, canonical=True):
        """remote paths a peer can have learned from us (what the items currently answer to), optionally plus the
        canonical path of every shared file"""
        out = []
        for sd in self.sm.shared_directories:
            for item in sd.items:
                out.append(item.get_remote_path())
        if canonical:
            for f in self.shared_files():
                out.append(self.ref_remote_path(f))
        return sorted(set(out))

    def rescan(self):
        self.run(self.sm.scan())
        self.restructured = False

    def sig(self, a, b):
        """finite discriminants of a finding: area / detail / whether shared directories were added or removed
        since the last scan"""
        return [a, b, 'restructured_unscanned' if self.restructured else 'scanned']

    def entitled(self, u, dkey):
        m = self.mode[dkey]
        if m == 'everyone':
            return True
        if m == 'friends':
            return self.friend.get(u, False)
        return self.listed[dkey].get(u, False)

    def blocked(self, u, bit):
        f = self.flags.get(u)
        return False if f is None else flag_has(f, bit)

    def permitted_file(self, u, abs_path):
        """may the local file be sent to u under the current configuration"""
        dkey = self.owner(abs_path) if abs_path else None
        if dkey is None:
            return SBool(False)
        return And(self.entitled(u, dkey), Not(self.blocked(u, UPLOADS)))

    def permitted_path(self, u, remote_path):
        f = self.names(remote_path)
        if f is None:
            return SBool(False)
        return self.permitted_file(u, f)

    def shared_to(self, u, remote_path):
        f = self.names(remote_path)
        if f is None:
            return SBool(False)
        return And(self.entitled(u, self.owner(f)))

    # ---- actors --------------------------------------------------------------------------------
    def request(self, u, path, kind, ticket=5):
        conn = FakeConn(u)
        if kind == 'queue':
            msg = PeerTransferQueue.Request(path)
        else:
            msg = PeerTransferRequest.Request(TransferDirection.UPLOAD.value, ticket, path)
        self.run(self.tm._on_message_received(MessageReceivedEvent(msg, conn)))
        return conn

    def find_upload(self, u, path):
        for t in self.tm.transfers:
            if t.direction == TransferDirection.UPLOAD and t.username == u and t.remote_path == path:
                return t
        return None

    def mk_upload(self, u, remote_path, local_path, state, reason=None):
        t = Transfer(u, remote_path, TransferDirection.UPLOAD)
        t.local_path = local_path
        t.filesize = 10
        if self.run(self.tm.add(t)) is not t:
            raise symex.PathAbort('an upload for this user and path exists already')
        t.state = TransferState.init_from_state(TransferState.State[state], t)
        t.abort_reason = reason
        if state == 'UPLOADING':
            t.start_time = 1.0
        while not self.tm._management_queue.empty():
            self.tm._management_queue.get_nowait()
        self.tm._management_flags = type(self.tm._management_flags)(0)
        return t

    def tm_cycles(self, limit=6):
        """run the transfer manager's management job as long as a cycle is requested"""
        n = 0
        while not self.tm._management_queue.empty():
            n += 1
            if n > limit:
                raise symex.HarnessError('management cycles do not settle')
            self.run(self.tm._management_job())
            self.loop.run_ready()
        return n

    def detect(self):
        """the user manager's periodic job: compares settings with its last snapshot, emits events"""
        self.run(self.um._management_job(self.um._management_task.context))

    def detect_inline(self):
        """the same job driven by hand at the current instant, without giving any other task a turn (used to land a
        change *between two steps* of a running transfer management cycle); it must not suspend"""
        coro = self.um._management_job(self.um._management_task.context)
        self.loop._enter()
        try:
            try:
                coro.send(None)
            except StopIteration:
                return
            coro.close()
            raise symex.HarnessError('UserManager._management_job suspended')
        finally:
            self.loop._leave()

    def offers(self, since=0):
        """PeerTransferRequest messages we sent (= we started serving an upload)"""
        return [(u, m) for u, m in self.net.peer_sent[since:] if isinstance(m, PeerTransferRequest.Request)]

    # ---- obligations shared by the harnesses ---------------------------------------------------
    def check_served(self, since, sig):
        c = self.c
        for u, m in self.offers(since):
            t = self.find_upload(u, m.filename)
            c.reach('upload_offered')
            c.check(t is not None and t.local_path is not None, 'served_upload_is_known', sig=sig)
            if t is not None:
                c.check(self.permitted_file(u, t.local_path), 'served_only_if_permitted', sig=sig,
                        info={'user': u, 'file': m.filename})

    def check_request(self, u, path, kind, conn, pre_state, sig):
        """after a PeerTransferQueue / PeerTransferRequest from u for `path`"""
        c = self.c
        t = self.find_upload(u, path)
        post = t.state.VALUE.name if t is not None else None
        if t is not None and pre_state is None:
            c.reach('upload_created')
            c.check(self.permitted_file(u, t.local_path), 'upload_created_only_if_permitted', sig=sig,
                    info={'path': path, 'local': t.local_path})
        elif t is not None and post in UNFINISHED and pre_state not in UNFINISHED:
            c.reach('upload_requeued_by_request')
            c.check(self.permitted_file(u, t.local_path), 'upload_requeued_only_if_permitted', sig=sig,
                    info={'path': path, 'pre': pre_state, 'post': post})
        for m in conn.out:
            if isinstance(m, PeerTransferReply.Request) and m.allowed:
                c.check(self.permitted_file(u, self.denotes(path)), 'positive_reply_only_if_permitted', sig=sig)
        refused = [m for m in conn.out if isinstance(m, PeerTransferQueueFailed.Request)
                   or (isinstance(m, PeerTransferReply.Request) and not m.allowed and m.reason != 'Queued')]
        if refused:
            c.reach('upload_refused')
        return t


def mk_phrase(c, name, length):
    """a server-excluded phrase of `length` characters over SIGMA (either letter case): engine.sstr.SStr while
    exploring, the plain str of the model in concrete replay"""
    return sstr.fresh_str(c, name, length)


# --------------------------------------------------------------------------------
# H1: what is listed to whom (search replies, shares replies)
# --------------------------------------------------------------------------------

CARRIERS = ['distributed', 'distributed_server', 'server', 'file_search']


def _guarded(body):
    """build the world, run the harness body, always tear the loop down (also when the engine cuts the path)"""
    def harness(c, dirs, **params):
        absent = (USERS[params.get('user', 0)],) if params.pop('absent', False) else ()
        with _StringEnv(c.symbolic):
            w = World(c, dirs, absent=absent, ops=params.pop('ops', ()))
            try:
                body(c, w, **params)
                w.finish()
            finally:
                w.close()
    harness.__name__ = body.__name__
    return harness


@_guarded
def h_search(c, w, user=0, phrase_lens=(2,), query='song'):
    u = USERS[user]
    se, net = w.se, w.net
    se._session = Session(User(ME), '1.2.3.4', '', 1, 1)
    phrases = [mk_phrase(c, f'ph{k}', n) for k, n in enumerate(phrase_lens)]
    w.run(se._on_message_received(MessageReceivedEvent(ExcludedSearchPhrases.Response(phrases), FakeConn(None))))
    if c.symbolic:
        # same keys, same WeakSets; additionally answers look-ups by a symbolic key (a piece of a phrase) through the solver
        w.sm._term_map = SymKeyDict(w.sm._term_map)
    carrier = c.pick(CARRIERS, 'carrier')
    if carrier == 'distributed':
        msg = DistributedSearchRequest.Request(0x31, u, 77, query)
    elif carrier == 'distributed_server':
        msg = DistributedServerSearchRequest.Request(3, 0x31, u, 77, query)
    elif carrier == 'server':
        msg = ServerSearchRequest.Response(3, 0x31, u, 77, query)
    else:
        msg = FileSearch.Response(u, 77, query)
    w.run(se._on_message_received(MessageReceivedEvent(msg, FakeConn('parent'))))
    w.loop.run_ready()

    n_shared = len(w.shared_files())
    replies = [(dest, m) for dest, m in net.peer_sent if isinstance(m, PeerSearchReply.Request)]
    if not replies:
        c.reach('search_no_reply')
    for dest, m in replies:
        c.reach('search_reply_sent')
        c.check(Not(w.blocked(dest, SEARCHES)), 'search_reply_not_to_blocked_user', sig=w.sig('search', 'blocked_asker'))
        locked = m.locked_results or []
        if m.results:
            c.reach('search_visible_listed')
        if locked:
            c.reach('search_locked_listed')
        if len(m.results) + len(locked) < n_shared:
            c.reach('search_result_withheld')
        for kind, fds in (('visible', m.results), ('locked', locked)):
            for fd in fds:
                f = w.denotes(fd.filename)
                if f is None:
                    # a file that is in no shared directory (items of a removed directory stay in the term map while
                    # something references them): nobody can queue it (see `request`), the statement has no clause for it
                    c.reach('search_lists_unshared_file')
                    c.note('search reply lists a file outside every shared directory', fd.filename, kind)
                elif kind == 'visible':
                    c.check(And(w.entitled(dest, w.owner(f))), 'search_visible_only_if_entitled',
                            sig=w.sig('search', 'visible'), info=[fd.filename, w.mode[w.owner(f)]])
                for k, ph in enumerate(phrases):
                    # the path as the asker sees it: the reported file name without the opaque '@@alias\' prefix
                    c.check(Not(phrase_ci_in(ph, fd.filename.partition('\\')[2])), 'search_no_excluded_phrase',
                            sig=w.sig('search', 'excluded_phrase'), info={'file': fd.filename, 'phrase': k, 'list': kind})

@_guarded
def h_shares(c, w, user=0):
    """the complete share listing sent in answer to a PeerSharesRequest"""
    u = USERS[user]
    pm = w.pm
    conn = FakeConn(u)
    w.run(pm._on_message_received(MessageReceivedEvent(PeerSharesRequest.Request(), conn)))
    for m in conn.out:
        if not isinstance(m, PeerSharesReply.Request):
            continue
        c.reach('shares_reply_sent')
        if m.locked_directories and any(dd.files for dd in m.locked_directories):
            c.reach('shares_locked_listed')
        for dd in m.directories:
            for fd in dd.files:
                c.reach('shares_visible_listed')
                f = w.denotes(dd.name + '\\' + fd.filename)
                if f is None:
                    c.reach('shares_list_unshared_file')
                    c.note('share listing contains a file outside every shared directory', dd.name, fd.filename)
                else:
                    c.check(And(w.entitled(u, w.owner(f))), 'share_visible_only_if_entitled',
                            sig=w.sig('shares', 'visible'), info=[dd.name, fd.filename, w.mode[w.owner(f)]])


# --------------------------------------------------------------------------------
# H2: queue / transfer requests
# --------------------------------------------------------------------------------

VARIANTS = ['upper', 'lower', 'double_separator', 'forward_slash', 'trailing_separator', 'no_prefix',
            'directory', 'unknown_file', 'traversal', 'local_absolute', 'foreign_alias']


def variant_path(w, base_abs, kind):
    rp = w.ref_remote_path(base_abs)
    alias_part, _, rest = rp.partition('\\')
    if kind == 'upper':
        return alias_part + '\\' + rest.upper()
    if kind == 'lower':
        return alias_part + '\\' + rest.lower()
    if kind == 'double_separator':
        return rp.replace('\\', '\\\\')
    if kind == 'forward_slash':
        return rp.replace('\\', '/')
    if kind == 'trailing_separator':
        return rp + '\\'
    if kind == 'no_prefix':
        return rp[2:]
    if kind == 'directory':
        return rp.rpartition('\\')[0]
    if kind == 'unknown_file':
        return rp.rpartition('\\')[0] + '\\nothing.mp3'
    if kind == 'traversal':
        return alias_part + '\\..\\Unshared\\Lost Song.mp3'
    if kind == 'local_absolute':
        return os.path.join(ROOT, 'Unshared/Lost Song.mp3')
    if kind == 'foreign_alias':
        return '@@zzzzz\\' + rest
    raise symex.HarnessError(kind)


@_guarded
def h_request(c, w, msg='queue', pre='none', user=0):
    u = USERS[user]
    paths = w.advertised()
    sig = w.sig(msg, pre)
    if pre == 'none':
        targets = [('exact', p) for p in paths] + [(v, None) for v in VARIANTS]
        kind, path = c.pick(targets, 'target')
        if path is None:
            path = variant_path(w, w.shared_files()[0], kind)
        sig = w.sig(msg, 'new:' + kind)
        pre_state = None
    else:
        path = c.pick(w.advertised(canonical=False), 'target')
        reason = c.pick([AbortReason.REQUESTED, AbortReason.BLOCKED, AbortReason.FILE_NOT_SHARED], 'reason') \
            if pre == 'ABORTED' else None
        w.mk_upload(u, path, w.denotes(path), pre, reason)
        pre_state = pre
    mark = len(w.net.peer_sent)
    conn = w.request(u, path, msg)
    c.reach('request_handled')
    w.check_request(u, path, msg, conn, pre_state, sig)
    if pre == 'none':
        # no configuration change is pending: whatever the next management cycle starts must be permitted
        w.tm_cycles()
        w.check_served(mark, sig)


# --------------------------------------------------------------------------------
# H3: one shares-changed management step from an arbitrary upload state
# --------------------------------------------------------------------------------

def check_after_cycle(w, t, pre, pre_reason, sig):
    """second sentence of the property, for one upload, after a processed change"""
    c = w.c
    u = t.username
    post = t.state.VALUE.name
    reason = t.abort_reason
    perm_file = w.permitted_file(u, t.local_path)      # safety reading (what would be sent)
    perm_path = w.permitted_path(u, t.remote_path)     # what the manager can establish from the request
    if post in UNFINISHED:
        c.check(perm_file, 'unpermitted_upload_is_aborted', sig=sig, info={'pre': pre, 'post': post})
        if pre in UNFINISHED:
            c.reach('permitted_upload_kept')
        if pre == 'ABORTED':
            c.reach('upload_requeued')
            # "queued again"; a management cycle that follows may already have started it
            c.check(post in ('QUEUED', 'INITIALIZING', 'UPLOADING'), 'requeued_means_queued', sig=sig)
            c.check(pre_reason != AbortReason.REQUESTED, 'user_aborted_stays_aborted', sig=sig)
    elif post == 'ABORTED':
        if pre == 'ABORTED' and pre_reason == AbortReason.REQUESTED:
            c.reach('user_abort_kept')
            c.check(reason == AbortReason.REQUESTED, 'user_aborted_stays_aborted', sig=sig, info=repr(reason))
        else:
            if pre != 'ABORTED':
                c.reach('upload_aborted_by_change')
                matches = Or(And(reason == AbortReason.BLOCKED, w.blocked(u, UPLOADS)),
                             And(reason == AbortReason.FILE_NOT_SHARED, Not(w.shared_to(u, t.remote_path))))
                c.check(matches, 'abort_reason_matches', sig=sig, info=repr(reason))
            else:
                c.reach('change_abort_kept')
            # aborted only because of the configuration: must be queued again once permitted
            c.check(Not(perm_path), 'permitted_upload_is_requeued', sig=sig, info={'pre': pre, 'reason': repr(pre_reason)})
    else:
        c.reach('finished_upload_seen')    # COMPLETE / FAILED: nothing is being served, nothing demanded


@_guarded
def h_cycle(c, w, pre='QUEUED', user=0, second=None):
    """arbitrary configuration, one (or two) uploads in an arbitrary state, then the step
    manage_shares_changed + manage_transfers"""
    ups = []
    for i, (ui, st) in enumerate([(user, pre)] + ([second] if second else [])):
        u = USERS[ui]
        # an existing upload was created for a path we handed out (reachable pre-states only)
        targets = [('shared', p) for p in w.advertised(canonical=False)] + [('gone', '@@zzzzz\\Lost Song.mp3')]
        kind, path = c.pick(targets, f'target{i}')
        f = w.denotes(path) if kind == 'shared' else os.path.join(ROOT, 'Unshared/Lost Song.mp3')
        reason = c.pick([AbortReason.REQUESTED, AbortReason.BLOCKED, AbortReason.FILE_NOT_SHARED], f'reason{i}') \
            if st == 'ABORTED' else None
        t = w.mk_upload(u, path, f, st, reason)
        ups.append((t, st, reason, w.sig('cycle', st)))
    mark = len(w.net.peer_sent)
    w.run(w.tm.manage_shares_changed())
    c.reach('cycle_done')
    for t, st, reason, sig in ups:
        check_after_cycle(w, t, st, reason, sig)
    w.loop.call(w.tm.manage_transfers)
    w.loop.run_ready()
    w.check_served(mark, w.sig('cycle', pre))


# --------------------------------------------------------------------------------
# H4: configuration changes through the public API, detection, management cycles
# --------------------------------------------------------------------------------

CHANGES = ['flags', 'flags_removed', 'friends', 'friends_replaced', 'listed', 'mode', 'remove_dir', 'add_live']


def apply_change(w, c, kind, u, f, step):
    """one run-time change of the entitlement inputs, made the way an application makes it"""
    w.gen += 1
    dkey = w.owner(f)
    if kind == 'flags':
        w.set_flags(u, present=True)
    elif kind == 'flags_removed':
        w.set_flags(u, present=False)
    elif kind in ('friends', 'friends_replaced'):
        w.friend = {x: c.fresh_bool(w.fresh_name(f'friend_{x}')) for x in USERS}
        w._install_friends(new_object=(kind == 'friends_replaced'))
    elif kind == 'listed':
        if dkey is None:
            raise symex.PathAbort('file not in a shared directory any more')
        w.set_listed(dkey)
    elif kind == 'mode':
        if dkey is None:
            raise symex.PathAbort('file not in a shared directory any more')
        w.set_mode(dkey, c.pick(MODES, f'newmode{step}'))
    elif kind == 'remove_dir':
        if dkey is None:
            raise symex.PathAbort('file not in a shared directory any more')
        w.remove_dir(dkey)
    elif kind == 'add_live':
        if 'Live' in w.sd:
            raise symex.PathAbort('already shared')
        w.add_dir('Live', c.pick(MODES, f'livemode{step}'))
    else:
        raise symex.HarnessError(kind)
    if kind in ('remove_dir', 'add_live') and c.choose(2, f'rescan{step}'):
        w.rescan()     # SharesManager.scan(): files, attributes, ScanCompleteEvent


@_guarded
def h_change(c, w, changes, fidx=0, msg='queue', user=0):
    u = USERS[user]
    f = w.shared_files()[fidx]
    path = w.ref_remote_path(f)
    sig0 = w.sig(msg, 'new:exact')
    conn = w.request(u, path, msg)
    t = w.check_request(u, path, msg, conn, None, sig0)
    if t is None:
        c.reach('initially_refused')
        return
    c.reach('initially_queued')
    if c.choose(2, 'start_upload'):
        mark = len(w.net.peer_sent)
        w.tm_cycles()
        w.check_served(mark, sig0)
        if t.state.VALUE.name == 'INITIALIZING':
            c.reach('upload_started_before_change')
    user_aborted = bool(c.choose(2, 'user_abort'))
    if user_aborted:
        w.run(w.tm.abort(t))
        w.tm_cycles()
    for step, kind in enumerate(changes):
        pre, pre_reason = t.state.VALUE.name, t.abort_reason
        mark = len(w.net.peer_sent)
        apply_change(w, c, kind, u, f, step)
        sig = w.sig(kind, pre)
        if c.choose(2, f'request_between{step}'):
            conn = w.request(u, path, msg)
            w.check_request(u, path, msg, conn, pre, sig)
            pre, pre_reason = t.state.VALUE.name, t.abort_reason
        w.detect()
        n = w.tm_cycles()
        if n:
            c.reach('change_processed')
        c.reach('change_done')
        check_after_cycle(w, t, pre, pre_reason, sig)
        if user_aborted:
            c.check(t.state.VALUE.name == 'ABORTED' and t.abort_reason == AbortReason.REQUESTED,
                    'user_aborted_stays_aborted', sig=sig)
        w.check_served(mark, sig)
        # a request arriving after the change was processed
        conn = w.request(u, path, msg)
        w.check_request(u, path, msg, conn, t.state.VALUE.name if w.find_upload(u, path) else None, sig)
        w.tm_cycles()
        w.check_served(mark, sig)


# --------------------------------------------------------------------------------
# H5: a second configuration change lands while the management cycle of the first one is running
# --------------------------------------------------------------------------------

INLINE_CHANGES = ['flags', 'flags_removed', 'friends', 'friends_replaced', 'listed', 'mode']


@_guarded
def h_overlap(c, w, first, second, prior=None, uploads=1, start=0, user_abort=0, fidx=0, msg='queue'):
    """request(s) -> [prior change, fully processed] -> first change + detection -> the REAL
    TransferManager._management_job runs as a task on the loop, one loop step at a time; before each step (= every
    suspension point of the running cycle, plus "before it starts" and "after it ended") the second change and its
    detection may be injected -> everything settles -> end-state obligations against the final configuration."""
    users = USERS[:uploads]
    f = w.shared_files()[fidx]
    path = w.ref_remote_path(f)
    sig0 = w.sig(msg, 'new:exact')
    ts = []
    for u in users:
        conn = w.request(u, path, msg)
        t = w.check_request(u, path, msg, conn, None, sig0)
        if t is None:
            c.reach('initially_refused')
            return
        ts.append(t)
    c.reach('initially_queued')
    if start:
        w.tm_cycles()      # INITIALIZING with a live task each (two upload slots): aborting has to cancel and await it
    if user_abort:
        w.run(w.tm.abort(ts[0]))
        w.tm_cycles()
    if prior:
        apply_change(w, c, prior, users[0], f, 0)
        w.detect()
        w.tm_cycles()
    pres = [(t.state.VALUE.name, t.abort_reason) for t in ts]
    mark = len(w.net.peer_sent)

    apply_change(w, c, first, users[0], f, 1)
    w.detect()
    job = None
    if not w.tm._management_queue.empty():
        job = w.loop.spawn(w.tm._management_job())
    else:
        c.reach('first_change_not_detected')

    def inject():
        # what was offered so far was offered under the configuration in force until now
        w.check_served(mark, w.sig(f'overlap:{first}+{second}', 'served'))
        # with two uploads the second change concerns the other user (for flags) / everybody (friends, listed, mode)
        apply_change(w, c, second, users[-1], f, 2)
        w.detect_inline()

    injected = False
    steps = 0
    while job is not None and not job.done():
        if not injected and c.choose(2, f'inject_before_step{steps}'):
            inject()
            injected = True
            c.reach('injected_while_cycle_suspended' if steps else 'injected_before_cycle_started')
        if not w.loop.step():
            raise symex.HarnessError('management job is blocked on something that never happens')
        steps += 1
        if steps > 60:
            raise symex.HarnessError('management job does not finish')
    if steps > 1:
        c.reach('cycle_suspended')
    if not injected:
        inject()
        c.reach('injected_after_cycle')
    w.loop.run_ready()
    w.tm_cycles()
    c.reach('overlap_settled')
    for t, (pre, pre_reason) in zip(ts, pres):
        sig = w.sig(f'overlap:{first}+{second}', pre)
        check_after_cycle(w, t, pre, pre_reason, sig)
        if user_abort and t is ts[0]:
            c.check(t.state.VALUE.name == 'ABORTED' and t.abort_reason == AbortReason.REQUESTED,
                    'user_aborted_stays_aborted', sig=sig)
    # (an offer made between the injected change and the cycle that processes it falls into the detection/processing
    # latency, which is outside the claim; the end state above is what the property's second sentence demands)


# --------------------------------------------------------------------------------
# prelude: the proxies agree with the Python objects they stand for
# --------------------------------------------------------------------------------

def _h_string_proxies(c):
    """prelude harness (no aioslsk): differential check of the string proxies against CPython"""
    import itertools
    sstr.use_alphabet(SIGMA)
    n = 1 + c.choose(2, 'len')
    p = sstr.fresh_str(c, 'p', n)
    every = [''.join(t) for t in itertools.product(SIGMA, repeat=n)]
    hay = c.pick(['Rock\\Song One.mp3', 'top song.flac', 'Zz.1 é'], 'hay')
    op = c.pick(['in', 'lower_in_lower', 'find', 'startswith', 'dict_in', 'dict_get', 'reference'], 'op')
    words = {'on': 1, 'so': 2, 'g': 3, 'song': 4, 'é': 5, 'ng': 6}
    if op == 'in':
        got, ref = (p in PStr(hay)), (lambda q: q in hay)
    elif op == 'lower_in_lower':
        got, ref = (p.lower() in PStr(hay).lower()), (lambda q: q.lower() in hay.lower())
    elif op == 'find':
        got, ref = PStr(hay).find(p), (lambda q: hay.find(q))
    elif op == 'startswith':
        got, ref = bool(PStr(hay).lower().startswith(p.lower())), (lambda q: hay.lower().startswith(q.lower()))
    elif op == 'dict_in':
        got, ref = (p.lower() in SymKeyDict(words)), (lambda q: q.lower() in words)
    elif op == 'dict_get':
        got, ref = SymKeyDict(words).get(p.lower(), 0), (lambda q: words.get(q.lower(), 0))
    else:
        got, ref = bool(symex.And(phrase_ci_in(p, hay))), (lambda q: q.lower() in hay.lower())
    agree = [q for q in every if ref(q) == got]
    c.check(Or(*[p == q for q in agree]) if agree else False, 'proxy_agrees_with_cpython', info=[op, hay, repr(got)])


def prelude(tier):
    ensure_fs()
    notes = []
    # SFlag against BlockingFlag arithmetic
    n = 0
    for a in list(range(0, 64)) + [128, 255]:
        for b in (BlockingFlag.UPLOADS, BlockingFlag.SEARCHES, BlockingFlag.SHARES, BlockingFlag.ALL, BlockingFlag.NONE):
            real = BlockingFlag(a) & b
            sym = SFlag(a) & b
            v = z3.simplify(sym.e).as_long()
            if v != int(real) or z3.is_true(z3.simplify(sym.e != 0)) != bool(real):
                raise symex.HarnessError(f'SFlag & mismatch at {a},{b}')
            r2 = b & SFlag(a)
            if z3.simplify(r2.e).as_long() != int(real):
                raise symex.HarnessError(f'SFlag reflected & mismatch at {a},{b}')
            for c2 in (0, 5, 32, 63):
                if z3.is_true(z3.simplify((SFlag(a) == BlockingFlag(c2)).e)) != (BlockingFlag(a) == BlockingFlag(c2)):
                    raise symex.HarnessError('SFlag == mismatch')
            n += 1
    notes.append(f'SFlag vs BlockingFlag: {n} operand pairs agree')
    # is_blocked on the real settings object with a constant SFlag
    us = UsersSettings()
    for a in (0, 4, 32, 36, 63):
        us.blocked['x'] = SFlag(a)
        for bit in (BlockingFlag.UPLOADS, BlockingFlag.SEARCHES):
            if us.is_blocked('x', bit) != bool(BlockingFlag(a) & bit):
                raise symex.HarnessError('is_blocked disagrees on a constant SFlag')
    # SymMembers against set / list semantics on constant bits
    import itertools
    n = 0
    for bits_a in itertools.product([False, True], repeat=3):
        for bits_b in itertools.product([False, True], repeat=3):
            A = SymMembers(dict(zip(USERS, bits_a)))
            B = SymMembers(dict(zip(USERS, bits_b)))
            sa = {u for u, b in zip(USERS, bits_a) if b}
            sb = {u for u, b in zip(USERS, bits_b) if b}
            ok = (set(A - B) == sa - sb and set(B - A) == sb - sa and set(A | B) == sa | sb
                  and bool(A != B) == (sa != sb) and bool(A == B) == (sa == sb) and len(A) == len(sa)
                  and all((u in A) == (u in sa) for u in USERS + ['zed']) and set(A.copy()) == sa and bool(A) == bool(sa))
            if not ok:
                raise symex.HarnessError(f'SymMembers disagrees with set at {bits_a} {bits_b}')
            n += 1
    notes.append(f'SymMembers vs set: {n} pairs agree')
    # PStr / SymKeyDict / phrase_ci_in (on engine.sstr) against str / dict: for a fully symbolic phrase p of length 1..2 the
    # outcome of the proxy operation on each path must be the outcome CPython computes for every concrete p on that path
    ex = symex.Explorer(_h_string_proxies, {}, 'prelude')
    ex.run()
    if ex.failures or ex.stats.inconclusive or not ex.exhausted or ex.stats.discharged == 0:
        raise symex.HarnessError(f'string proxies disagree with str/dict: {[(f.label, f.info, f.model) for f in ex.failures[:2]]}')
    notes.append(f'PStr / SymKeyDict / phrase_ci_in vs str / dict for every phrase of length 1..2 over the alphabet: '
                 f'{ex.stats.paths} paths, {ex.stats.discharged} obligations discharged')
    # the `re` stand-in answers like `re` for what shares.manager does with plain strings
    import re as real_re
    shim = reshim.ReShim()
    pat = shares_manager_mod._QUERY_CLEAN_PATTERN
    for text in ['rock/song one.mp3', 'top song.flac', 'demo song.mp3', 'so ng', 'a_b-c', '', '..']:
        if shim.split(pat, text) != real_re.split(pat, text) or shim.split(pat, PStr(text)) != real_re.split(pat, text):
            raise symex.HarnessError(f're stand-in disagrees with re.split on {text!r}')
    notes.append('re stand-in == re.split(_QUERY_CLEAN_PATTERN, .) on plain strings (symbolic strings: validated by the C07/C09 preludes)')
    # the reference remote/query paths agree with what the shares manager hands out for the fixture tree
    sm = SharesManager(Settings(credentials={'username': ME, 'password': 'x'}), EventBus(), FakeNet())
    lp = VLoop()
    sds = [sm.add_shared_directory(os.path.join(ROOT, DIRS[k])) for k in ('Music', 'Private', 'Live')]
    for sd in sds:
        lp.run_until_complete(sm.scan_directory_files(sd))
    found = sorted(i.get_absolute_path() for sd in sds for i in sd.items)
    want = sorted(os.path.join(ROOT, r) for r in DISK if not r.startswith('Unshared'))
    if found != want:
        raise symex.HarnessError(f'fixture tree mismatch: {found} != {want}')
    lp.cleanup()
    notes.append(f'fixture tree under {ROOT}: {len(found)} shared files found by the real scan')
    return notes


# --------------------------------------------------------------------------------
# META / jobs
# --------------------------------------------------------------------------------

META = {
    'level': 'other',
    'technique': 'symbolic execution of the real shares / transfer / search / peer / user manager code on z3 proxies: one Bool per '
                 '(user in friends), (user in directory.users), an 8-bit vector per user in the real settings.users.blocked dict, '
                 'symbolic characters for the server-excluded phrases; obligations are z3 queries against a pinned entitlement predicate',
    'explanation': 'Real managers are constructed with their real constructors on a virtual event loop over a real directory tree '
                   '(/tmp/verif_c08_fs, scanned by the real scan code). settings.users.friends and SharedDirectory.users are membership '
                   'proxies whose `in` forks on a z3 Bool; block flags are z3 bit-vectors combined with the real BlockingFlag members; '
                   'excluded phrases are engine.sstr.SStr values (symbolic characters over a 24-letter alphabet with both cases). Search replies, share listings, queue/transfer request handlers, '
                   'the shares-changed management step and whole change->detection->management sequences are executed and every '
                   'observable (messages recorded on the fake network/connection, Transfer.state/abort_reason) is compared by z3 with '
                   'the reference predicate entitled/permitted over all values of those variables on the path.',
    'functions': [SharesManager.is_directory_locked, SharesManager.is_item_locked, SharesManager.query,
                  SharesManager.get_shared_item_cache, SharesManager.get_shared_item, SharesManager.find_shared_item_cache,
                  SharesManager.find_shared_item, SharesManager.get_shared_directories_for_user, SharesManager.create_shares_reply,
                  SharesManager.add_shared_directory, SharesManager.update_shared_directory, SharesManager.remove_shared_directory,
                  SharesManager.scan_directory_files, SharesManager.scan, shares_model.SharedDirectory.get_item_by_remote_path,
                  shares_model.SharedItem.get_remote_path, shares_model.SharedItem.get_query_path,
                  TransferManager._on_peer_transfer_queue, TransferManager._on_peer_transfer_request, TransferManager._add_upload,
                  TransferManager._evaluate_aborted_state, TransferManager.manage_shares_changed, TransferManager._management_job,
                  TransferManager.manage_transfers, TransferManager._initialize_upload, TransferManager._request_shares_cycle,
                  TransferManager.abort,
                  SearchManager._query_shares_and_reply, SearchManager._on_distributed_search_request,
                  SearchManager._on_distributed_server_search_request, SearchManager._on_server_search_request,
                  SearchManager._on_file_search, SearchManager._on_excluded_search_phrases,
                  PeerManager._on_peer_shares_request, UserManager._management_job, UsersSettings.is_blocked],
    'stubs': ['Network -> FakeNet recorder (send_peer_messages / send_server_messages / queue_server_messages record; '
              'create_peer_response_future never completes)',
              'PeerConnection -> FakeConn(username) recording queue_message / send_message',
              'UserManager.track_user / untrack_user -> no-op coroutines (as in the repository\'s own transfer manager tests)',
              'asyncio event loop -> engine.vloop.VLoop; run_in_executor is synchronous (real os.walk / os.path on /tmp/verif_c08_fs)',
              'settings.users.friends / SharedDirectory.users -> engine.c08sym.SymMembers (membership bit per user; validated against set)',
              'settings.users.blocked values -> engine.c08sym.SFlag (BV8; validated against BlockingFlag)',
              'symbolic runs only: SharedItem.get_query_path returns the really computed path as a str subclass (engine.c08sym.PStr, same '
              'characters) whose in/find/count/startswith/split/replace/== accept a symbolic string (answered by engine.sstr)',
              'symbolic runs only: `re` in shares.manager / shares.utils / shares.model / search.model -> engine.reshim.ReShim (delegates to '
              'the real re for plain strings; forking split / solver-decided search for symbolic ones), `isinstance(x, str)` in '
              'shares.manager accepts an SStr',
              'symbolic runs only, harness search: SharesManager._term_map is re-wrapped (same keys, same WeakSets) as '
              'engine.c08sym.SymKeyDict right before the search request so that `term in _term_map` / `_term_map[term]` with a symbolic '
              'term (a piece of a phrase) is decided by the solver; plain keys keep real hashing',
              'prelude: PStr / SymKeyDict / phrase_ci_in are compared with str / dict for EVERY phrase of length 1..2 over the alphabet '
              '(z3-decided per path), the re stand-in with re.split on plain strings',
              'management jobs are awaited directly (UserManager._management_job, TransferManager._management_job) instead of through '
              'their BackgroundTask timers; in harness overlap TransferManager._management_job is a task stepped one loop callback at a '
              'time and UserManager._management_job is driven inline between two steps (it must not suspend)',
              'logging of the aioslsk package limited to ERROR; a TypeError/AttributeError logged by aioslsk is a harness error'],
    'data_variables': ['friend(u): Bool per user (3 users)', 'listed(d,u): Bool per directory and user',
                       'flags(u): BV8 per user in settings.users.blocked (all 256 values; bits SEARCHES=4, UPLOADS=32 decide)',
                       'every configuration change draws fresh friend/listed/flags variables (old and new values both symbolic)',
                       'excluded phrase characters: engine.sstr symbolic characters (bit-vector index) over the alphabet ' + repr(''.join(SIGMA))],
    'discriminants': ['directory shape and share mode per directory', 'requesting user', 'search carrier message (4)',
                      'message kind queue/transfer request', 'requested path: each shared file or one of 11 variants',
                      'upload state before the step (8) and abort reason (3)', 'kind of configuration change (8) and new share mode (3)',
                      'whether the upload was started / aborted by the user / re-requested between change and cycle / whether '
                      'scan() follows an added or removed directory', 'phrase lengths', 'query text',
                      'overlap: the loop-step boundary of the running management cycle at which the second change is injected '
                      '(before it starts, each suspension point, after it ended)'],
    'bounds': {
        'quick': {'directories': '1..2 of {Music, Private} in every mode combination, 2 nested shapes, 4 shapes with a nested directory '
                                 'added/removed without a new scan; three levels Music > Rock > Live: 2 scanned mode combinations + 5 '
                                 'histories (innermost removed x2, middle removed, innermost added, middle added after the scan)', 'users': '3 (requests from user 0; the users are interchangeable)',
                  'phrases': '1 phrase of length 0..3, 2 phrases of length 2+1', 'changes_in_sequence': '1 (2 for flags / friends / listed); overlap: [prior] + first + second injected inside the cycle, 17 shapes',
                  'uploads_per_step': '1 (one job with 2)'},
        'thorough': {'directories': '1..3 incl. nested, every mode combination; 24 add/remove-without-scan shapes; three levels: all 27 '
                                    'mode combinations scanned and for each of the 4 histories, plus innermost-then-middle removed',
                     'users': 'requests from each of the 3 users', 'phrases': 'up to 3 phrases, length <= 3',
                     'changes_in_sequence': '2 (every ordered pair of the 8 change kinds on 7 shapes); overlap: every ordered pair of the 6 '
                                            'non-structural kinds x 5 prior states x 1..2 uploads x started/not', 'uploads_per_step': '1..2'}},
    'outside': ['PeerDirectoryContentsReply (create_directory_reply ignores locks; not among the property\'s observables)',
                'search replies listing files of a directory that was removed from the shares (its items stay in the term map while '
                'referenced): observed and noted (reach label search_lists_unshared_file), no clause of the statement covers it',
                'bytes on file connections: "served" is observed as the PeerTransferRequest offer sent by _initialize_upload',
                'the window between a settings mutation and its detection by UserManager._management_job (<= 1 s poll): a QUEUED upload '
                'can be started in that window; the property\'s second sentence ("ends up") is checked after detection',
                'uploads in VIRGIN state at a management cycle (exists only inside _on_peer_transfer_queue/_request between add() and queue())',
                'file name matching of the query itself (C07); file names are concrete here',
                'change sequences longer than 2; more than 3 directories; direct mutation of SharedDirectory.users without update_shared_directory'],
    'assumptions': ['configuration changes are made through settings.users.friends / settings.users.blocked (in place or replaced) and '
                    'SharesManager.add_/update_/remove_shared_directory',
                    'listings and served files are judged by the file they denote ("@@<any alias registered in the run>\\<relative path>", '
                    'Transfer.local_path); re-queueing / "File not shared" are only demanded for paths the shares manager currently hands out'],
}


def _configs(tier):
    """(dirs, ops) shapes: directories that are added and scanned, then optional add/remove without a new scan"""
    one = [[['Music', m]] for m in MODES]
    two = [[['Music', a], ['Private', b]] for a in MODES for b in MODES]
    if tier == 'quick':
        nested = [[['Music', 'everyone'], ['Live', 'friends']], [['Music', 'users'], ['Live', 'everyone']]]
        stale = [([['Music', 'everyone']], [['add', 'Live', 'friends']]),
                 ([['Music', 'friends']], [['add', 'Live', 'users']]),
                 ([['Music', 'friends'], ['Live', 'everyone']], [['remove', 'Live']]),
                 ([['Music', 'users'], ['Live', 'friends']], [['remove', 'Live']])]
        three = []
    else:
        nested = [[['Music', a], ['Live', b]] for a in MODES for b in MODES]
        stale = [([['Music', a]], [['add', 'Live', b]]) for a in MODES for b in MODES] + \
                [([['Music', a], ['Live', b]], [['remove', 'Live']]) for a in MODES for b in MODES] + \
                [([['Music', a], ['Private', 'users']], [['add', 'Live', b], ['remove', 'Private']]) for a in MODES for b in MODES if a != b]
        three = [[['Music', a], ['Private', b], ['Live', d]] for a in MODES for b in MODES for d in MODES]
    # three levels Music > Music/Rock > Music/Rock/Live with independently chosen modes: scanned, and the histories
    # innermost removed / middle removed / innermost added / middle added after the scan (no rescan)
    if tier == 'quick':
        combos = [('everyone', 'friends', 'users'), ('users', 'everyone', 'friends')]
        deep = [[['Music', a], ['Rock', b], ['Live', d]] for a, b, d in combos]
        deep_stale = [([['Music', 'everyone'], ['Rock', 'friends'], ['Live', 'users']], [['remove', 'Live']]),
                      ([['Music', 'friends'], ['Rock', 'users'], ['Live', 'everyone']], [['remove', 'Live']]),
                      ([['Music', 'everyone'], ['Rock', 'friends'], ['Live', 'users']], [['remove', 'Rock']]),
                      ([['Music', 'everyone'], ['Rock', 'users']], [['add', 'Live', 'friends']]),
                      ([['Music', 'everyone'], ['Live', 'users']], [['add', 'Rock', 'friends']])]
    else:
        combos = [(a, b, d) for a in MODES for b in MODES for d in MODES]
        deep = [[['Music', a], ['Rock', b], ['Live', d]] for a, b, d in combos]
        deep_stale = [([['Music', a], ['Rock', b], ['Live', d]], [['remove', 'Live']]) for a, b, d in combos] + \
                     [([['Music', a], ['Rock', b], ['Live', d]], [['remove', 'Rock']]) for a, b, d in combos] + \
                     [([['Music', a], ['Rock', b]], [['add', 'Live', d]]) for a, b, d in combos] + \
                     [([['Music', a], ['Live', d]], [['add', 'Rock', b]]) for a, b, d in combos] + \
                     [([['Music', a], ['Rock', b], ['Live', d]], [['remove', 'Live'], ['remove', 'Rock']]) for a, b, d in combos[::4]]
    deep_shapes = [(cfg, []) for cfg in deep] + deep_stale
    shapes = [(cfg, []) for cfg in one + two + nested + three] + stale
    return one, two, nested, stale, shapes, deep_shapes


def _final_modes(cfg, ops):
    m = dict((d, mo) for d, mo in cfg)
    for op in ops:
        if op[0] == 'add':
            m[op[1]] = op[2]
        else:
            m.pop(op[1], None)
    return m


def jobs(tier):
    q = tier == 'quick'
    one, two, nested, stale, shapes, deep_shapes = _configs(tier)
    users = [0] if q else [0, 1, 2]
    out = []

    def job(harness, fn, cfg, ops, requires, **params):
        p = {'dirs': cfg}
        if ops:
            p['ops'] = ops
        p.update(params)
        out.append({'harness': harness, 'fn': fn, 'params': p, 'requires': requires})

    # H1 what is listed to whom
    for cfg, ops in shapes:
        # (after an un-rescanned add/remove the locked listing is not demanded for non-vacuity: it is what the check decides)
        lockable = not ops and any(mo != 'everyone' for mo in _final_modes(cfg, ops).values())
        for ui in users:
            job('search', h_search, cfg, ops,
                ['search_reply_sent', 'search_no_reply', 'search_visible_listed', 'search_result_withheld']
                + (['search_locked_listed'] if lockable else []), user=ui, phrase_lens=[2])
            job('shares', h_shares, cfg, ops,
                ['shares_reply_sent', 'shares_visible_listed'] + (['shares_locked_listed'] if lockable else []), user=ui)
    for lens in ([[1], [3], [2, 1], [0]] if q else [[1], [3], [2, 1], [0], [3, 2], [3, 3], [1, 1, 1]]):
        for cfg in ([two[5]] if q else [two[5], nested[1], one[0]]):
            job('search', h_search, cfg, [], ['search_no_reply'] if lens == [0] else ['search_reply_sent', 'search_result_withheld'],
                user=1, phrase_lens=lens)
    if not q:
        for query in ('song -demo', '*ong one', 'top', 'rock song'):
            job('search', h_search, two[5], [], ['search_reply_sent'], user=2, phrase_lens=[2], query=query)

    # H2 queue / transfer requests
    for cfg, ops in shapes:
        for msg in ('queue', 'request'):
            for ui in users:
                job('request', h_request, cfg, ops, ['request_handled', 'upload_created', 'upload_refused', 'upload_offered'],
                    msg=msg, pre='none', user=ui)
    for cfg, ops in ([(x, []) for x in one] + stale[:2] if q else [(x, []) for x in one + two[3:6] + nested] + stale):
        for msg in ('queue', 'request'):
            for pre in PRE_STATES:
                req = ['request_handled']
                if pre in ('FAILED', 'COMPLETE') and msg == 'queue':
                    req.append('upload_requeued_by_request')
                job('request', h_request, cfg, ops, req, msg=msg, pre=pre)

    # H3 one management step from any upload state
    for cfg, ops in ([(x, []) for x in one + [two[5], nested[0]]] + stale if q else shapes):
        for pre in PRE_STATES:
            req = ['cycle_done']
            if pre in UNFINISHED:
                req += ['upload_aborted_by_change', 'permitted_upload_kept']
            if pre == 'ABORTED':
                req += ['upload_requeued', 'user_abort_kept', 'change_abort_kept']
            if pre in ('COMPLETE', 'FAILED'):
                req += ['finished_upload_seen']
            for ui in ([0] if q else [0, 2]):
                job('cycle', h_cycle, cfg, ops, req, pre=pre, user=ui)
    for second in ([[1, 'ABORTED']] if q else [[1, 'ABORTED'], [1, 'QUEUED'], [0, 'UPLOADING'], [2, 'PAUSED']]):
        job('cycle', h_cycle, two[5], [], ['cycle_done', 'upload_aborted_by_change'], pre='QUEUED', user=0, second=second)

    # H4 change sequences through the public API (file 0: Music/Rock/Song One, 2: .../Live/Song Live, 3: Private/Demo Song)
    base = [['Music', 'friends'], ['Private', 'users']]

    def change_job(cfg, changes, requires=('initially_queued', 'change_done', 'change_processed'), **kw):
        job('change', h_change, cfg, [], list(requires), changes=changes, **kw)
    if q:
        for kind in ('flags', 'flags_removed', 'friends', 'friends_replaced'):
            change_job(base, [kind, 'flags' if kind.startswith('flags') else 'friends'])
        change_job(base, ['flags'], absent=True)
        change_job(base, ['listed'], fidx=3)
        change_job(base, ['mode'], fidx=3)
        change_job(base, ['mode', 'friends'], msg='request')
        change_job(base, ['remove_dir'])
        change_job(nested[0], ['remove_dir'], fidx=2)
        change_job([['Music', 'friends'], ['Live', 'everyone']], ['remove_dir'], fidx=2)
        change_job([['Music', 'users']], ['add_live'], fidx=2)
        change_job([['Music', 'users']], ['listed', 'listed'])
    else:
        for cfg, fidx in ((base, 0), (base, 3), (nested[1], 2), (nested[3], 2), (nested[6], 2), ([['Music', 'users']], 2),
                          ([['Music', 'everyone']], 2)):
            has_live = 'Live' in [d for d, _ in cfg]
            for a in CHANGES:
                for b in [None] + CHANGES:
                    if has_live and (a == 'add_live' or (b == 'add_live' and a != 'remove_dir')):
                        continue
                    if not has_live and b == 'add_live' and a == 'add_live':
                        continue
                    for msg in ('queue', 'request'):
                        change_job(cfg, [a] + ([b] if b else []),
                                   requires=('initially_queued', 'change_done') + (('change_processed',) if b is None else ()),
                                   fidx=fidx, msg=msg)
        for kind in ('flags', 'flags_removed'):
            change_job(base, ['flags', kind], absent=True, user=1)
            change_job(base, ['flags', kind], absent=True, user=2, msg='request')
    # H5 a second change lands inside the running management cycle of the first (every suspension point enumerated)
    owner_mode = {0: 'friends', 3: 'users'}     # base: file 0 lives in Music (friends), file 3 in Private (users)

    def overlap_job(first, second, fidx=0, **kw):
        req = ['initially_queued', 'overlap_settled', 'injected_after_cycle']
        can_abort = (first in ('flags', 'mode') or (first.startswith('friends') and owner_mode[fidx] == 'friends')
                     or (first == 'listed' and owner_mode[fidx] == 'users'))
        if can_abort and not kw.get('user_abort'):
            req += ['cycle_suspended', 'injected_while_cycle_suspended']
        job('overlap', h_overlap, base, [], req, first=first, second=second, fidx=fidx, **kw)
    if q:
        for prior in (None, 'flags'):
            for n in (1, 2):
                for st in (0, 1):
                    overlap_job('flags', 'flags', **({'prior': prior} if prior else {}), uploads=n, start=st)
        overlap_job('flags', 'flags', start=1, user_abort=1)
        overlap_job('friends', 'flags', prior='friends')
        overlap_job('flags', 'friends', prior='flags', uploads=2)
        overlap_job('friends_replaced', 'friends', start=1)
        overlap_job('flags_removed', 'flags', prior='flags')
        overlap_job('listed', 'mode', fidx=3, prior='flags')
        overlap_job('mode', 'listed', fidx=3, start=1)
        overlap_job('mode', 'friends_replaced', prior='listed', msg='request')
        overlap_job('listed', 'flags', fidx=3, uploads=2, msg='request')
    else:
        for fidx in (0, 3):
            for a in INLINE_CHANGES:
                for b in INLINE_CHANGES:
                    for prior in (None, 'flags', 'friends', 'listed'):
                        for n in (1, 2):
                            for st in (0, 1):
                                kw = {'prior': prior} if prior else {}
                                overlap_job(a, b, fidx=fidx, uploads=n, start=st, **kw)
                    overlap_job(a, b, fidx=fidx, msg='request')
                    overlap_job(a, b, fidx=fidx, start=1, user_abort=1)
    # three nesting levels Music > Rock > Live, scanned and with directories added / removed afterwards (requests from user 0;
    # no excluded phrases here: the entitlement clauses are what these shapes are for)
    for cfg, ops in deep_shapes:
        job('search', h_search, cfg, ops, ['search_reply_sent', 'search_no_reply', 'search_visible_listed'], user=0, phrase_lens=[])
        job('shares', h_shares, cfg, ops, ['shares_reply_sent', 'shares_visible_listed'], user=0)
        for msg in ('queue', 'request'):
            job('request', h_request, cfg, ops, ['request_handled', 'upload_created', 'upload_refused', 'upload_offered'],
                msg=msg, pre='none', user=0)
        for msg, pre in ([('queue', 'FAILED')] if q else [('queue', 'FAILED'), ('queue', 'COMPLETE'), ('request', 'ABORTED')]):
            job('request', h_request, cfg, ops, ['request_handled'], msg=msg, pre=pre)
        for pre in (['QUEUED', 'ABORTED'] if q else PRE_STATES):
            req = ['cycle_done']
            if pre in UNFINISHED:
                req += ['upload_aborted_by_change', 'permitted_upload_kept']
            if pre == 'ABORTED':
                req += ['upload_requeued', 'user_abort_kept', 'change_abort_kept']
            job('cycle', h_cycle, cfg, ops, req, pre=pre, user=0)
    deep0 = [['Music', 'everyone'], ['Rock', 'friends'], ['Live', 'users']]
    change_job(deep0, ['remove_dir'], fidx=2)                                  # removes Live: its file falls to Rock (friends)
    change_job([['Music', 'everyone'], ['Rock', 'users']], ['add_live'], fidx=2)
    if not q:
        change_job(deep0, ['remove_dir', 'remove_dir'], requires=('initially_queued', 'change_done'), fidx=2)
        change_job([['Music', 'friends'], ['Rock', 'users'], ['Live', 'everyone']], ['remove_dir', 'mode'],
                   requires=('initially_queued', 'change_done'), fidx=2, msg='request')
        change_job([['Music', 'users'], ['Rock', 'everyone'], ['Live', 'friends']], ['remove_dir', 'friends'],
                   requires=('initially_queued', 'change_done'), fidx=2)
    return out
