"""C02: malformed or hostile bytes never crash a reader or desynchronise the stream.

The REAL DataConnection.decode_message_data -> dispatcher -> every deserialize run on frames whose bytes are z3 BV8 terms
(engine/codec.py); the REAL _read_message / _read / receive_message / receive_message_object / _message_reader_loop /
_perform_message_callback, ListeningConnection.accept and Network.on_peer_accepted / on_message_received / on_state_changed
run on the virtual loop with byte-accurate fake streams (engine/c02env.py) whose content - header bytes included - is
symbolic.  Which frame of a scenario is bad, what kind of bad, the connection kind and the TCP segmentation are finite
discriminants; every byte, length prefix, message code, array count, string length and obfuscation key is a solver variable."""
from __future__ import annotations

import asyncio
import contextlib
import json
import os
import zlib

import z3

from engine import symex, codec, c02env
from engine.codec import SBytes, SStr, SWord
from engine.symex import SBool
from engine.vloop import VLoop
from engine.c02env import (FakeReader, FakeWriter, Unbounded, NONTERMINATION, watchdog, le_value, ref_plain, ref_obfuscate, v_eq, v_ugt, terms,
                           same_bytes, cut)

import aioslsk.protocol.primitives as P
import aioslsk.protocol.messages as M
import aioslsk.protocol.obfuscation as O
from aioslsk.events import EventBus, MessageReceivedEvent, ConnectionStateChangedEvent, PeerInitializedEvent
from aioslsk.exceptions import MessageDeserializationError, ConnectionReadError
from aioslsk.network.connection import (DataConnection, ServerConnection, PeerConnection, ListeningConnection,
                                        PeerConnectionState, ConnectionState, CloseReason)
from aioslsk.network.network import Network, ExpectedResponse
from aioslsk.settings import Settings, CredentialsSettings

PROPERTY = 'C02'
VERIF = os.path.dirname(os.path.dirname(os.path.abspath(__file__)))
LAYOUT = json.load(open(os.path.join(VERIF, 'spec', 'wire_layout.json')))
MESSAGES = LAYOUT['messages']
INTS = {'uint8': (1, False), 'uint16': (2, False), 'uint32': (4, False), 'uint64': (8, False), 'int32': (4, True)}

GROUPS = ('server', 'peer_init', 'peer', 'distributed')
IDW = {'server': 4, 'peer': 4, 'peer_init': 1, 'distributed': 1}          # width of the code the dispatcher reads
RECEIVED_KIND = {'server': 'Response', 'peer_init': 'Request', 'peer': 'Request', 'distributed': 'Request'}
# pinned: codes the client can receive per connection kind
KNOWN = {g: {v['id']: k for k, v in MESSAGES.items() if v['group'] == g and v['kind'] == RECEIVED_KIND[g]} for g in GROUPS}

_BASES = {'server': M.ServerMessage, 'peer_init': M.PeerInitializationMessage, 'peer': M.PeerMessage, 'distributed': M.DistributedMessage}
IN_CODE = {g: {int(getattr(s, RECEIVED_KIND[g]).MESSAGE_ID) & (256 ** IDW[g] - 1) for s in b.__subclasses__() if getattr(s, RECEIVED_KIND[g], None)}
           for g, b in _BASES.items()}

BOUNDS = {
    # N: max number of body bytes (code + payload) of a fully symbolic frame per connection kind; Z: max decompressed payload
    'quick': {'N': {'server': 12, 'peer': 14, 'peer_init': 14, 'distributed': 14}, 'Z': 22, 'T': 16, 'any': 6, 'init_any': 8,
              'splits': False, 'long': [120, 125, 129, 140], 'long_k': 3,
              'huge': [65536, 65537]},
    'thorough': {'N': {'server': 20, 'peer': 24, 'peer_init': 22, 'distributed': 24}, 'Z': 32, 'T': 22, 'any': 10, 'init_any': 15,
                 'splits': True, 'long': list(range(118, 141)) + [252, 260, 300], 'long_k': 8,
                 'huge': [65535, 65536, 65537, 65540, 70000, 131072, 131073, 200000]},
}


# ------------------------------------------------------------------------------------------------------------------
# small helpers that work on python values (concrete replay) and on proxies (exploration)
# ------------------------------------------------------------------------------------------------------------------

def le(v, nb, signed=False):
    """little-endian byte terms of an integer leaf (python int or SWord of exactly 8*nb bits)"""
    if isinstance(v, SWord):
        assert v.bits == 8 * nb
        return [codec._norm(z3.Extract(8 * i + 7, 8 * i, v.e)) for i in range(nb)]
    return list(int(v).to_bytes(nb, 'little', signed=signed))


def enc_leaf(t, v):
    if t in INTS:
        return le(v, *INTS[t])
    if t == 'boolean':
        return [codec._norm(z3.If(v.e, z3.BitVecVal(1, 8), z3.BitVecVal(0, 8))) if isinstance(v, SBool) else (1 if v else 0)]
    if t == 'string':
        bs = list(v.raw.b) if isinstance(v, SStr) else list(v.encode('utf-8'))
        return le(len(bs), 4) + bs
    raise symex.HarnessError(f'enc_leaf {t}')


def frame_of(code, idw, payload):
    body = le(code, idw) + list(payload)
    return le(len(body), 4) + body


def resolve(name):
    a, b = name.split('.')
    return getattr(getattr(M, a), b)


def filled_text(g, name, k, filler):
    """text of k symbolic bytes (any well-formed UTF-8 of that length) followed by `filler` concrete ASCII bytes"""
    head = g.text(name, k)
    tail = 'abcdefghijklmnopqrstuvwxyz0123456789'
    tail = (tail * (filler // len(tail) + 1))[:filler]
    if isinstance(head, SStr):
        return SStr(SBytes(list(head.raw.b) + list(tail.encode())), 'utf-8')
    return head + tail


def build(g, name, tag, text_len=2, fixed=None, long=None):
    """a valid message of pinned class `name` with fresh symbolic leaves: (expected object, plain frame terms).
    The bytes come from the pinned layout through the reference encoder above, not from the code under test.
    long = {field: (symbolic bytes, concrete filler bytes)} makes that text long."""
    L = MESSAGES[name]
    kw, payload = {}, []
    for f in L['fields']:
        if any(k in f for k in ('optional', 'if_true', 'if_false')) or f['type'] not in (*INTS, 'boolean', 'string'):
            raise symex.HarnessError(f'build: {name}.{f["name"]} is not a plain leaf')
        n = f['name']
        if fixed and n in fixed:
            v = fixed[n]
        elif f['type'] in INTS:
            v = g.word(f'{tag}.{n}', 8 * INTS[f['type']][0], INTS[f['type']][1])
        elif f['type'] == 'boolean':
            v = g.boolean(f'{tag}.{n}')
        elif long and n in long:
            v = filled_text(g, f'{tag}.{n}', *long[n])
        else:
            v = g.text(f'{tag}.{n}', text_len)
        kw[n] = v
        payload += enc_leaf(f['type'], v)
    return resolve(name)(**kw), frame_of(L['id'], L['id_width'], payload)


def msg_equal(c, got, exp):
    """python bool / z3 Bool: same class and equal fields"""
    if type(got) is not type(exp):
        return False
    if c.symbolic:
        return codec.eq_formula(got, exp)
    try:
        return bool(got == exp)
    except Exception:  # noqa
        return False


def assume(c, cond):
    if cond is True:
        return
    c.assume(cond)


def not_in(v, values):
    return codec._and(*[codec._not(v_eq(v, k)) for k in values])


def mod_eq(v, m, r):
    if isinstance(v, int):
        return v % m == r
    return z3.URem(v, z3.BitVecVal(m, v.size())) == r


def make_connection(group, obf):
    if group == 'server':
        return ServerConnection('server', 2416, None, obfuscated=obf)
    conn = PeerConnection('1.2.3.4', 1234, None, obfuscated=obf, connection_type='D' if group == 'distributed' else 'P')
    conn.connection_state = PeerConnectionState.AWAITING_INIT if group == 'peer_init' else PeerConnectionState.ESTABLISHED
    return conn


REJECT_CLASS = {'error': 'short_or_truncated', 'UnknownMessageError': 'unknown_code', 'UnicodeDecodeError': 'undecodable_text',
                'Exception': 'lying_string_length', 'ValueError': 'code_mismatch', 'OSError': 'bad_address'}


def classify(exc):
    cause = exc.__cause__
    if isinstance(cause, zlib.error):
        return 'corrupt_zlib'
    return REJECT_CLASS.get(type(cause).__name__, 'other:' + type(cause).__name__)


# ------------------------------------------------------------------------------------------------------------------
# H1: parser totality + termination on fully symbolic frames (clauses a, b)
# ------------------------------------------------------------------------------------------------------------------

WATCHDOG_S = 3.0          # concrete decode of a frame of a few hundred bytes takes microseconds
WATCHDOG_STREAM_S = 10.0  # concrete replay of a whole reader scenario


def guard(c, concrete_data=False, seconds=WATCHDOG_S):
    """watchdog for concrete executions (concrete replay, or exploration of fully concrete data); exploration of symbolic data is
    bounded by the counting monitors (range, decompressobj stand-in)"""
    if c.symbolic and not concrete_data:
        return contextlib.nullcontext()
    return watchdog(seconds)


def decode_checked(c, conn, wire, frame_len, sig, idv=None, group=None):
    """run the real decode_message_data on `wire`; obligations of clause (a)/(b); returns the message or None"""
    with c02env.monitor(frame_len) as mon:
        try:
            with guard(c):
                r = conn.decode_message_data(wire)
        except MessageDeserializationError as e:
            c.reach('rejected:' + classify(e))
            r = None
        except NONTERMINATION as e:
            c.check(False, 'parse_terminates', sig=sig, info=str(e))
            return None
        except Exception as e:  # noqa
            c.check(False, 'only_deserialization_error_escapes', sig=sig + [type(e).__name__], info=repr(e))
            return None
        iters = mon.max_iter
    c.check(True, 'only_deserialization_error_escapes', sig=sig)
    c.check(iters <= frame_len, 'parse_terminates', sig=sig)
    if r is not None:
        c.reach('accepted')
        ok = isinstance(r, P.MessageDataclass)
        c.check(ok, 'yields_message', sig=sig, info=type(r).__qualname__)
        if ok and idv is not None:
            # the class of the yielded message carries the code that is on the wire
            c.check(v_eq(idv, int(type(r).MESSAGE_ID)), 'yields_message', sig=sig, info=type(r).__qualname__)
    return r


def h_parse(c, group, obf, n, part=0, parts=1):
    """frame = [key] + length prefix + n body bytes, ALL symbolic (the parser ignores the value of the prefix).
    Jobs partition the space by (wire code mod parts)."""
    g = codec.Gen(c)
    hdr = 8 if obf else 4
    wire = g.raw('wire', hdr + n)
    plain = ref_plain(terms(wire), obf)
    idw = IDW[group]
    sig = [group, 'obfuscated' if obf else 'plain']
    idv = None
    if n >= idw:
        idv = le_value(plain[4:4 + idw])
        if parts > 1:
            assume(c, mod_eq(idv, parts, part))
    conn = make_connection(group, obf)
    with codec.installed(c.symbolic):
        decode_checked(c, conn, wire, hdr + n, sig, idv, group)
    c.reach('parsed')


COMPRESSED = sorted(k for k, v in MESSAGES.items() if v['compressed'] and v['group'] == 'peer' and v['kind'] == 'Request')


def h_compressed(c, cls_name, m):
    """compressed classes: a zlib container around m fully symbolic payload bytes, either COMPLETE (exploration: tagged identity
    ZTAG + payload; replay: real zlib.compress of the model bytes) or TRUNCATED - a valid prefix of a stream that yields the
    payload and then never reaches its end (exploration: ZTRUNC + payload; replay: a real sync-flushed stream without end marker)"""
    L = MESSAGES[cls_name]
    g = codec.Gen(c)
    payload = g.raw('payload', m)
    truncated = c.choose(2, 'stream') == 1
    if c.symbolic:
        body = list(codec.ZTRUNC if truncated else codec.ZTAG) + terms(payload)
    elif truncated:
        co = zlib.compressobj()
        body = list(co.compress(bytes(payload)) + co.flush(zlib.Z_SYNC_FLUSH))
    else:
        body = list(zlib.compress(bytes(payload)))
    fr = frame_of(L['id'], L['id_width'], body)
    wire = SBytes(fr) if c.symbolic else bytes(fr)
    conn = make_connection('peer', False)
    codec.ZLIB_MODEL['truncated_tag'] = True
    try:
        with codec.installed(c.symbolic):
            decode_checked(c, conn, wire, len(fr), ['peer', 'truncated_stream' if truncated else 'compressed', cls_name], L['id'], 'peer')
    finally:
        codec.ZLIB_MODEL['truncated_tag'] = False
    if truncated:
        c.reach('truncated_stream')      # (rejected or parsed from the partial output: both are fine, it only has to end)
    c.reach('parsed')


def _samples():
    A, F, D = P.Attribute, P.FileData, P.DirectoryData
    f1 = F(1, 'a\\b.mp3', 1234567, 'mp3', [A(0, 320), A(1, 200)])
    f2 = F(1, 'a\\c.flac', 5, 'flac', [])
    return {
        'PeerSharesReply.Request': M.PeerSharesReply.Request(directories=[D('a', [f1, f2]), D('b', [])], unknown=0,
                                                             locked_directories=[D('l', [f2])]),
        'PeerSearchReply.Request': M.PeerSearchReply.Request(username='user', ticket=77, results=[f1, f2], has_slots_free=True,
                                                             avg_speed=1000, queue_size=3, unknown=0, locked_results=[f2]),
        'PeerDirectoryContentsReply.Request': M.PeerDirectoryContentsReply.Request(ticket=5, directory='a', directories=[D('a', [f1])]),
    }


N_CORRUPT = 64


def corruptions(body: bytes):
    """64 concrete corruptions of a real zlib stream (header, deflate data, adler32, truncation, garbage, valid stream around garbage)"""
    out = []
    n = len(body)
    for i in range(16):                                  # one bit in each of the first 16 bytes
        b = bytearray(body)
        b[i % n] ^= 1 << (i % 8)
        out.append(bytes(b))
    for i in range(1, 9):                                # the last 8 bytes (end of deflate data + adler32)
        b = bytearray(body)
        b[n - i] ^= 0x10
        out.append(bytes(b))
    for k in (1, 2, 3, 4, 5, 8, n // 2, n - 1):          # truncations
        out.append(body[:n - k])
    for i in range(8):                                   # a byte in the middle replaced
        b = bytearray(body)
        j = 2 + (i * (n - 6)) // 8
        b[j] = (b[j] + 0x55) & 0xff
        out.append(bytes(b))
    out += [b'', b'\x78', b'\x78\x9c', b'\x00' * 8, b'\xff' * 8, body + b'\x00', body[2:], body[:2] + body[3:]]
    raw = zlib.decompress(body)
    for k in (1, 2, 4, 7):                               # valid streams around a truncated payload
        out.append(zlib.compress(raw[:len(raw) - k]))
    out.append(zlib.compress(raw[:4] + b'\xff\xff\xff\xff' + raw[8:]))       # a count of 2^32-1
    out.append(zlib.compress(b'\xff\xff\xff\xff'))
    out.append(zlib.compress(b''))
    out.append(zlib.compress(raw + raw))
    for i in range(8):                                   # valid streams around a payload with one byte changed
        r = bytearray(raw)
        j = (i * len(r)) // 8
        r[j] ^= 0x80 >> (i % 8) or 1
        out.append(zlib.compress(bytes(r)))
    assert len(out) == N_CORRUPT, len(out)
    return out


def h_zlib(c, cls_name):
    """corrupt zlib: CONCRETE bytes through the real zlib (enumerated, not symbolic - stated in META)"""
    L = MESSAGES[cls_name]
    sample = _samples()[cls_name]
    raw = bytes(sample.serialize())
    body = raw[8:]
    k = c.choose(N_CORRUPT, 'corruption')
    fr = frame_of(L['id'], 4, list(corruptions(body)[k]))
    wire = SBytes(fr) if c.symbolic else bytes(fr)
    conn = make_connection('peer', False)
    sig = ['peer', 'corrupt_zlib', cls_name]
    with codec.installed(c.symbolic), c02env.monitor(len(fr)):
        try:
            with guard(c, concrete_data=True):       # real zlib, real loops, concrete bytes: a hang must not hang the job
                r = conn.decode_message_data(wire)
            c.reach('accepted')
            c.check(isinstance(r, P.MessageDataclass), 'corrupt_zlib_rejected_or_message', sig=sig)
            c.check(True, 'parse_terminates', sig=sig)
        except MessageDeserializationError as e:
            c.reach('rejected:' + classify(e))
            c.check(True, 'corrupt_zlib_rejected_or_message', sig=sig)
            c.check(True, 'parse_terminates', sig=sig)
        except NONTERMINATION as e:
            c.check(False, 'parse_terminates', sig=sig, info={'corruption': k, 'why': str(e)})
        except Exception as e:  # noqa
            c.check(False, 'corrupt_zlib_rejected_or_message', sig=sig + [type(e).__name__], info=repr(e))
    c.reach('parsed')


# ------------------------------------------------------------------------------------------------------------------
# environment for the stream harnesses
# ------------------------------------------------------------------------------------------------------------------

class SymDict(dict):
    """dict whose lookups by a symbolic key compare against the stored keys (forks) instead of hashing"""

    def __getitem__(self, k):
        if isinstance(k, (int, str)):
            return dict.__getitem__(self, k)
        for kk, v in list(self.items()):
            if kk == k:
                return v
        raise KeyError('symbolic key')

    def get(self, k, default=None):
        try:
            return self[k]
        except KeyError:
            return default

    def __contains__(self, k):
        try:
            self[k]
            return True
        except KeyError:
            return False

    def pop(self, k, *default):
        if isinstance(k, (int, str)):
            return dict.pop(self, k, *default)
        for kk in list(self.keys()):
            if kk == k:
                return dict.pop(self, kk)
        if default:
            return default[0]
        raise KeyError('symbolic key')


class Env:
    """real Network (real constructor, real Settings, real EventBus) on a VLoop with fake streams"""

    def __init__(self, c, loop, st):
        self.c, self.loop, self.st = c, loop, st
        settings = Settings(credentials=CredentialsSettings(username='me', password='pw'))
        settings.network.upnp.enabled = False
        settings.network.server.reconnect.auto = False
        self.bus = EventBus()
        self.tasks = []            # (coroutine qualname, self of the coroutine, task)

        def factory(lp, coro):
            t = asyncio.Task(coro, loop=lp)
            fr = getattr(coro, 'cr_frame', None)
            self.tasks.append((getattr(coro, '__qualname__', ''), fr.f_locals.get('self') if fr is not None else None, t))
            return t
        loop.set_task_factory(factory)
        self.net = loop.call(Network, settings, self.bus)
        if c.symbolic:
            self.net._expected_connection_futures = SymDict()
        self.msgs, self.states, self.inits = [], [], []
        self.raise_in_listener = False

        def on_msg(ev):
            self.msgs.append((ev.message, ev.connection))
            if self.raise_in_listener:
                raise RuntimeError('listener failure (scripted)')

        def on_state(ev):
            self.states.append((ev.connection, ev.state, ev.close_reason))

        def on_init(ev):
            self.inits.append(ev.connection)
        self._keep = (on_msg, on_state, on_init)
        self.bus.register(MessageReceivedEvent, on_msg)
        self.bus.register(ConnectionStateChangedEvent, on_state)
        self.bus.register(PeerInitializedEvent, on_init)
        self.server_reader = self.server_writer = None

    def start(self):
        """Network.initialize() (listening ports + server connection) and, like SoulSeekClient.login, the server reader"""
        self.loop.run_until_complete(self.net.initialize())
        _, _, self.server_reader, self.server_writer = self.st.outgoing[0]
        self.loop.call(self.net.server_connection.start_reader_task)
        self.loop.run_ready()

    def incoming(self, obf_port, peer=('9.9.9.9', 999)):
        """a peer connects to one of our listening ports: real ListeningConnection.accept in its own task"""
        lc = self.net.listening_connections[1 if obf_port else 0]
        srv = self.st.servers[lc.port]
        r, w = FakeReader(self.c.symbolic), FakeWriter(peername=peer, sockname=('10.0.0.1', lc.port))
        task = srv.incoming(self.loop, r, w)
        self.loop.run_ready()
        conns = [x for x in self.net.peer_connections if x._reader is r]
        if len(conns) != 1:
            raise symex.HarnessError('accepted connection not registered')
        return conns[0], r, w, task

    def reader_tasks(self, conn):
        return [t for q, s, t in self.tasks if q.endswith('_message_reader_loop') and s is conn]

    def alive(self, conn):
        return any(not t.done() for t in self.reader_tasks(conn))

    def dead_tasks(self):
        """tasks that ended with an exception nobody asked for (what would reach the loop exception handler)"""
        out = []
        for q, s, t in self.tasks:
            if t.done() and not t.cancelled() and t.exception() is not None:
                out.append((q, repr(t.exception())))
        return out

    def delivered(self, conn):
        return [m for m, cn in self.msgs if cn is conn]

    def feed(self, reader, segments):
        for s in segments:
            reader.feed_data(s)
            self.loop.run_ready()

    def closed_events(self, conn):
        return [1 for cn, s, _ in self.states if cn is conn and s == ConnectionState.CLOSED]


def segmentations(frames_wire, which):
    """cut points (absolute positions) for a stream made of the given wire frames"""
    total = sum(len(f) for f in frames_wire)
    bounds, p = [], 0
    for f in frames_wire:
        bounds.append((p, p + len(f)))
        p += len(f)
    if which == 'all':
        return []
    if which == 'bytes':
        return list(range(1, total))
    if which == 'frames':
        return [b for _, b in bounds]
    if which == 'mid':        # inside every header and one byte before every frame end: no cut on a frame boundary
        pts = []
        for a, b in bounds:
            pts += [a + 2, b - 1]
        return [x for x in pts if all(x != bb for _, bb in bounds)]
    if which == 'straddle':   # segments that contain the end of one frame and the start of the next header
        return [a + 3 for a, _ in bounds]
    raise symex.HarnessError(which)


SEGS = ['all', 'bytes', 'mid', 'frames', 'straddle']

VALID = {'server': ('GetUserStatus.Response', 'CannotCreateRoom.Response'),
         'peer': ('PeerPlaceInQueueReply.Request', 'PeerUploadFailed.Request'),
         'distributed': ('DistributedBranchLevel.Request', 'DistributedBranchRoot.Request')}
LEADING_STRING = {'server': 'GetUserStatus.Response', 'peer': 'PeerTransferQueue.Request', 'distributed': 'DistributedBranchRoot.Request',
                  'peer_init': 'PeerInit.Request'}
ONLY_STRING = {'server': 'CannotCreateRoom.Response', 'peer': 'PeerTransferQueue.Request', 'distributed': 'DistributedBranchRoot.Request'}

# kind -> (group after initialisation, accepted on the obfuscated port, PeerInit typ, obfuscated after initialisation)
KINDS = {'server': ('server', None, None, False),
         'peer': ('peer', False, 'P', False),
         'peer_obf': ('peer', True, 'P', True),
         'dist': ('distributed', False, 'D', False),
         'dist_via_obf': ('distributed', True, 'D', False)}

BAD_KINDS = ['short0', 'short1', 'short2', 'short3', 'unknown_code', 'lying_string', 'lying_count', 'bad_text', 'truncated',
             'any', 'corrupt_zlib', 'callback_raises']


def bad_frame(c, g, group, bad, n_any=6):
    """(plain frame terms, verdict, message expected to be delivered for it or None)
    verdict 'bad': the reference says no message may come out of it; 'maybe': the real parser decides (at most one)"""
    idw = IDW[group]
    if bad.startswith('short'):
        k = int(bad[5:])
        body = terms(g.raw('bad.body', k))
        return le(k, 4) + body, ('bad' if k < idw else 'maybe'), None
    if bad == 'unknown_code':
        code = terms(g.raw('bad.code', idw))
        assume(c, not_in(le_value(code), sorted(set(KNOWN[group]) | IN_CODE[group])))      # a code neither the pinned table nor the code knows
        return frame_of(0, 0, code + terms(g.raw('bad.payload', 2))), 'bad', None
    if bad == 'lying_string':
        L = MESSAGES[LEADING_STRING[group]]
        ln, tail = terms(g.raw('bad.len', 4)), terms(g.raw('bad.tail', 3))
        assume(c, v_ugt(le_value(ln), len(tail)))
        return frame_of(L['id'], L['id_width'], ln + tail), 'bad', None
    if bad == 'lying_count':
        L = MESSAGES['PrivilegedUsers.Response']
        cnt, tail = terms(g.raw('bad.count', 4)), terms(g.raw('bad.tail', 5))
        assume(c, v_ugt(le_value(cnt), len(tail)))          # every element needs >= 4 bytes
        return frame_of(L['id'], L['id_width'], cnt + tail), 'bad', None
    if bad == 'bad_text':
        txt = terms(g.raw('bad.text', 2))
        assume(c, codec._and(codec._not(codec.utf8_wellformed(txt)), codec._not(codec.cp1252_defined(txt))))
        if group == 'peer_init':
            L = MESSAGES['PeerInit.Request']
            payload = le(2, 4) + txt + enc_leaf('string', 'P') + terms(g.raw('bad.ticket', 4))
        else:
            L = MESSAGES[ONLY_STRING[group]]
            payload = le(2, 4) + txt
        return frame_of(L['id'], L['id_width'], payload), 'bad', None
    if bad == 'truncated':
        name = 'PeerInit.Request' if group == 'peer_init' else VALID[group][0]
        _, fr = build(g, name, 'bad', fixed={'typ': 'P'} if group == 'peer_init' else None)
        body = fr[4:-1]
        return le(len(body), 4) + body, 'bad', None
    if bad == 'incomplete_eof':        # the prefix announces more than is sent before the peer closes the stream
        ln, tail = terms(g.raw('bad.len', 4)), terms(g.raw('bad.tail', 3))
        assume(c, v_ugt(le_value(ln), len(tail)))
        return ln + tail, 'bad', None
    if bad == 'any':
        body = terms(g.raw('bad.body', n_any))
        return le(n_any, 4) + body, 'maybe', None
    if bad == 'corrupt_zlib':
        body = bytes(_samples()['PeerSharesReply.Request'].serialize())[8:]
        k = c.choose(16, 'corruption')
        return frame_of(5, 4, list(corruptions(body)[4 * k])), 'maybe', None
    if bad == 'callback_raises':
        obj, fr = build(g, VALID[group][0], 'bad')
        return fr, 'valid', obj
    raise symex.HarnessError(bad)


def applicable(kind, bad):
    group = KINDS[kind][0]
    if bad == 'lying_count':
        return group == 'server'
    if bad == 'corrupt_zlib':
        return group == 'peer'
    return True


def to_wire(g, frames):
    """frames: [(plain terms, obfuscated?)] -> list of wire frames (each obfuscated frame gets its own symbolic key)"""
    out = []
    for i, (plain, obf) in enumerate(frames):
        out.append(ref_obfuscate(plain, terms(g.raw(f'key{i}', 4))) if obf else list(plain))
    return out


def check_delivered(c, got, want, verdict, label, sig):
    """got: delivered messages; want: [first, (maybe middle), last]"""
    first, middle, last = want
    exp = [first] + ([middle] if middle is not None else []) + [last]
    if verdict == 'maybe' and len(got) == len(exp) + 1:
        ok = codec._and(msg_equal(c, got[0], first), isinstance(got[1], P.MessageDataclass), msg_equal(c, got[2], last))
    elif len(got) == len(exp):
        ok = codec._and(*[msg_equal(c, a, b) for a, b in zip(got, exp)])
    else:
        ok = False
    c.check(ok, label, sig=sig, info={'delivered': [type(m).__qualname__ for m in got], 'expected': [type(m).__qualname__ for m in exp]})


# ------------------------------------------------------------------------------------------------------------------
# H2: framing with symbolic length prefixes through the real receive_message/_read/_read_message (clause c)
# ------------------------------------------------------------------------------------------------------------------

def h_frames(c, obf, T, seg, first=None):
    """a stream of T fully symbolic bytes, then EOF.  receive_message() is called until it reports the end; every frame
    it returns must be exactly the next (header + prefix-many) bytes of the stream per the reference framing."""
    sig = ['obfuscated' if obf else 'plain']
    hdr = 8 if obf else 4
    loop = VLoop()
    g = codec.Gen(c)
    stream = terms(g.raw('stream', T))
    if first is not None:
        # long first frame: its (symbolic, possibly obfuscated) prefix is constrained to announce exactly `first` bytes
        assume(c, v_eq(le_value(ref_plain(stream[:hdr], obf)[:4]), first))
    if seg == 'all':
        cuts = []
    elif seg == 'bytes':
        cuts = list(range(1, T))
    else:
        cuts = [int(seg)]
    try:
        with c02env.streams(c.symbolic) as st, codec.installed(c.symbolic):
            env = Env(c, loop, st)
            conn = PeerConnection('5.5.5.5', 5555, env.net, obfuscated=obf)
            loop.run_until_complete(conn.connect())
            _, _, reader, writer = st.outgoing[-1]
            got, end = [], []

            async def consume():
                while True:
                    p0 = reader.consumed
                    try:
                        data = await conn.receive_message()
                    except ConnectionReadError:
                        end.append('read_error')
                        return
                    if data is None:
                        end.append('eof')
                        return
                    got.append((p0, data, reader.consumed))
                    if len(got) > T:
                        end.append('runaway')
                        return
            task = loop.spawn(consume())
            env.feed(reader, cut(stream, cuts))
            reader.feed_eof()
            loop.run_ready()
            done = task.done()
            c.check(done and not task.cancelled() and task.exception() is None and end and end[0] != 'runaway', 'framing_terminates',
                    sig=sig, info=repr(task.exception()) if done and not task.cancelled() else 'pending')
            if not done:
                return
            c.reach('framed')
            pos = 0
            for p0, data, p1 in got:
                n_ref = le_value(ref_plain(stream[p0:p0 + hdr], obf)[:4])
                ok = codec._and(p0 == pos, p1 - p0 >= hdr, v_eq(n_ref, p1 - p0 - hdr), same_bytes(data, stream[p0:p1]))
                c.check(ok, 'frame_is_header_plus_prefix_bytes', sig=sig, info={'frame_at': p0, 'next_at': p1})
                c.reach('frame_returned')
                pos = p1
            rest = T - pos
            if rest >= hdr:
                # the reader stopped although a full header was left: the reference says that frame is incomplete
                n_ref = le_value(ref_plain(stream[pos:pos + hdr], obf)[:4])
                c.check(v_ugt(n_ref, rest - hdr), 'incomplete_frame_not_delivered', sig=sig, info={'at': pos, 'rest': rest})
                c.reach('incomplete_tail')
            c.check(conn.state == ConnectionState.CLOSED and writer.closed, 'stream_end_closes_connection', sig=sig + end[:1])
            c.check(not loop.errors and not env.dead_tasks(), 'no_task_died', sig=sig, info=repr(loop.errors[:1] + env.dead_tasks()[:1]))
    finally:
        loop.cleanup()


# ------------------------------------------------------------------------------------------------------------------
# H3: the reader loop - valid, bad, valid (clause d)
# ------------------------------------------------------------------------------------------------------------------

class Raiser:
    """field matcher of an ExpectedResponse that raises: makes Network.on_message_received raise inside the reader's callback"""

    def __init__(self):
        self.calls = 0

    def __call__(self, v):
        self.calls += 1
        raise RuntimeError('matcher failure (scripted)')


def h_reader(c, kind, bad, n_any=6):
    group, obf_port, typ, obf_after = KINDS[kind]
    sig = [kind, bad]
    loop = VLoop()
    g = codec.Gen(c)
    try:
        with c02env.streams(c.symbolic) as st, codec.installed(c.symbolic):
            env = Env(c, loop, st)
            env.start()
            frames = []
            if group != 'server':
                _, init_plain = build(g, 'PeerInit.Request', 'init', fixed={'typ': typ})
                frames.append((init_plain, obf_port))
            v1, v1_plain = build(g, VALID[group][0], 'v1')
            bad_plain, verdict, mid = bad_frame(c, g, group, bad, n_any)
            v2, v2_plain = build(g, VALID[group][1], 'v2')
            frames += [(v1_plain, obf_after), (bad_plain, obf_after), (v2_plain, obf_after)]
            g.commit()
            wire = to_wire(g, frames)
            seg = c.pick(SEGS, 'segmentation')
            c.note('segmentation', seg)
            if group == 'server':
                conn, reader, writer = env.net.server_connection, env.server_reader, env.server_writer
            else:
                conn, reader, writer, _ = env.incoming(obf_port)
            raiser = None
            if bad == 'callback_raises':
                raiser = Raiser()
                fut = ExpectedResponse(type(conn), resolve(VALID[group][0]), fields={MESSAGES[VALID[group][0]]['fields'][0]['name']: raiser},
                                       loop=loop)
                env.net.register_response_future(fut)
                env.raise_in_listener = True
            stream = [t for f in wire for t in f]
            with c02env.monitor(len(stream)):
                try:
                    with guard(c, seconds=WATCHDOG_STREAM_S):
                        env.feed(reader, cut(stream, segmentations(wire, seg)))
                except NONTERMINATION as e:
                    c.check(False, 'parse_terminates', sig=sig, info=str(e))
                    return
                c.reach('stream_fed')
                # ---- all bytes delivered, connection still open -------------------------------------------------
                got = env.delivered(conn)
                check_delivered(c, got, (v1, mid, v2), verdict, 'valid_frames_delivered_once_in_order', sig)
                if raiser is not None:
                    c.check(raiser.calls >= 1, 'callback_raised', sig=sig)      # vacuity guard of this variant
                c.check(env.alive(conn) == (conn.state != ConnectionState.CLOSED), 'reader_alive_iff_connection_open', sig=sig,
                        info={'alive': env.alive(conn), 'state': conn.state.name})
                c.check(conn.state == ConnectionState.CONNECTED and not writer.closed, 'bad_frame_leaves_connection_open', sig=sig,
                        info=conn.state.name)
                c.check(not loop.errors and not env.dead_tasks(), 'no_task_died', sig=sig, info=repr(loop.errors[:1] + env.dead_tasks()[:1]))
                c.check(reader.consumed == len(stream), 'stream_position_at_end', sig=sig, info={'consumed': reader.consumed, 'fed': len(stream)})
                # ---- EOF: the reader ends together with the connection -------------------------------------------
                reader.feed_eof()
                loop.run_ready()
                c.check(env.alive(conn) == (conn.state != ConnectionState.CLOSED), 'reader_alive_iff_connection_open', sig=sig + ['eof'],
                        info={'alive': env.alive(conn), 'state': conn.state.name})
                c.check(conn.state == ConnectionState.CLOSED and writer.closed, 'stream_end_closes_connection', sig=sig)
                c.check(len(env.delivered(conn)) == len(got), 'valid_frames_delivered_once_in_order', sig=sig + ['eof'])
                c.check(not loop.errors and not env.dead_tasks(), 'no_task_died', sig=sig + ['eof'],
                        info=repr(loop.errors[:1] + env.dead_tasks()[:1]))
    finally:
        loop.cleanup()


SILENCE_CAP = 20          # the silent end of a scenario runs the virtual loop for at most this many read time-outs


def h_stall(c, kind, end):
    """valid frame, then a frame whose (symbolic) length prefix announces more bytes than are ever sent; the stream then
    goes silent (read time-out) or ends (EOF).  Nothing of the incomplete frame may be delivered, the reader may not end while
    the connection is open and must end with it."""
    group, obf_port, typ, obf_after = KINDS[kind]
    sig = [kind, end]
    loop = VLoop()
    g = codec.Gen(c)
    try:
        with c02env.streams(c.symbolic) as st, codec.installed(c.symbolic):
            env = Env(c, loop, st)
            env.start()
            frames = []
            if group != 'server':
                _, init_plain = build(g, 'PeerInit.Request', 'init', fixed={'typ': typ})
                frames.append((init_plain, obf_port))
            v1, v1_plain = build(g, VALID[group][0], 'v1')
            k = c.choose(4, 'sent_body_bytes')
            ln, tail = terms(g.raw('stall.len', 4)), terms(g.raw('stall.body', k))
            assume(c, v_ugt(le_value(ln), k))
            frames += [(v1_plain, obf_after), (ln + tail, obf_after)]
            g.commit()
            wire = to_wire(g, frames)
            seg = c.pick(['all', 'bytes', 'straddle'], 'segmentation')
            c.note('segmentation', seg)
            if group == 'server':
                conn, reader, writer = env.net.server_connection, env.server_reader, env.server_writer
            else:
                conn, reader, writer, _ = env.incoming(obf_port)
            stream = [t for f in wire for t in f]
            with c02env.monitor(len(stream)):
                with guard(c, seconds=WATCHDOG_STREAM_S):
                    env.feed(reader, cut(stream, segmentations(wire, seg)))
                c.reach('stalled')
                got = env.delivered(conn)
                c.check(codec._and(len(got) == 1, msg_equal(c, got[0], v1) if got else False), 'incomplete_frame_not_delivered', sig=sig,
                        info=[type(m).__qualname__ for m in got])
                c.check(env.alive(conn) and conn.state == ConnectionState.CONNECTED, 'reader_alive_iff_connection_open', sig=sig,
                        info={'alive': env.alive(conn), 'state': conn.state.name})
                if end == 'timeout':
                    # silence: no byte is ever fed again.  Jump over the timers until the loop is quiet; WHEN the read deadline
                    # expires is not part of the property (partial data may legitimately extend it), only that the reader does
                    # not wait forever: cap = SILENCE_CAP read time-outs of virtual time
                    loop.run_until_quiet(max_time=loop.time() + SILENCE_CAP * conn.read_timeout)
                else:
                    reader.feed_eof()
                    loop.run_ready()
                c.check(conn.state == ConnectionState.CLOSED and writer.closed and not env.alive(conn), 'stream_end_closes_connection',
                        sig=sig, info={'alive': env.alive(conn), 'state': conn.state.name})
                c.check(len(env.delivered(conn)) == 1, 'incomplete_frame_not_delivered', sig=sig + ['after_end'])
                c.check(not loop.errors and not env.dead_tasks(), 'no_task_died', sig=sig, info=repr(loop.errors[:1] + env.dead_tasks()[:1]))
    finally:
        loop.cleanup()


def text_equal(c, got, exp):
    if c.symbolic:
        for x, y in ((got, exp), (exp, got)):
            if isinstance(x, SStr):
                return x.eq_formula(y)
    return got == exp


def h_long(c, where, n, k):
    """valid frames LONGER than the 124/128-byte key cycle on an obfuscated connection (n = body bytes, code included): the first k
    bytes of the long text are symbolic, the rest is concrete filler, the key of every frame is symbolic.
    where='message': PeerInit, LONG PeerPlaceInQueueReply, short message - on a connection accepted on the obfuscated port;
    where='init': LONG PeerInit (user name), short message."""
    sig = [where, 'over128' if n > 128 else 'over124' if n > 124 else 'upto124']
    loop = VLoop()
    g = codec.Gen(c)
    try:
        with c02env.streams(c.symbolic) as st, codec.installed(c.symbolic):
            env = Env(c, loop, st)
            env.start()
            if where == 'init':
                init, init_plain = build(g, 'PeerInit.Request', 'init', fixed={'typ': 'P'}, long={'username': (k, n - 14 - k)})
                expected = []
            else:
                init, init_plain = build(g, 'PeerInit.Request', 'init', fixed={'typ': 'P'})
                v_long, long_plain = build(g, 'PeerPlaceInQueueReply.Request', 'long', long={'filename': (k, n - 12 - k)})
                expected = [v_long]
            v2, v2_plain = build(g, VALID['peer'][1], 'v2')
            expected.append(v2)
            plains = [init_plain] + ([long_plain] if where != 'init' else []) + [v2_plain]
            if len(plains[0 if where == 'init' else 1]) != 4 + n:
                raise symex.HarnessError('long frame has the wrong size')
            g.commit()
            wire = to_wire(g, [(p, True) for p in plains])
            seg = c.pick(['all', 'mid', 'straddle'], 'segmentation')
            c.note('segmentation', seg)
            conn, reader, writer, _ = env.incoming(True)
            stream = [t for f in wire for t in f]
            with c02env.monitor(len(stream)):
                try:
                    with guard(c, seconds=WATCHDOG_STREAM_S):
                        env.feed(reader, cut(stream, segmentations(wire, seg)))
                except NONTERMINATION as e:
                    c.check(False, 'parse_terminates', sig=sig, info=str(e))
                    return
            c.reach('long_frame_fed')
            ok_init = conn in env.inits and conn.state == ConnectionState.CONNECTED and conn in env.net.peer_connections
            c.check(codec._and(ok_init, text_equal(c, conn.username, init.username) if ok_init else False), 'valid_init_establishes', sig=sig,
                    info={'state': conn.state.name, 'initialised': conn in env.inits})
            got = env.delivered(conn)
            ok = codec._and(*[msg_equal(c, a, b) for a, b in zip(got, expected)]) if len(got) == len(expected) else False
            c.check(ok, 'valid_frames_delivered_once_in_order', sig=sig,
                    info={'delivered': [type(m).__qualname__ for m in got], 'expected': [type(m).__qualname__ for m in expected]})
            c.check(env.alive(conn) == (conn.state != ConnectionState.CLOSED), 'reader_alive_iff_connection_open', sig=sig,
                    info={'alive': env.alive(conn), 'state': conn.state.name})
            c.check(not loop.errors and not env.dead_tasks(), 'no_task_died', sig=sig, info=repr(loop.errors[:1] + env.dead_tasks()[:1]))
            c.check(reader.consumed == len(stream), 'stream_position_at_end', sig=sig, info={'consumed': reader.consumed, 'fed': len(stream)})
    finally:
        loop.cleanup()


def h_inittype(c, obf_port, tlen, end):
    """the connection type string of a DECODABLE PeerInit on an accepted connection is symbolic: any well-formed UTF-8 text of tlen
    bytes (tlen = 1: every ASCII character - P, F, D and 125 others; tlen = 2: every 2-byte text incl. all non-ASCII 2-byte code
    points; tlen = 0: the empty string).  After the init: a valid frame, a frame with an unknown code, then the peer hangs up (EOF)
    or goes silent.  Obligation: never "connection open and nobody reading / timing it"."""
    sig = ['obfuscated_port' if obf_port else 'plain_port', f'type_bytes={tlen}']
    loop = VLoop()
    g = codec.Gen(c)
    try:
        with c02env.streams(c.symbolic) as st, codec.installed(c.symbolic):
            env = Env(c, loop, st)
            env.start()
            net = env.net
            typ = g.text('init.typ', tlen)
            # finite split of the type space (discriminant); inside 'other' the text stays symbolic (D included)
            cls = c.pick(['P', 'F', 'other'], 'type_class') if tlen == 1 else 'other'
            tb = list(typ.raw.b) if isinstance(typ, SStr) else list(typ.encode())
            if cls in ('P', 'F'):
                assume(c, codec._teq(tb[0], ord(cls)))
            elif tlen == 1:
                assume(c, codec._and(codec._not(codec._teq(tb[0], ord('P'))), codec._not(codec._teq(tb[0], ord('F')))))
            sig = sig + [cls]
            init, init_plain = build(g, 'PeerInit.Request', 'init', fixed={'typ': typ})
            group = 'peer' if cls == 'P' else 'distributed'      # how today's code reads the following frames (not demanded)
            obf_after = obf_port and cls == 'P'
            _, v1_plain = build(g, VALID[group][0], 'v1')
            bad_plain, _, _ = bad_frame(c, g, group, 'unknown_code')
            g.commit()
            wire = to_wire(g, [(init_plain, obf_port), (v1_plain, obf_after), (bad_plain, obf_after)])
            conn, reader, writer, task = env.incoming(obf_port)
            stream = [t for f in wire for t in f]
            with c02env.monitor(len(stream)):
                try:
                    with guard(c, seconds=WATCHDOG_STREAM_S):
                        env.feed(reader, cut(stream, segmentations(wire, 'frames')))
                except NONTERMINATION as e:
                    c.check(False, 'parse_terminates', sig=sig, info=str(e))
                    return
            c.reach('init_type_fed')
            c.reach('type_' + cls)

            def watched():
                """somebody reads / times the open connection: the message reader, or - file connections - the owner the
                connection was handed to with PeerInitializedEvent in state NEGOTIATING_TRANSFER (TransferManager in the real
                client; it is not part of this environment, so nothing more is demanded of 'F')"""
                if env.alive(conn):
                    return 'reader'
                if conn in env.inits and conn.connection_state == PeerConnectionState.NEGOTIATING_TRANSFER:
                    return 'file_owner'
                return None

            def is_open():
                return conn.state not in (ConnectionState.CLOSED, ConnectionState.CLOSING) and not writer.closed

            info = {'state': conn.state.name, 'peer_state': conn.connection_state.name, 'watched_by': watched(), 'accept_done': task.done()}
            c.check(not is_open() or watched() is not None, 'open_connection_is_read', sig=sig, info=info)
            c.check(not loop.errors and not env.dead_tasks(), 'no_task_died', sig=sig, info=repr(loop.errors[:1] + env.dead_tasks()[:1]))
            owner = watched()
            if owner == 'file_owner':
                c.reach('file_connection_handed_over')       # closed by its owner (transfer code), outside this check
                return
            if end == 'eof':
                reader.feed_eof()
                loop.run_ready()
            else:
                loop.run_until_quiet(max_time=loop.time() + SILENCE_CAP * conn.read_timeout)
            info = {'state': conn.state.name, 'writer_closed': writer.closed, 'registered': conn in net.peer_connections,
                    'alive': env.alive(conn)}
            c.check(conn.state == ConnectionState.CLOSED and writer.closed and conn not in net.peer_connections and not env.alive(conn),
                    'stream_end_closes_connection', sig=sig + [end], info=info)
            c.check(not loop.errors and not env.dead_tasks(), 'no_task_died', sig=sig + [end], info=repr(loop.errors[:1] + env.dead_tasks()[:1]))
    finally:
        loop.cleanup()


HUGE_FILLER = b'abcdefghijklmnopqrstuvwxyz0123456789'


def h_huge(c, obf, n, seg):
    """one frame with a body of n > 64 KiB bytes (n includes the 4 code bytes) on an accepted peer connection, followed by two small
    valid frames.  Symbolic: the 4 bytes of the message code of the huge frame (so the solver decides valid / unknown code /
    undecodable: codes 43, 46, 51 make it a valid message with a huge file name), every leaf and key of the followers and of the
    PeerInit.  Concrete: the length prefix, the string length and the ASCII filler (and, obfuscated, the key of the huge frame) so
    that nothing is bit-blasted.  seg: 'all' (coalesced), 'inside' (cut in the middle of the huge frame, its end coalesced with
    the followers), 'followers_apart' (cuts at every frame boundary)."""
    sig = ['obfuscated' if obf else 'plain', 'over_64KiB' if n > 65536 else 'upto_64KiB', seg]
    loop = VLoop()
    g = codec.Gen(c)
    try:
        with c02env.streams(c.symbolic) as st, codec.installed(c.symbolic):
            env = Env(c, loop, st)
            env.start()
            _, init_plain = build(g, 'PeerInit.Request', 'init', fixed={'typ': 'P'})
            code = terms(g.raw('huge.code', 4))
            flen = n - 8
            filler = list((HUGE_FILLER * (flen // len(HUGE_FILLER) + 1))[:flen])
            huge_plain = le(n, 4) + code + le(flen, 4) + filler
            f1, f1_plain = build(g, VALID['peer'][0], 'f1')
            f2, f2_plain = build(g, VALID['peer'][1], 'f2')
            g.commit()
            def w(plain, name):
                return ref_obfuscate(plain, terms(g.raw(name, 4))) if obf else list(plain)
            wire = [w(init_plain, 'key.init'), ref_obfuscate(huge_plain, [0x6b, 0x13, 0xf2, 0x9d]) if obf else huge_plain,
                    w(f1_plain, 'key.f1'), w(f2_plain, 'key.f2')]
            bounds, p = [], 0
            for f in wire:
                bounds.append((p, p + len(f)))
                p += len(f)
            cuts = {'all': [], 'inside': [bounds[0][1], (bounds[1][0] + bounds[1][1]) // 2],
                    'followers_apart': [b_ for _, b_ in bounds]}[seg]
            conn, reader, writer, _ = env.incoming(obf)
            stream = [t for f in wire for t in f]
            with c02env.monitor(len(stream)):
                try:
                    with guard(c, seconds=3 * WATCHDOG_STREAM_S):
                        env.feed(reader, cut(stream, cuts))
                except NONTERMINATION as e:
                    c.check(False, 'parse_terminates', sig=sig, info=str(e))
                    return
                c.reach('huge_frame_fed')
                got = env.delivered(conn)
                names = [type(m).__qualname__ for m in got]
                if len(got) == 3:
                    c.reach('huge_frame_is_a_message')
                    ok = codec._and(isinstance(got[0], P.MessageDataclass), msg_equal(c, got[1], f1), msg_equal(c, got[2], f2))
                elif len(got) == 2:
                    c.reach('huge_frame_rejected')
                    ok = codec._and(msg_equal(c, got[0], f1), msg_equal(c, got[1], f2))
                else:
                    ok = False
                c.check(ok, 'frames_after_huge_frame_delivered_once_in_order', sig=sig, info={'delivered': names})
                c.check(reader.consumed == len(stream), 'stream_position_at_end', sig=sig, info={'consumed': reader.consumed, 'fed': len(stream)})
                c.check(env.alive(conn) == (conn.state != ConnectionState.CLOSED) and conn.state == ConnectionState.CONNECTED,
                        'reader_alive_iff_connection_open', sig=sig, info={'alive': env.alive(conn), 'state': conn.state.name})
                reader.feed_eof()
                loop.run_ready()
                c.check(conn.state == ConnectionState.CLOSED and writer.closed and not env.alive(conn), 'stream_end_closes_connection',
                        sig=sig, info={'alive': env.alive(conn), 'state': conn.state.name})
                c.check(len(env.delivered(conn)) == len(got), 'frames_after_huge_frame_delivered_once_in_order', sig=sig + ['eof'])
                c.check(not loop.errors and not env.dead_tasks(), 'no_task_died', sig=sig, info=repr(loop.errors[:1] + env.dead_tasks()[:1]))
    finally:
        loop.cleanup()


# ------------------------------------------------------------------------------------------------------------------
# H4: bad first frame on an accepted connection (clause e) - through ListeningConnection.accept
# ------------------------------------------------------------------------------------------------------------------

INIT_BAD = ['short0', 'unknown_code', 'lying_string', 'bad_text', 'truncated', 'incomplete_eof', 'any']


def h_accept(c, obf_port, bad, n_any=8):
    sig = ['obfuscated_port' if obf_port else 'plain_port', bad]
    loop = VLoop()
    g = codec.Gen(c)
    try:
        with c02env.streams(c.symbolic) as st, codec.installed(c.symbolic):
            env = Env(c, loop, st)
            env.start()
            net = env.net
            # connection A: a well-behaved peer, established before
            _, a_init = build(g, 'PeerInit.Request', 'a.init', fixed={'typ': 'P'})
            a_msg, a_plain = build(g, VALID['peer'][0], 'a.msg')
            s_msg, s_plain = build(g, VALID['server'][0], 's.msg')
            b_plain, verdict, _ = bad_frame(c, g, 'peer_init', bad, n_any)
            _, b_next = build(g, VALID['peer'][1], 'b.next')
            g.commit()
            A, ra, wa, ta = env.incoming(False, peer=('1.1.1.1', 1111))
            env.feed(ra, [a_init])
            pre = (A.state == ConnectionState.CONNECTED and A.connection_state == PeerConnectionState.ESTABLISHED and env.alive(A)
                   and A in net.peer_connections and ta.done())
            if not c.check(pre, 'valid_init_establishes', sig=sig):
                return
            # connection B: hostile first frame (followed by a valid message that must never be handled)
            B, rb, wb, tb = env.incoming(obf_port, peer=('6.6.6.6', 666))
            b_frames = [(b_plain, obf_port)] + ([(b_next, obf_port)] if verdict == 'bad' and bad != 'incomplete_eof' else [])
            wire = to_wire(g, b_frames)
            seg = c.pick(['all', 'bytes', 'mid'], 'segmentation')
            c.note('segmentation', seg)
            stream = [t for f in wire for t in f]
            with c02env.monitor(len(stream)):
                try:
                    with guard(c, seconds=WATCHDOG_STREAM_S):
                        env.feed(rb, cut(stream, segmentations(wire, seg)))
                except NONTERMINATION as e:
                    c.check(False, 'parse_terminates', sig=sig, info=str(e))
                    return
                if bad == 'incomplete_eof':
                    rb.feed_eof()
                    loop.run_ready()
            c.reach('first_frame_fed')
            closed = (len(env.closed_events(B)) == 1 and wb.closed and B not in net.peer_connections and not env.alive(B))
            initialised = (B in env.inits and B in net.peer_connections and not wb.closed and B.state == ConnectionState.CONNECTED
                           and (env.alive(B) or B.connection_state != PeerConnectionState.ESTABLISHED))
            info = {'state': B.state.name, 'closed_events': len(env.closed_events(B)), 'writer_closed': wb.closed,
                    'registered': B in net.peer_connections, 'initialised': B in env.inits}
            if verdict == 'bad':
                c.check(closed and B not in env.inits and not env.delivered(B), 'bad_first_frame_closes_connection', sig=sig, info=info)
                c.reach('bad_first_frame')
                # what the connection object and the event stream say once accept() has returned
                last = [s for cn, s, _ in env.states if cn is B][-1:]
                c.check(tb.done() and B.state == ConnectionState.CLOSED and last == [ConnectionState.CLOSED],
                        'closed_connection_stays_closed', sig=sig, info={**info, 'last_state_event': [s.name for s in last]})
            else:
                c.check(closed != initialised, 'first_frame_closes_or_initialises', sig=sig, info=info)
                c.reach('closed' if closed else 'initialised')
            c.check(tb.done() and not loop.errors and not env.dead_tasks(), 'no_task_died', sig=sig,
                    info=repr(loop.errors[:1] + env.dead_tasks()[:1]))
            # ---- that connection only: A and the server connection are untouched and still deliver ---------------
            S = net.server_connection
            untouched = (A.state == ConnectionState.CONNECTED and A in net.peer_connections and not wa.closed and env.alive(A)
                         and not env.closed_events(A) and S.state == ConnectionState.CONNECTED and env.alive(S)
                         and not env.server_writer.closed and not env.closed_events(S)
                         and all(lc.state == ConnectionState.CONNECTED for lc in net.listening_connections))
            c.check(untouched, 'other_connections_untouched', sig=sig)
            env.feed(ra, [a_plain])
            env.feed(env.server_reader, [s_plain])
            ga, gs = env.delivered(A), env.delivered(S)
            c.check(codec._and(len(ga) == 1, len(gs) == 1, msg_equal(c, ga[0], a_msg) if ga else False,
                               msg_equal(c, gs[0], s_msg) if gs else False), 'other_connections_still_deliver', sig=sig)
    finally:
        loop.cleanup()


# ------------------------------------------------------------------------------------------------------------------
# META / jobs / prelude
# ------------------------------------------------------------------------------------------------------------------

def _bounds_text(tier):
    b = BOUNDS[tier]
    return {'symbolic frame body bytes (message code + payload), every length': {g: f'0..{n}' for g, n in b['N'].items()},
            'decompressed payload bytes of the 3 compressed classes, every length': f"0..{b['Z']}",
            'framing stream bytes': f"{b['T']} (plain), {b['T'] + 4} (obfuscated); segmentations: whole, byte by byte, "
                                    + ('every single split point' if b['splits'] else 'two split points'),
            'arbitrary bad frame in the reader scenario': f"{b['any']} body bytes ({b['init_any']} as first frame of an accepted connection)",
            'text leaves of the valid frames': '2 bytes each (all well-formed UTF-8 of that length)',
            'long valid frames on obfuscated connections (body bytes incl. code)': f"{b['long']}; first {b['long_k']} text bytes symbolic, "
                                                                                  'rest concrete filler, every key symbolic; as a message and as PeerInit',
            'frames per reader scenario': '[PeerInit] valid, bad, valid (+EOF); stall scenario: [PeerInit] valid, incomplete (0..3 body bytes sent)',
            'silent end of a scenario (stall, inittype)': f'no byte is fed again; the virtual loop jumps from timer to timer until it is quiet, for at most '
                                                          f'{SILENCE_CAP} x read_timeout of virtual time (peer: {SILENCE_CAP * 60} s, server: {SILENCE_CAP * 600} s); '
                                                          'when exactly the read deadline expires is not checked',
            'huge frame (body bytes incl. code), plain': str(b['huge']),
            'huge frame, obfuscated': (str(b['huge'][1:]) + ', segmentations coalesced / cut inside only' if len(b['huge']) == 2 else str(b['huge']))
                                      + ' (concrete key for the huge frame)',
            'huge frame content': 'symbolic: the 4 code bytes, leaves and keys of PeerInit and of the 2 followers; concrete: length prefix, string length, '
                                  'ASCII filler; 64 KiB = 65536 is only the bound the lengths straddle, no constant is read from the code; segmentations: '
                                  'coalesced, cut inside the huge frame, cuts on every frame boundary',
            'PeerInit connection type (inittype)': 'any well-formed UTF-8 text of 0, 1 or 2 bytes (all 128 ASCII characters incl. P, F, D; every 2-byte '
                                                   'text incl. all 2-byte non-ASCII code points; the empty string); plain and obfuscated port; EOF and silent end'}


META = {
    'level': 'other',
    'technique': 'symbolic execution of the real parsers, dispatchers, de-obfuscation, framing and reader loop on frames whose bytes '
                 'are z3 bit-vector terms (engine/codec.py) delivered by byte-accurate fake streams on a virtual event loop '
                 '(engine/c02env.py); every branch on a hostile byte forks, obligations are z3 queries / path facts over all byte values',
    'explanation': '(a) For every body length 0..N and every connection kind (server, peer awaiting init, peer, distributed; plain and '
                   'obfuscated) a frame of fully symbolic bytes goes through the real decode_message_data: on every feasible path only '
                   'MessageDeserializationError escapes or a MessageDataclass of the code on the wire is returned. (b) Array counts are '
                   'symbolic up to 2^32-1 and fork lazily; a monitor asserts that no array loop completes more elements than the frame has '
                   'bytes (the derived unwinding bound); `while` loops around a streaming inflate are bounded through the zlib stand-in '
                   '(decompressobj.decompress() called more than len(data)+2 times without progress = non-termination witness; complete, '
                   'truncated and corrupt streams are modelled); concrete executions (real-zlib corruptions, every replay) run under a '
                   'SIGALRM watchdog so that a hang is a parse_terminates refutation, not a stuck job. (c) A stream of T symbolic bytes (symbolic length prefixes, obfuscated too) is read '
                   'with the real receive_message/_read/_read_message under several segmentations: each returned frame is exactly header + '
                   'prefix-many bytes of the stream per an independent reference (little endian, pinned keystream), the next header starts '
                   'right after it, an incomplete frame is never delivered and the end of the stream closes the connection. (d) Real '
                   'Network + reader loop: valid, bad, valid (12 kinds of bad with symbolic content) on 5 connection kinds x 5 segmentations: '
                   'exactly the valid messages reach the event bus once and in order, reader task alive iff connection not CLOSED, no task '
                   'dies, a raising callback/listener does not stop the reader; a frame whose symbolic prefix announces more than is sent is '
                   'never delivered and the read time-out / EOF ends reader and connection together; valid frames longer than the 124/128-byte '
                   'key cycle on obfuscated connections (as message and as PeerInit) are delivered once, in order, with equal content; the two frames '
                   'after a frame with a body of more than 64 KiB (symbolic code, concrete filler; plain and obfuscated; coalesced / cut inside / '
                   'followers apart) are delivered once, in order, equal; a decodable PeerInit with ANY connection type string (symbolic text of 0..2 '
                   'bytes) never leaves the accepted connection open with nobody reading or timing it, and EOF / silence closes and unregisters it. (e) Real ListeningConnection.accept + on_peer_accepted: a bad '
                   'first frame closes that connection (and it stays closed) while another peer connection and the server connection stay '
                   'up and keep delivering.',
    'functions': [DataConnection.decode_message_data, ServerConnection.deserialize_message, PeerConnection.deserialize_message,
                  M.ServerMessage.deserialize_response.__func__, M.PeerInitializationMessage.deserialize_request.__func__,
                  M.PeerMessage.deserialize_request.__func__, M.DistributedMessage.deserialize_request.__func__,
                  P.MessageDataclass.deserialize.__func__, P.ProtocolDataclass.deserialize.__func__,
                  P.ProtocolDataclass._field_needs_deserialization.__func__, P.array.deserialize.__func__, P.string.deserialize.__func__,
                  P.bytearr.deserialize.__func__, P.ipaddr.deserialize.__func__, P.uint8.deserialize.__func__, P.uint16.deserialize.__func__,
                  P.uint32.deserialize.__func__, P.uint64.deserialize.__func__, P.int32.deserialize.__func__, P.boolean.deserialize.__func__,
                  P.Attribute.deserialize.__func__, P.FileData.deserialize.__func__, P.DirectoryData.deserialize.__func__,
                  M._PeerInitTicket.deserialize.__func__, O.decode, O.rotate_key,
                  DataConnection._read_message, DataConnection._read, DataConnection.receive_message, DataConnection.receive_message_object,
                  DataConnection._message_reader_loop, DataConnection._perform_message_callback, DataConnection.disconnect,
                  DataConnection.connect, DataConnection.start_reader_task, PeerConnection.set_connection_state, DataConnection.set_state,
                  ListeningConnection.accept, ListeningConnection.connect, Network.initialize, Network.on_peer_accepted,
                  Network.on_message_received, Network.on_state_changed, Network._on_peer_connection_state_changed,
                  Network._finalize_peer_connection, Network.remove_peer_connection, ExpectedResponse.matches, EventBus.emit,
                  'every Response class of ServerMessage and every Request class of PeerInitializationMessage / PeerMessage / DistributedMessage '
                  '(reached through the dispatchers by the symbolic message code)'],
    'stubs': codec.STUBS + c02env.STUBS + [
        'Network built with its real constructor, real Settings (upnp disabled, no auto-reconnect) and real EventBus; '
        'Network._expected_connection_futures -> dict subclass whose lookup by a symbolic ticket compares keys instead of hashing (exploration only)',
        'parser harnesses: connections built with their real constructors and network=None; PeerConnection.connection_state assigned directly',
        'VLoop task factory records which coroutine each task runs (to find the reader task of a connection)'],
    'data_variables': ['every byte of a hostile frame: length prefix, message code, array counts, string lengths, text bytes, obfuscation key (BV8 each)',
                       'every byte of the T-byte stream of the framing harness (length prefixes are symbolic 32-bit values)',
                       'the leaves of the valid frames around the bad one (uint32 / boolean / text bytes) and one obfuscation key per frame',
                       'decompressed payload bytes of the compressed classes (behind the zlib stand-in)',
                       'the bytes of the PeerInit connection type (inittype) and the 4 message code bytes of the huge frame (huge)'],
    'discriminants': ['connection kind (server / peer awaiting init / peer / distributed; plain / obfuscated; accepted on the plain or obfuscated port)',
                      'number of bytes of the frame / of the stream (every length up to the bound)',
                      'kind of bad frame (body of 0..3 bytes, unknown code, lying string length, lying array count, undecodable text, truncated valid '
                      'frame, arbitrary body, corrupt zlib, callback that raises, incomplete frame then silence / EOF)',
                      'number of body bytes sent of an incomplete frame (0..3)',
                      'huge frame: length (list in bounds), plain/obfuscated, segmentation (3)',
                      'PeerInit type: byte length 0/1/2 and class P / F / anything else (inside the class the text is symbolic), port, EOF / silent end',
                      'TCP segmentation (whole stream, byte by byte, cuts inside headers and bodies, cuts on frame boundaries, cuts straddling boundaries; '
                      'framing harness: additionally every single split point in the thorough tier)',
                      'job partition: message code mod parts', 'which of 64 concrete zlib corruptions (enumerated: real zlib is C code)'],
    'bounds': {t: _bounds_text(t) for t in BOUNDS},
    'outside': ['frames longer than the bounds (long strings, arrays with more elements than fit)',
                'the real zlib bit stream for symbolic data: a symbolic compressed body is modelled as "not a zlib stream (zlib.error), a complete '
                'container around arbitrary bytes no longer than the frame, or a truncated stream (empty / first tag byte in the fully symbolic '
                'frames; with arbitrary partial output in the `compressed` jobs)"; real zlib only sees 64 concrete corruptions per compressed class; '
                'non-terminating loops on symbolic data that neither iterate over `range` nor call the decompressobj stand-in (exploration has no '
                'wall-clock watchdog: such a job would end NOT-EXHAUSTED, not green); '
                'decompression bombs / memory exhaustion',
                'read time-outs other than the silent ends of the stall / inittype scenarios (no virtual time passes elsewhere; there only "closed within '
                '20 read time-outs of silence" is demanded, not the deadline), write errors, concurrent disconnect '
                'by another task, a peer that sends so slowly that the time-out interleaves with a frame',
                'file (F) connections after initialisation (no message framing there): inittype only checks that the connection is handed to its owner '
                '(PeerInitializedEvent in state NEGOTIATING_TRANSFER); reading, timing and closing it is the transfer code (not in this environment)',
                'symbolic content inside a huge frame beyond its 4 code bytes (a symbolic byte inside a 64 KiB text would need a 64 KiB UTF-8 formula)',
                'log formatting (logging is disabled; arguments of log calls are still evaluated)',
                'managers other than Network listening on the bus (the raising listener / matcher stand for them)'],
    'assumptions': ['CPython 3.12 struct/int/bytes/UTF-8/cp1252 semantics as validated by engine.codec.validate() at the start of every run',
                    'asyncio.StreamReader.readexactly semantics as implemented by engine.c02env.FakeReader (waits for n bytes, '
                    'IncompleteReadError(partial) at EOF)',
                    'which codes exist per connection kind: pinned table spec/wire_layout.json'],
}


def jobs(tier):
    b = BOUNDS[tier]
    lim = {'timeout_s': 1200 if tier == 'quick' else 3000, 'solver_timeout_ms': 120000}
    out = []
    base_req = ['parsed', 'only_deserialization_error_escapes', 'parse_terminates']
    # H1
    for group in GROUPS:
        for obf in (False, True):
            if group == 'distributed' and obf:
                continue          # distributed connections are never obfuscated after initialisation
            for n in range(b['N'][group] + 1):
                w = _parse_paths(group, n) * (2 if obf else 1)
                parts = 1 if n < IDW[group] else max(1, min(MAX_PARTS[group], round(w / 250)))
                for part in range(parts):
                    out.append({'harness': 'parse', 'fn': h_parse, 'params': {'group': group, 'obf': obf, 'n': n, 'part': part, 'parts': parts},
                                'requires': base_req, 'weight': w / parts, **lim})
    for name in COMPRESSED:
        for m in range(b['Z'] + 1):
            out.append({'harness': 'compressed', 'fn': h_compressed, 'params': {'cls_name': name, 'm': m},
                        'requires': base_req + ['truncated_stream'],
                        'weight': 180 * 1.33 ** (m - 20), **lim})
        out.append({'harness': 'zlib', 'fn': h_zlib, 'params': {'cls_name': name}, 'weight': 64,
                    'requires': ['parsed', 'corrupt_zlib_rejected_or_message', 'parse_terminates', 'rejected:corrupt_zlib'], **lim})
    # H2
    for obf in (False, True):
        T = b['T'] + (4 if obf else 0)
        segs = ['all', 'bytes'] + ([str(k) for k in range(1, T)] if b['splits'] else [str(T // 2), '5'])
        for seg in segs:
            out.append({'harness': 'frames', 'fn': h_frames, 'params': {'obf': obf, 'T': T, 'seg': seg}, 'weight': 30 if not obf else 60,
                        'requires': ['framed', 'frame_returned', 'incomplete_tail', 'frame_is_header_plus_prefix_bytes',
                                     'incomplete_frame_not_delivered', 'stream_end_closes_connection', 'framing_terminates'], **lim})
        for first in b['long'][1:3] if not b['splits'] else b['long'][::4]:
            T = (8 if obf else 4) + first + 6
            for seg in ('all', str(T // 2)):
                out.append({'harness': 'frames', 'fn': h_frames, 'params': {'obf': obf, 'T': T, 'seg': seg, 'first': first}, 'weight': 40,
                            'requires': ['framed', 'frame_returned', 'frame_is_header_plus_prefix_bytes', 'stream_end_closes_connection',
                                         'framing_terminates'], **lim})
    # H3
    for kind in KINDS:
        for bad in BAD_KINDS:
            if not applicable(kind, bad):
                continue
            req = ['stream_fed', 'valid_frames_delivered_once_in_order', 'reader_alive_iff_connection_open', 'no_task_died',
                   'stream_end_closes_connection'] + (['callback_raised'] if bad == 'callback_raises' else [])
            out.append({'harness': 'reader', 'fn': h_reader, 'params': {'kind': kind, 'bad': bad, 'n_any': b['any']}, 'requires': req,
                        'weight': (300 if bad in ('any', 'corrupt_zlib') else 40) * (2 if 'obf' in kind else 1), **lim})
    for kind in KINDS:
        for end in ('timeout', 'eof'):
            out.append({'harness': 'stall', 'fn': h_stall, 'params': {'kind': kind, 'end': end}, 'weight': 60 * (2 if 'obf' in kind else 1),
                        'requires': ['stalled', 'incomplete_frame_not_delivered', 'reader_alive_iff_connection_open',
                                     'stream_end_closes_connection', 'no_task_died'], **lim})
    for where in ('message', 'init'):
        for n in b['long']:
            out.append({'harness': 'long', 'fn': h_long, 'params': {'where': where, 'n': n, 'k': b['long_k']}, 'weight': 150,
                        'requires': ['long_frame_fed', 'valid_init_establishes', 'valid_frames_delivered_once_in_order',
                                     'reader_alive_iff_connection_open', 'no_task_died'], **lim})
    for obf_port in (False, True):
        for tlen in (1, 0, 2):
            for end in ('eof', 'timeout'):
                out.append({'harness': 'inittype', 'fn': h_inittype, 'params': {'obf_port': obf_port, 'tlen': tlen, 'end': end}, 'weight': 40,
                            'requires': ['init_type_fed', 'type_other', 'open_connection_is_read', 'stream_end_closes_connection', 'no_task_died']
                            + (['type_P', 'type_F', 'file_connection_handed_over'] if tlen == 1 else []), **lim})
    for obf in (False, True):
        for n in (b['huge'][1:] if obf and len(b['huge']) == 2 else b['huge']):      # quick: obfuscated only the length above 64 KiB (cost)
            for seg in ('all', 'inside', 'followers_apart'):
                if obf and len(b['huge']) == 2 and seg == 'followers_apart':
                    continue                                                       # quick: covered plain; obfuscated in thorough
                out.append({'harness': 'huge', 'fn': h_huge, 'params': {'obf': obf, 'n': n, 'seg': seg}, 'weight': 400,
                            'requires': ['huge_frame_fed', 'frames_after_huge_frame_delivered_once_in_order', 'stream_end_closes_connection', 'no_task_died'], **lim})
    # H4
    for obf_port in (False, True):
        for bad in INIT_BAD:
            req = ['first_frame_fed', 'other_connections_untouched', 'other_connections_still_deliver', 'no_task_died'] + \
                  (['bad_first_frame', 'bad_first_frame_closes_connection', 'closed_connection_stays_closed'] if bad != 'any'
                   else ['first_frame_closes_or_initialises', 'closed'])
            out.append({'harness': 'accept', 'fn': h_accept, 'params': {'obf_port': obf_port, 'bad': bad, 'n_any': b['init_any']},
                        'requires': req, 'weight': (100 if bad == 'any' else 20) * (2 if obf_port else 1), **lim})
    out.sort(key=lambda j: -j.get('weight', 1))
    for j in out:
        j.pop('weight', None)
    return out


MAX_PARTS = {'server': 32, 'peer': 8, 'peer_init': 2, 'distributed': 4}


def _parse_paths(group, n):
    """rough number of paths of h_parse (measured), used only to size and order the jobs"""
    if group == 'server':
        return 66 * 1.15 ** n if n < 10 else 360 * 1.34 ** (n - 10)
    if group == 'peer':
        return 16 * 1.17 ** n if n < 12 else 107 * 1.28 ** (n - 12)
    if group == 'peer_init':
        return 3 * 1.24 ** n if n < 10 else 25 * 1.47 ** (n - 10)
    return 8 * 1.14 ** n if n < 10 else 29 * 1.18 ** (n - 10)


def prelude(tier):
    notes = codec.validate(deep=False)
    # the independent keystream reference against PINNED vectors (never against the code under test: when the code disagrees with
    # the reference that is for the harnesses to report, with a replay)
    pinned = json.load(open(os.path.join(VERIF, 'spec', 'c02_obfuscation_vectors.json')))['vectors']
    for v in pinned:
        key, data, wire = bytes.fromhex(v['key']), bytes.fromhex(v['data']), bytes.fromhex(v['wire'])
        if bytes(ref_obfuscate(list(data), list(key))) != wire or bytes(ref_plain(list(wire), True)) != data:
            raise symex.HarnessError(f'reference keystream disagrees with the pinned vector of length {len(data)}')
    notes.append(f'reference keystream (pinned definition) reproduces {len(pinned)} pinned vectors of spec/c02_obfuscation_vectors.json '
                 f'(lengths 0..12, 121..133, 140, 255..261, 300)')
    # FakeReader against asyncio.StreamReader on concrete scripts
    notes.append(_validate_reader())
    # scenario classes: a code that differs from the pinned table is not a harness error - the scenario frames are built from the
    # pinned table, so the harnesses report what the reader does with them
    for name in sorted({x for v in VALID.values() for x in v} | set(LEADING_STRING.values()) | set(ONLY_STRING.values()) | {'PrivilegedUsers.Response'}):
        a, b = name.split('.')
        cls = getattr(getattr(M, a, None), b, None)
        if cls is None or int(cls.MESSAGE_ID) != MESSAGES[name]['id']:
            notes.append(f'NOTE: {name} is missing or its code differs from the pinned table (left to the harnesses)')
    in_code = {}
    for grp, base in (('server', M.ServerMessage), ('peer_init', M.PeerInitializationMessage), ('peer', M.PeerMessage),
                      ('distributed', M.DistributedMessage)):
        in_code[grp] = {int(getattr(s, RECEIVED_KIND[grp]).MESSAGE_ID) for s in base.__subclasses__() if getattr(s, RECEIVED_KIND[grp], None)}
        if in_code[grp] != set(KNOWN[grp]):
            notes.append(f'NOTE: receivable codes of {grp} differ from the pinned table: code-only {sorted(in_code[grp] - set(KNOWN[grp]))}, '
                         f'table-only {sorted(set(KNOWN[grp]) - in_code[grp])}')
    notes.append('receivable codes per connection kind: ' + ', '.join(f'{g}={len(KNOWN[g])}' for g in GROUPS))
    return notes


def _validate_reader():
    """differential test of FakeReader.readexactly/read against asyncio.StreamReader (concrete data, scripted feeds)"""
    scripts = [
        ([b'abcdef'], [('x', 4), ('x', 2)], False), ([b'ab', b'cd', b'ef'], [('x', 4), ('x', 2)], False),
        ([b'abc'], [('x', 4)], True), ([b''], [('x', 4)], True), ([b'abcd'], [('x', 0), ('x', 4), ('x', 1)], True),
        ([b'a', b'b', b'c'], [('x', 2), ('x', 2)], True), ([b'abcdef'], [('r', 4), ('r', 10), ('r', 10)], True),
        ([b'abc', b'def'], [('r', -1)], True),
    ]
    n = 0
    for feeds, ops, eof in scripts:
        res = []
        for mk in ('real', 'fake'):
            async def run(mk=mk):
                rd = asyncio.StreamReader() if mk == 'real' else FakeReader(False)
                out = []

                async def consumer():
                    for op, k in ops:
                        try:
                            d = await (rd.readexactly(k) if op == 'x' else rd.read(k))
                            out.append(bytes(d))
                        except asyncio.IncompleteReadError as e:
                            out.append(('incomplete', bytes(e.partial), e.expected))
                            return
                t = asyncio.ensure_future(consumer())
                for f in feeds:
                    await asyncio.sleep(0)
                    rd.feed_data(f)
                await asyncio.sleep(0)
                if eof:
                    rd.feed_eof()
                for _ in range(5):
                    await asyncio.sleep(0)
                done = t.done()
                if not done:
                    t.cancel()
                return out, done
            res.append(asyncio.run(run()))
        if res[0] != res[1]:
            raise symex.HarnessError(f'FakeReader disagrees with asyncio.StreamReader on {feeds!r} {ops!r} eof={eof}: {res}')
        n += 1
    return f'FakeReader == asyncio.StreamReader on {n} concrete feed/read scripts (readexactly, read, EOF, IncompleteReadError.partial)'
