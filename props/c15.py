"""C15: user tracking on the server mirrors the set of reasons to track.

The real UserManager.track_user / untrack_user, UserTrackingManager (track_user, untrack_user,
_tracking_task, _request_tracking, _request_untracking, _set_tracking_state, _request_retry,
_get_tracked_user_object, _on_tracking_task_done, _on_state_changed, stop), TrackedUser.add_flag /
remove_flag, the real Network waiter code (wait_for_server_message, on_message_received) and the real
EventBus run on the virtual loop against a simulated server.

Symbolic data: the flag argument of every track/untrack call is a 3-bit z3 bit-vector wrapped in the
`SFlag` proxy below (enum.Flag hands `|`, `&`, `==` with a foreign operand back to the proxy), so the
emptiness tests of the worker (`tracked_user.flags == TrackingFlag(0)`, `previous_flags != ...`) are
decided by z3 and one path stands for every combination of reasons with the same empty/non-empty
pattern; the `exists` field of every server answer is a symbolic Bool that the real code branches on.
Enumerated: the call sequence, the loop step at which each call / disconnect is injected, the server
behaviour per attempt, the failure of RemoveUser sends.

Oracle: a fold over the calls in the order they were issued: reasons := reasons | flag (track),
reasons & ~flag (untrack), {} (disconnect); a transition is {} -> non-{} or non-{} -> {}.
"""
from __future__ import annotations

import asyncio

import z3

from engine import symex
from engine.symex import SBool, And, Not, ite
from engine.vloop import VLoop

from aioslsk.events import EventBus, UserTrackingStateChangedEvent
from aioslsk.exceptions import ConnectionWriteError
from aioslsk.network.connection import CloseReason, ConnectionState, ServerConnection
from aioslsk.network.network import Network
from aioslsk.protocol.messages import AddUser, RemoveUser
from aioslsk.protocol.primitives import UserStats
from aioslsk.settings import CredentialsSettings, Settings
from aioslsk.transfer.manager import TransferManager
from aioslsk.transfer.model import Transfer, TransferDirection
from aioslsk.transfer.state import TransferState
from aioslsk.user.manager import TrackedUser, UserManager, UserTrackingManager
from aioslsk.user.model import TrackingFlag, TrackingState

PROPERTY = 'C15'

NBITS = 3                    # REQUESTED, TRANSFER, FRIEND
USERS = ['alice', 'bob']
RTT = 0.25                   # virtual seconds between a request and the server's answer
# pinned retry delays (user/manager.py names them RETRY_TIMEOUT_NET_ERROR / RETRY_TIMEOUT_NON_EXISTING_USER);
# measured from the moment the failed attempt is reported (RETRY_PENDING event)
DOC_RETRY = {'send_failure': 10, 'silence': 10, 'not_exists': 600}
ZERO = TrackingFlag(0)
ALL_REASONS = [r.name for r in CloseReason]     # UNKNOWN, CONNECT_FAILED, REQUESTED, READ_ERROR, WRITE_ERROR, TIMEOUT, EOF
SETTINGS = Settings(credentials=CredentialsSettings(username='me', password='pw'))


# ------------------------------------------------------------------------------
# SFlag: a symbolic enum.Flag value
# ------------------------------------------------------------------------------

class SFlag:
    """z3 bit-vector standing for a TrackingFlag.  enum.Flag.__or__/__and__/__xor__ return
    NotImplemented for an operand that is not a member of the class, so `TrackingFlag(0) | SFlag`
    lands in the reflected methods here; Enum does not define __eq__, so `member == SFlag` lands in
    SFlag.__eq__ as well.  `~` follows Flag's STRICT boundary (complement within the defined bits),
    which for 3 defined bits is the 3-bit complement."""
    __slots__ = ('e',)

    def __init__(self, e):
        self.e = e

    @staticmethod
    def bv(o):
        if isinstance(o, SFlag):
            return o.e
        if isinstance(o, TrackingFlag):
            return z3.BitVecVal(o.value, NBITS)
        return None

    def _bin(self, o, fn):
        b = SFlag.bv(o)
        if b is None:
            return NotImplemented
        return SFlag(z3.simplify(fn(self.e, b)))

    def __or__(self, o):
        return self._bin(o, lambda a, b: a | b)

    __ror__ = __or__

    def __and__(self, o):
        return self._bin(o, lambda a, b: a & b)

    __rand__ = __and__

    def __xor__(self, o):
        return self._bin(o, lambda a, b: a ^ b)

    __rxor__ = __xor__

    def __invert__(self):
        return SFlag(z3.simplify(~self.e))

    def __eq__(self, o):
        b = SFlag.bv(o)
        if b is None:
            return False
        return SBool(self.e == b)

    def __ne__(self, o):
        b = SFlag.bv(o)
        if b is None:
            return True
        return SBool(self.e != b)

    def __bool__(self):
        return bool(SBool(self.e != 0))

    def __contains__(self, o):           # `member in flags`
        b = SFlag.bv(o)
        if b is None:
            raise TypeError(f'unsupported operand type(s) for \'in\': {type(o).__qualname__!r} and \'TrackingFlag\'')
        return bool(SBool((b & self.e) == b))

    def __hash__(self):
        raise TypeError('symbolic TrackingFlag is not hashable (C boundary reached)')

    def __repr__(self):
        return '<SFlag>'

    __str__ = __repr__

    def __format__(self, spec):
        return '<SFlag>'


def mk_flags(c, names):
    """the flag arguments of the calls: each any non-empty combination of the three reasons"""
    vs = [c.fresh_bv(n, NBITS) for n in names]
    if c.symbolic:
        if vs:
            c.assume(SBool(z3.And(*[v != 0 for v in vs])))
        return [SFlag(v) for v in vs]
    return [TrackingFlag(v or 1) for v in vs]


def flag_eq(a, b):
    """equality of two flag values (TrackingFlag or SFlag) -> bool | SBool"""
    if isinstance(a, TrackingFlag) and isinstance(b, TrackingFlag):
        return a == b
    if isinstance(b, SFlag) and not isinstance(a, SFlag):
        a, b = b, a
    if not isinstance(a, SFlag):
        return False
    r = a == b
    return r if isinstance(r, SBool) else bool(r)


def is_empty(f):
    return flag_eq(f, ZERO)


# ------------------------------------------------------------------------------
# environment: virtual loop, real managers, simulated server
# ------------------------------------------------------------------------------

class Loop(VLoop):
    def has_ready(self):
        self._move_due_timers()
        return any(not h._cancelled for h in self._ready)

    def jump(self):
        nt = self.next_timer()
        if nt is None:
            return False
        self._time = max(self._time, nt)
        return True


class Env:
    def __init__(self, c, max_fail=1, rm_fail=False, slow=False):
        self.c = c
        self.max_fail = max_fail
        self.rm_fail = rm_fail
        self.loop = loop = Loop()
        self.bus = EventBus()
        net = object.__new__(Network)
        net._expected_response_futures = []
        net._MESSAGE_MAP = {}
        net._event_bus = self.bus
        net._settings = SETTINGS
        net.send_server_messages = self.send
        self.net = net
        self.conn = ServerConnection('server', 2416, net)
        self.um = loop.call(UserManager, SETTINGS, self.bus, net)
        self.epoch = 0               # connection epoch (incremented by every disconnect)
        self.connected = True
        self.frames = []             # AddUser / RemoveUser attempts, in order
        self.events = []             # UserTrackingStateChangedEvent, in order
        self.fails = 0
        self.order = 0               # global order of frames and state events
        # listeners are weakly referenced by the bus: keep them on self
        if slow:
            async def listener(ev):
                self._on_event(ev)
                await asyncio.sleep(0)
                self.events[-1]['t_end'] = loop.time()
        else:
            def listener(ev):
                self._on_event(ev)
        self._listener = listener
        self.bus.register(UserTrackingStateChangedEvent, listener)

    def tick(self):
        self.order += 1
        return self.order

    # ---- simulated server -------------------------------------------------
    def _on_event(self, ev):
        rec = {'t': self.loop.time(), 'user': ev.user.name, 'state': ev.state, 'epoch': self.epoch, 'n': self.tick()}
        self.events.append(rec)
        if ev.state in (TrackingState.TRACKED, TrackingState.RETRY_PENDING):
            for fr in self.frames:
                if fr['user'] == ev.user.name and fr['kind'] == 'A':
                    fr['inflight'] = False

    async def send(self, *msgs, raise_on_error=True):
        for m in msgs:
            if isinstance(m, AddUser.Request):
                await self._send_add(m)
            elif isinstance(m, RemoveUser.Request):
                await self._send_remove(m)

    async def _send_add(self, m):
        c, loop = self.c, self.loop
        fr = {'t': loop.time(), 'n': self.tick(), 'kind': 'A', 'user': m.username, 'epoch': self.epoch, 'exists': None,
              'delivered': False, 'inflight': False, 'closing': not self.connected}
        if not self.connected:
            beh = 'send_failure'
        elif self.fails >= self.max_fail:
            beh = 'reply'
            fr['exists'] = True
        else:
            beh = ('reply', 'silence', 'send_failure')[c.choose(3, 'server')]
            if beh == 'reply':
                fr['exists'] = c.fresh_bool('exists')
            elif self.connected:
                self.fails += 1
        fr['beh'] = beh
        self.frames.append(fr)
        if beh != 'send_failure':
            fr['inflight'] = True
        if beh == 'reply':
            loop.call_later(RTT, self._deliver, fr)
        await asyncio.sleep(0)
        if beh == 'send_failure':
            raise ConnectionWriteError('simulated write error')

    def _deliver(self, fr):
        if fr['epoch'] != self.epoch:
            return                   # that connection is gone
        fr['delivered'] = True
        fr['t_reply'] = self.loop.time()
        msg = AddUser.Response(fr['user'], exists=fr['exists'], status=2,
                               user_stats=UserStats(avg_speed=1000, uploads=3, shared_file_count=10, shared_folder_count=2),
                               country_code='NL')
        self.loop.create_task(self._deliver_task(msg, fr))

    async def _deliver_task(self, msg, fr):
        await self.net.on_message_received(msg, self.conn)
        # the code under test has branched on msg.exists by now; a negative answer uses up failure budget
        if not self.truth(fr['exists']):
            self.fails += 1

    async def _send_remove(self, m):
        loop = self.loop
        fr = {'t': loop.time(), 'n': self.tick(), 'kind': 'R', 'user': m.username, 'epoch': self.epoch, 'closing': not self.connected}
        fail = not self.connected
        if self.connected and self.rm_fail:
            fail = self.flip('remove_fails')
        fr['beh'] = 'send_failure' if fail else 'ok'
        self.frames.append(fr)
        await asyncio.sleep(0)
        if fail:
            raise ConnectionWriteError('simulated write error')

    def truth(self, v):
        return bool(v)               # SBool: decided on this path already (else forks, harmlessly)

    def failed(self, fr):
        """did this AddUser attempt fail? -> kind of failure or None"""
        if fr['beh'] in ('send_failure', 'silence'):
            return fr['beh']
        if not fr['delivered']:
            return 'silence'
        return None if self.truth(fr['exists']) else 'not_exists'

    def inflight(self):
        return any(fr.get('inflight') and fr['epoch'] == self.epoch for fr in self.frames)

    # ---- driving ------------------------------------------------------------
    def flip(self, name):
        """binary schedule discriminant (forks); False when absent from a replayed model"""
        return bool(self.c.fresh_bool(name))

    def inline(self, coro):
        """run a coroutine that must not suspend (the public track/untrack calls)"""
        self.loop._enter()
        try:
            try:
                coro.send(None)
            except StopIteration as e:
                return e.value
            coro.close()
            raise symex.HarnessError('track_user/untrack_user suspended')
        finally:
            self.loop._leave()

    def window(self, name):
        """where the worker of that user is right now (only used for failure signatures / notes)"""
        try:
            tu = self.um._tracking_manager._tracked_users.get(name)
            if tu is None:
                return 'no_worker'
            if tu.task.done():
                return 'worker_finished_still_registered'
            return 'worker_alive'
        except Exception:  # noqa
            return 'n/a'

    def settle(self, max_jumps=8):
        """run until no attempt is waiting for the server any more (retry timers are left alone)"""
        self.loop.run_ready()
        j = 0
        while self.inflight():
            if j >= max_jumps or not self.loop.jump():
                return False
            self.loop.run_ready()
            j += 1
        return True

    def run_all(self, max_jumps=24):
        """run until nothing at all is scheduled"""
        self.loop.run_ready()
        j = 0
        while self.loop.next_timer() is not None:
            if j >= max_jumps:
                return False
            self.loop.jump()
            self.loop.run_ready()
            j += 1
        return True

    def goto(self, i, mode, max_units=80, max_jumps=6):
        """advance the loop to the point at which event i is injected"""
        c, loop = self.c, self.loop
        if mode == 'coarse':
            mode = ('now', 'quiet', 'settle', 'all')[c.choose(4, f'when{i}')]
        if mode == 'now':
            return
        if mode == 'quiet':
            loop.run_ready()
            return
        if mode == 'settle':
            self.settle()
            return
        if mode == 'all':
            self.run_all()
            return
        if mode != 'fine':
            raise symex.HarnessError(mode)
        units = jumps = 0
        while True:
            if loop.has_ready():
                if self.flip(f'at{i}'):
                    return
                loop.step()
            else:
                if loop.next_timer() is None or jumps >= max_jumps:
                    return
                if self.flip(f'at{i}'):
                    return
                loop.jump()
                jumps += 1
            units += 1
            if units > max_units:
                raise symex.BoundHit('fine stepping bound')

    def disconnect(self, reason=CloseReason.EOF, on_start=lambda: None):
        """the server connection closes: the real Network.on_state_changed emits the
        ConnectionStateChangedEvent (in a task of its own, queued behind what is already scheduled);
        with the close reason it was given, as Connection.set_state does); sends fail until the
        handlers are through; then the client is connected again (new connection epoch)."""
        loop = self.loop
        self.connected = False

        async def closed():
            on_start()
            await self.net.on_state_changed(ConnectionState.CLOSED, self.conn, close_reason=reason)
        task = loop.spawn(closed())
        n = 0
        while not task.done() and n < 200:
            if not loop.step():
                break
            n += 1
        self.epoch += 1
        self.connected = True
        return task.done() and not task.cancelled() and task.exception() is None


# ------------------------------------------------------------------------------
# reference
# ------------------------------------------------------------------------------

class Ref:
    """fold over the calls in issue order"""

    def __init__(self, nusers):
        self.reasons = [ZERO] * nusers
        self.trans = [[] for _ in range(nusers)]     # transition indicators of the current connection epoch

    def call(self, op, u, flag):
        old = self.reasons[u]
        if op == 't':
            new = old | flag
            tr = And(is_empty(old), Not(is_empty(new)))
        else:
            new = old & ~flag
            tr = And(Not(is_empty(old)), is_empty(new))
        self.reasons[u] = new
        self.trans[u].append(tr)

    def disconnect(self):
        n = len(self.reasons)
        self.reasons = [ZERO] * n
        self.trans = [[] for _ in range(n)]

    def count(self, u):
        """number of transitions asked for in the current connection epoch -> int | SInt"""
        return sum((ite(t, 1, 0) for t in self.trans[u]), 0)


def collapse(frs):
    """AddUser attempts that directly follow another AddUser attempt are retries: the collapsed
    sequence keeps the first of each run -> ['A', 'R', 'A', ...]"""
    out = []
    for fr in frs:
        if fr['kind'] == 'A' and out and out[-1] == 'A':
            continue
        out.append(fr['kind'])
    return out


def alternates(seq):
    return all(k == ('A' if i % 2 == 0 else 'R') for i, k in enumerate(seq))


def close(a, b):
    return abs(a - b) < 1e-6


# ------------------------------------------------------------------------------
# scenario: injection of calls, obligations
# ------------------------------------------------------------------------------

# what the schedule of a path looked like for a user; the first that applies is the failure signature
SITUATIONS = ['track_while_worker_finished_still_registered', 'disconnect_while_worker_awaits_cancelled_retry',
              'call_in_retry_instant', 'untrack_while_worker_finished_still_registered']


class Scenario:
    def __init__(self, c, nusers, **envkw):
        self.c = c
        self.n = nusers
        self.env = Env(c, **envkw)
        self.um = self.env.um
        self.ref = Ref(nusers)
        self.tags = [set() for _ in range(nusers)]
        self.closed = []          # (epoch, user, transitions asked for) of closed connections
        self.deferred = []        # obligations about values captured earlier, decided at the end of the path

    def ck(self, cond, label, **kw):
        """c.check; a condition that folded to a constant is handed over as a plain bool, so that a
        refutation is recorded without cutting the path (later obligations are still looked at)"""
        if isinstance(cond, SBool):
            if z3.is_true(cond.e):
                cond = True
            elif z3.is_false(cond.e):
                cond = False
        return self.c.check(cond, label, **kw)

    # ---- signatures (finite discriminants of the schedule; never part of an obligation) ----
    def sig(self, u, *more):
        for s in SITUATIONS:
            if s in self.tags[u]:
                return list(more) + [s]
        return list(more) + ['regular_schedule']

    def situation(self, u, what):
        env, name = self.env, USERS[u]
        try:
            tu = self.um._tracking_manager._tracked_users.get(name)
            if tu is None:
                w = 'no_worker'
            elif tu.task.done():
                w = 'worker_finished_still_registered'
            elif tu.retry_task is not None and getattr(tu.task, '_fut_waiter', None) is tu.retry_task:
                w = 'worker_awaits_cancelled_retry'
            else:
                w = 'worker_alive'
        except Exception:  # noqa
            w = 'n/a'
        if w not in ('no_worker', 'worker_alive', 'n/a'):
            self.tags[u].add(f'{what}_while_{w}')
        # a retry is due at this very instant
        evs = [e for e in env.events if e['user'] == name and e['epoch'] == env.epoch]
        frs = [f for f in self.frames(u, env.epoch) if f['kind'] == 'A']
        if evs and frs and evs[-1]['state'] == TrackingState.RETRY_PENDING:
            kind = env.failed(frs[-1]) if frs[-1]['delivered'] or frs[-1]['beh'] != 'reply' else None
            if kind and close(env.loop.time(), evs[-1]['t'] + DOC_RETRY[kind]):
                self.tags[u].add('call_in_retry_instant')
                w += '+retry_due'
        return w

    def frames(self, u, epoch):
        return [fr for fr in self.env.frames if fr['user'] == USERS[u] and fr['epoch'] == epoch]

    # ---- events ---------------------------------------------------------------
    def call(self, i, op, u, flag):
        """one public call"""
        c, env = self.c, self.env
        name = USERS[u]
        w = self.situation(u, 'track' if op == 't' else 'untrack')
        c.note('event', i, op + str(u), 't=%s' % env.loop.time(), 'step', env.loop.steps, w)
        try:
            env.inline(self.um.track_user(name, flag) if op == 't' else self.um.untrack_user(name, flag))
            exc = None
        except symex.HarnessError:
            raise
        except Exception as e:  # noqa
            exc = e
        self.ck(exc is None, 'call_accepted', sig=self.sig(u), info=repr(exc))
        self.ref.call(op, u, flag)

    def disconnect(self, i, reasons=('EOF',)):
        """the server connection closes for one of `reasons` (names of CloseReason members; a
        discriminant when there are several) and the client reconnects"""
        c, env, um = self.c, self.env, self.um
        rname = reasons[0] if len(reasons) == 1 else c.pick(list(reasons), f'close_reason{i}')
        reason = CloseReason[rname]
        c.note('event', i, 'd', rname, 't=%s' % env.loop.time(), 'step', env.loop.steps)
        ok = env.disconnect(reason, lambda: c.note('close handlers start', [self.situation(u, 'disconnect') for u in range(self.n)]))
        allsig = self.sig(max(range(self.n), key=lambda u: len(self.tags[u])), rname)
        self.ck(ok, 'disconnect_handled', sig=allsig, info='the close handlers did not finish in the instant of the close')
        c.reach('closed_' + rname)
        for u in range(self.n):
            self.closed.append((env.epoch - 1, u, self.ref.count(u)))
        self.ref.disconnect()
        c.reach('disconnected')
        for u in range(self.n):
            name = USERS[u]
            self.ck(um.get_tracking_state(name) == TrackingState.UNTRACKED, 'dropped_on_disconnect', sig=self.sig(u, rname),
                    info={'user': u, 'state': um.get_tracking_state(name).value})
            # (decided at the end of the path: a refuted symbolic obligation would cut the path short of the tail)
            self.deferred.append((is_empty(um.get_tracking_flags(name)), 'dropped_on_disconnect', self.sig(u, rname),
                                  {'user': u, 'flags': 'kept'}))

    # ---- obligations ------------------------------------------------------------
    def check_not_ahead(self, where):
        """never otherwise / never before its cause: the server has not seen more transitions than were asked for"""
        for u in range(self.n):
            seq = collapse(self.frames(u, self.env.epoch))
            self.ck(alternates(seq), 'requests_alternate', sig=self.sig(u), info={'user': u, 'seen': seq, 'at': where})
            self.ck(self.ref.count(u) >= len(seq) if seq else True, 'no_request_without_transition', sig=self.sig(u),
                    info={'user': u, 'seen': seq, 'at': where})

    def confirmed(self, u):
        """did the server confirm the user in the current tracking period (after the last RemoveUser)?"""
        frs = self.frames(u, self.env.epoch)
        if not frs or frs[-1]['kind'] != 'A':
            return False
        return self.env.failed(frs[-1]) is None

    def check_state(self, where):
        env, um = self.env, self.um
        for u in range(self.n):
            name = USERS[u]
            self.ck(flag_eq(um.get_tracking_flags(name), self.ref.reasons[u]), 'flags_mirror_calls', sig=self.sig(u),
                    info={'user': u, 'at': where})
            want = And(Not(is_empty(self.ref.reasons[u])), self.confirmed(u))
            got = um.get_tracking_state(name) == TrackingState.TRACKED
            self.ck(want if got else Not(want), 'tracked_iff_reason_and_confirmed', sig=self.sig(u),
                    info={'user': u, 'at': where, 'state': um.get_tracking_state(name).value})
            evs = [e for e in env.events if e['user'] == name and e['epoch'] == env.epoch]
            rep = evs[-1]['state'] == TrackingState.TRACKED if evs else False
            self.ck(want if rep else Not(want), 'reported_tracked_iff_reason_and_confirmed', sig=self.sig(u),
                    info={'user': u, 'at': where, 'last_event': evs[-1]['state'].value if evs else None})

    def check_retries(self, u, epoch):
        c, env = self.c, self.env
        frs = self.frames(u, epoch)
        for prev, nxt in zip(frs, frs[1:]):
            if prev['kind'] != 'A' or nxt['kind'] != 'A':
                continue
            kind = env.failed(prev)
            self.ck(kind is not None, 'retry_only_after_failed_attempt', sig=self.sig(u), info={'user': u})
            if kind is None:
                continue
            rep = [e for e in env.events if e['user'] == USERS[u] and e['state'] == TrackingState.RETRY_PENDING
                   and prev['n'] < e['n'] < nxt['n']]
            self.ck(bool(rep) and close(nxt['t'], rep[0]['t'] + DOC_RETRY[kind]), 'retry_after_documented_delay',
                    sig=self.sig(u, kind), info={'user': u, 'attempt_at': prev['t'], 'reported_at': rep[0]['t'] if rep else None,
                                                 'retry_at': nxt['t']})
            c.reach('retried_' + kind)

    def finish(self):
        c, env = self.c, self.env
        # ---- once activity settles ---------------------------------------------
        ok = env.settle()
        self.ck(ok, 'activity_settles', info='an attempt is still waiting for the server after 8 timers')
        self.check_not_ahead('settled')
        self.check_state('settled')
        c.reach('settled')
        steps = env.loop.steps
        ok = env.run_all()
        self.ck(ok, 'activity_settles', info='timers keep being scheduled')
        if env.loop.steps != steps:
            self.check_state('end')
        for u in range(self.n):
            frs = self.frames(u, env.epoch)
            seq = collapse(frs)
            self.ck(alternates(seq), 'requests_alternate', sig=self.sig(u), info={'user': u, 'seen': seq, 'at': 'end'})
            # every transition reached the server (nothing lost), and nothing else did
            self.ck(self.ref.count(u) == len(seq), 'requests_mirror_transitions', sig=self.sig(u),
                    info={'user': u, 'seen': [(fr['kind'], fr['t'], fr['beh']) for fr in frs]})
            self.check_retries(u, env.epoch)
            # nothing is scheduled any more: a failed last attempt may only be left alone when no reason remains
            if frs and frs[-1]['kind'] == 'A':
                kind = env.failed(frs[-1])
                self.ck(is_empty(self.ref.reasons[u]) if kind else True, 'retried_while_reason_remains', sig=self.sig(u, kind or 'confirmed'),
                        info={'user': u})
        for epoch, u, cnt in self.closed:
            seq = collapse(self.frames(u, epoch))
            self.ck(alternates(seq), 'requests_alternate', sig=self.sig(u), info={'user': u, 'seen': seq, 'at': f'epoch {epoch}'})
            self.ck(cnt >= len(seq) if seq else True, 'no_request_without_transition', sig=self.sig(u),
                    info={'user': u, 'seen': seq, 'at': f'epoch {epoch}'})
            self.check_retries(u, epoch)
        self.ck(not env.loop.errors, 'no_loop_errors', info=repr(env.loop.errors[:1]))
        c.note('frames', [(fr['kind'], fr['user'], fr['t'], fr['beh'], fr['epoch']) for fr in env.frames])
        c.note('state events', [(e['user'], e['state'].value, e['t']) for e in env.events])
        c.reach('end')
        for cond, label, sg, info in self.deferred:
            self.ck(cond, label, sig=sg, info=info)
        env.loop.cleanup()


# ------------------------------------------------------------------------------
# harnesses
# ------------------------------------------------------------------------------

def h_seq(c, events, timing, max_fail=1, rm_fail=False, slow=False, reasons=('EOF',), tail=False):
    """events: list of 't<u>' / 'u<u>' (track / untrack for user u) and 'd' (server disconnect + reconnect);
    timing: per event 'now' | 'quiet' | 'settle' | 'all' | 'coarse' | 'fine' (see Env.goto);
    reasons: names of the CloseReason members a disconnect may carry (enumerated when several);
    tail: when everything has come to rest on the new connection every user is tracked again (any
    reason, fresh symbolic flag; the server confirms) - a request has to reach the new connection."""
    nusers = 1 + max([int(e[1]) for e in events if e[0] in 'tu'] or [0])
    calls = [i for i, ev in enumerate(events) if ev[0] in 'tu']
    ntail = nusers if tail else 0
    fl = mk_flags(c, [f'flag{i}' for i in calls] + [f'tailflag{u}' for u in range(ntail)])
    flags = dict(zip(calls, fl))
    sc = Scenario(c, nusers, max_fail=max_fail, rm_fail=rm_fail, slow=slow)
    for i, ev in enumerate(events):
        sc.env.goto(i, timing[i])
        sc.check_not_ahead(f'before event {i}')
        if ev == 'd':
            sc.disconnect(i, reasons)
        else:
            sc.call(i, ev[0], int(ev[1]), flags[i])
    if tail:
        ok = sc.env.run_all()
        c.check(ok, 'activity_settles', info='timers keep being scheduled')
        sc.env.fails = max(sc.env.fails, sc.env.max_fail)      # no more faults: the server answers and confirms
        for u in range(nusers):
            sc.check_not_ahead(f'before tail call {u}')
            sc.call(len(events) + u, 't', u, fl[len(calls) + u])
        c.reach('tracked_again')
    sc.finish()


FINISHED = [TransferState.COMPLETE, TransferState.ABORTED, TransferState.FAILED]
UNFINISHED = [TransferState.QUEUED, TransferState.DOWNLOADING, TransferState.INCOMPLETE, TransferState.PAUSED,
              TransferState.INITIALIZING, TransferState.VIRGIN]


def h_cycles(c, ncycles=2, call_timing='coarse', cycle_timing='all', calls=('t0', 'u0'), max_fail=0):
    """the transfer manager as the source of the TRANSFER reason: real
    TransferManager.manage_user_tracking over 3 transfers of 2 users whose (un)finished status is
    chosen per cycle, mixed with direct calls carrying symbolic flags (one before each cycle)."""
    flags = mk_flags(c, [f'flag{i}' for i in range(len(calls))])
    sc = Scenario(c, 2, max_fail=max_fail)
    env = sc.env
    tm = object.__new__(TransferManager)
    tm._user_manager = sc.um
    owners = [0, 0, 1]
    tm._transfers = env.loop.call(lambda: [Transfer(USERS[u], f'@@share\\file{j}.mp3', TransferDirection.DOWNLOAD)
                                           for j, u in enumerate(owners)])
    for k in range(ncycles):
        if k < len(calls):
            ev = calls[k]
            env.goto(2 * k, call_timing if k else 'now')
            sc.check_not_ahead(f'before call {k}')
            sc.call(2 * k, ev[0], int(ev[1]), flags[k])
        env.goto(2 * k + 1, cycle_timing)
        sc.check_not_ahead(f'before cycle {k}')
        fin = []
        for j, t in enumerate(tm._transfers):
            f = env.flip(f'finished{k}_{j}')
            st = (FINISHED[(j + k) % len(FINISHED)] if f else UNFINISHED[(j + 2 * k) % len(UNFINISHED)])
            t.state = env.loop.call(TransferState.init_from_state, st, t)
            fin.append(f)
        c.note('cycle', k, 't=%s' % env.loop.time(), 'finished', fin)
        for u in range(2):
            sc.situation(u, 'track')
        try:
            env.inline(tm.manage_user_tracking())
            exc = None
        except symex.HarnessError:
            raise
        except Exception as e:  # noqa
            exc = e
        c.check(exc is None, 'call_accepted', info=repr(exc))
        # reference: a user with an unfinished transfer has the TRANSFER reason, a user with only finished ones has not
        for u in range(2):
            mine = [f for f, o in zip(fin, owners) if o == u]
            if not all(mine):
                sc.ref.call('t', u, TrackingFlag.TRANSFER)
            elif mine:
                sc.ref.call('u', u, TrackingFlag.TRANSFER)
        c.reach('cycle')
    sc.finish()


# ------------------------------------------------------------------------------
# prelude: the SFlag proxy against the real enum.Flag on every concrete value
# ------------------------------------------------------------------------------

def prelude(tier):
    def val(x):
        if isinstance(x, SFlag):
            e = z3.simplify(x.e)
            assert z3.is_bv_value(e), e
            return e.as_long()
        if isinstance(x, SBool):
            return bool(x)
        if isinstance(x, TrackingFlag):
            return x.value
        return x
    n = 0
    assert len(TrackingFlag) == NBITS and {m.value for m in TrackingFlag} == {1, 2, 4}, 'TrackingFlag is no longer 3 single-bit reasons'
    for a in range(2 ** NBITS):
        fa, sa = TrackingFlag(a), SFlag(z3.BitVecVal(a, NBITS))
        assert val(~sa) == (~fa).value and val(bool(sa)) == bool(fa)
        for b in range(2 ** NBITS):
            fb, sb = TrackingFlag(b), SFlag(z3.BitVecVal(b, NBITS))
            for x, y in ((sa, sb), (sa, fb), (fa, sb)):      # proxy/proxy, proxy/member, member/proxy (reflected)
                assert val(x | y) == (fa | fb).value and val(x & y) == (fa & fb).value and val(x ^ y) == (fa ^ fb).value
                assert val(x & ~y) == (fa & ~fb).value
                assert val(x == y) == (fa == fb) and val(x != y) == (fa != fb)
                n += 6
            assert (fb in sa) == (fb in fa) and val(flag_eq(sa, fb)) == (fa == fb)
    return [f'SFlag proxy agrees with enum.Flag on {n} concrete operations (|, &, ^, & ~, ==, !=, ~, bool, in; direct and reflected)']


# ------------------------------------------------------------------------------
# meta / jobs
# ------------------------------------------------------------------------------

META = {
    'level': 'other',
    'technique': 'symbolic execution of the real tracking worker on a z3 bit-vector proxy for the flag argument of every call '
                 '(3-bit SFlag standing in for enum.Flag TrackingFlag) and symbolic `exists` answers, on a deterministic virtual '
                 'event loop; obligations are z3 queries against a reference fold over the calls; call sequences, injection '
                 'steps, server behaviours and disconnects are enumerated discriminants',
    'explanation': 'Real UserManager.track_user/untrack_user and UserTrackingManager (queueing, _tracking_task state machine, '
                   '_request_tracking/_request_untracking, _set_tracking_state, retry task, worker creation/removal, stop on close) '
                   'run against a simulated server; the real Network waiter code matches the AddUser answers. The flag of every call is '
                   'any non-empty subset of {REQUESTED, TRANSFER, FRIEND} as one bit-vector variable, so each explored path covers all '
                   'flag combinations with the same empty/non-empty pattern of the reason set, and z3 decides on each path that '
                   'get_tracking_flags() equals the fold, that the number of AddUser/RemoveUser transitions seen by the server equals the '
                   'number of {}<->non-{} transitions of the fold, and that the state is TRACKED iff the set is non-empty and the (symbolic) '
                   'answer said the user exists. Every call after the first is injected at every loop step (fine) or at 4 coarse points.',
    'functions': [UserManager.track_user, UserManager.untrack_user, UserManager.get_tracking_flags, UserManager.get_tracking_state,
                  UserManager._on_add_user, UserManager._on_state_changed,
                  UserTrackingManager.track_user, UserTrackingManager.untrack_user, UserTrackingManager._tracking_task,
                  UserTrackingManager._request_tracking, UserTrackingManager._request_untracking,
                  UserTrackingManager._set_tracking_state, UserTrackingManager._request_retry,
                  UserTrackingManager._get_tracked_user_object, UserTrackingManager._on_tracking_task_done,
                  UserTrackingManager._on_state_changed, UserTrackingManager.stop, UserTrackingManager.get_tracking_flags,
                  UserTrackingManager.get_tracking_state, TrackedUser.add_flag, TrackedUser.remove_flag,
                  'aioslsk.utils:cancel_task', Network.wait_for_server_message, Network.on_message_received, Network.on_state_changed,
                  TransferManager.manage_user_tracking, TransferManager.get_unfinished_transfers, TransferManager.get_finished_transfers,
                  Transfer.is_finalized],
    'stubs': ['asyncio event loop -> engine.vloop.VLoop (virtual time, FIFO ready queue)',
              'Network built with object.__new__ (real wait_for_server_message / create_server_response_future / on_message_received / '
              'on_state_changed, real EventBus); Network.send_server_messages -> simulated server: records AddUser/RemoveUser, one '
              'suspension point, per attempt answer after 0.25 s / silence / ConnectionWriteError',
              'server disconnect -> real Network.on_state_changed(CLOSED, server connection, close_reason) in a task of its own (emits the real '
              'ConnectionStateChangedEvent with that reason); the CLOSING notification is not delivered; reconnection = sends succeed again',
              'TrackingFlag argument -> SFlag proxy (validated against enum.Flag in the prelude); real TrackingFlag in concrete replay',
              'TransferManager built with object.__new__ (only _transfers, _user_manager) in the cycles harness',
              'real Settings (defaults), real UserManager constructor'],
    'data_variables': ['flag<i>: flag argument of call i, 3-bit bit-vector, any non-empty subset of the three reasons',
                       'exists: the `exists` field of each AddUser answer (Bool, the real code branches on it)'],
    'discriminants': ['call sequence (track/untrack, user 0/1, disconnect position) = job parameter',
                      'close reason of the disconnect: all 7 CloseReason members (job parameter or c.pick on the path)',
                      'loop step / timer instant at which each call or disconnect is injected (fine) or one of now/quiet/settled/all-done (coarse)',
                      'server behaviour per AddUser attempt: answer / silence / write error (answer exists/not exists is symbolic)',
                      'RemoveUser write error (faults jobs)', 'finished/unfinished per transfer and cycle (cycles harness)'],
    'bounds': {
        'quick': {'one_user_all_fine': 'every sequence of 1..3 calls, every call after the first at every loop step / timer instant',
                  'one_user_coarse_prefix': '4 calls: 2 fixed coarse prefixes + last call fine; 5 calls as burst and strictly sequential',
                  'disconnect': 'one disconnect + reconnect + track-again tail: sequences of 2 all fine x 7 close reasons; sequences of 3: all fine '
                                'x 1 rotating reason, [now, coarse, fine] x REQUESTED, [now, coarse, coarse] x all 7; after a burst of 3 calls: '
                                'fine x {REQUESTED, EOF}, idle x all 7',
                  'two_users': '3 calls, second now/all-done, third fine',
                  'failed_attempts': '<= 1 per scenario (2 in faults jobs), then the server confirms',
                  'faults': 'RemoveUser write errors, suspending listener: 2 calls fine, 3 calls coarse+fine',
                  'answer_delay': '0.25 s', 'transfer_cycles': '2 cycles x 3 transfers x 2 users, 2 direct calls'},
        'thorough': {'one_user_all_fine': 'every sequence of 1..3 calls with up to 2 failed attempts; 4 calls [now, coarse, fine, fine]',
                     'one_user_coarse_prefix': '5 calls [now, now|settled, coarse, coarse, fine]; 6 calls: 1 of 2 fixed prefixes (alternating) + fine; '
                                               '5..8 calls burst / sequential',
                     'disconnect': 'sequences <= 3 all fine x each of the 7 close reasons; sequences of 4 [now, coarse, coarse, fine] x 1 rotating reason (+ REQUESTED '
                                   'when the disconnect is last) and all coarse x all 7; always with the track-again tail',
                     'two_users': '3 calls all fine; 4 calls with a fixed coarse prefix (rotating) + last call fine',
                     'failed_attempts': '<= 1 (2 for <= 3 calls, 3 in faults jobs), then the server confirms',
                     'faults': 'RemoveUser write errors, suspending listener: 3 calls all fine; 3 failed attempts on 2 calls fine and 3 calls coarse+fine',
                     'answer_delay': '0.25 s', 'transfer_cycles': '3 cycles, 3 direct calls; 2 cycles with coarse timing'}},
    'outside': ['calls with an empty flag (TrackingFlag(0) is the worker\'s internal retry marker; the public API default is REQUESTED)',
                'calls issued while the close of the server connection is being dispatched (the disconnect is atomic in the harness)',
                'answers that arrive later than the 10 s wait, reordered or duplicated answers',
                'more than 2 users / longer histories than the bound; real sockets (C10/C11); the management loop timing of TransferManager',
                'virtual time is concrete: delays are compared at the instants the pinned table DOC_RETRY predicts'],
    'assumptions': ['asyncio Task/Future/Queue semantics of CPython 3.12', 'a write error surfaces as an exception of send_server_messages',
                    'the answer to AddUser arrives after wait_for_server_message registered its waiter (0.25 s later)'],
}


def _seqs(n, nusers=1, with_d=False):
    import itertools
    alphabet = [op + str(u) for u in range(nusers) for op in 'tu'] + (['d'] if with_d else [])
    out = []
    for tup in itertools.product(alphabet, repeat=n):
        if n >= 3 and tup[0][0] != 't':
            continue                  # a leading untrack / disconnect is a no-op: covered by the shorter sequences
        us = [e[1] for e in tup if e != 'd']
        if nusers == 2 and (set(us) != {'0', '1'} or us[0] != '0'):
            continue                  # both users, named in order of first appearance
        if with_d and tup.count('d') != 1:
            continue
        out.append(list(tup))
    return out


def _job(name, events, timing, requires=('settled', 'end'), **kw):
    req = list(requires) + (['disconnected'] if 'd' in events else [])
    return {'harness': name, 'fn': h_seq, 'params': dict(events=events, timing=timing, **kw), 'requires': req}


def jobs(tier):
    out = []
    F, C = 'fine', 'coarse'
    quick = tier == 'quick'
    # A: every call sequence of one user, every call after the first at every loop step
    for n in (1, 2, 3):
        for s in _seqs(n):
            out.append(_job('calls', s, ['now'] + [F] * (n - 1), max_fail=1 if quick else 2))
    if not quick:
        for s in _seqs(4):
            out.append(_job('calls', s, ['now', C, F, F]))
    # B: one server disconnect (+ reconnect) anywhere in it, for every close reason the connection code can
    # report; afterwards every user is tracked again on the new connection

    def dis(s, timing, reasons):
        j = _job('disconnect', s, timing, reasons=reasons, tail=True)
        j['requires'] += ['tracked_again'] + ['closed_' + r for r in reasons]
        return j
    others = [r for r in ALL_REASONS if r != 'REQUESTED']
    for s in _seqs(2, with_d=True):
        for r in ALL_REASONS:
            out.append(dis(s, ['now', F], [r]))
    if quick:
        # timing and close reason are not multiplied out: every step with one reason (rotating), every reason
        # (chosen on the path) with coarse timing, REQUESTED additionally with the last event at every step
        for k, s in enumerate(_seqs(3, with_d=True)):
            out.append(dis(s, ['now', F, F], [others[k % len(others)]]))
            out.append(dis(s, ['now', C, F], ['REQUESTED']))
            out.append(dis(s, ['now', C, C], ALL_REASONS))
        for s in _seqs(4, with_d=True):
            if s[-1] == 'd':
                out.append(dis(s, ['now', 'now', 'now', F], ['REQUESTED', 'EOF']))
                out.append(dis(s, ['now', 'now', 'now', 'quiet'], ALL_REASONS))
    else:
        for s in _seqs(3, with_d=True):
            for r in ALL_REASONS:
                out.append(dis(s, ['now', F, F], [r]))
        for k, s in enumerate(_seqs(4, with_d=True)):
            r = ALL_REASONS[(k + 2) % len(ALL_REASONS)]          # every step: one reason per sequence, rotating
            out.append(dis(s, ['now', C, C, F], [r]))
            if s[-1] == 'd' and r != 'REQUESTED':
                out.append(dis(s, ['now', C, C, F], ['REQUESTED']))
            out.append(dis(s, ['now', C, C, C], ALL_REASONS))  # every reason (chosen on the path), coarse timing
    # C: two users
    for s in _seqs(3, nusers=2):
        if quick:
            for second in ('now', 'all'):
                out.append(_job('two_users', s, ['now', second, F]))
        else:
            out.append(_job('two_users', s, ['now', F, F]))
    # D: longer histories: coarse timing for the prefix, the last call at every loop step
    if quick:
        for s in _seqs(4):
            for pre in (['now', 'now'], ['settle', 'quiet']):
                out.append(_job('history', s, ['now'] + pre + [F]))
    else:
        for k, s in enumerate(_seqs(5)):
            out.append(_job('history', s, ['now', ('now', 'settle')[k % 2], C, C, F]))
        for k, s in enumerate(_seqs(4, nusers=2)):
            out.append(_job('history', s, ['now', ('now', 'all')[k % 2], ('now', 'quiet', 'settle', 'all')[(k // 2) % 4], F]))
        for k, s in enumerate(_seqs(6)):
            out.append(_job('history', s, ['now'] + (['now'] * 4, ['settle', 'quiet', 'all', 'now'])[k % 2] + [F]))
    # E: long bursts / strictly sequential histories
    for n in (5,) if quick else (5, 6, 7, 8):
        for s in _seqs(n):
            out.append(_job('burst', s, ['now'] * n))
            out.append(_job('sequential', s, ['now'] + ['all'] * (n - 1)))
    # F: more faults: several failed attempts in a row, RemoveUser write errors, listeners that suspend
    for s in _seqs(2):
        out.append(_job('faults', s, ['now', F], max_fail=2 if quick else 3))
        out.append(_job('faults', s, ['now', F], rm_fail=True))
        out.append(_job('faults', s, ['now', F], slow=True))
    for s in (['t0', 'u0', 't0'], ['t0', 't0', 'u0']):
        out.append(_job('faults', s, ['now', 'settle', F] if quick else ['now', C, F], max_fail=2 if quick else 3))
        out.append(_job('faults', s, ['now', C, F] if quick else ['now', F, F], rm_fail=True))
        out.append(_job('faults', s, ['now', C, F] if quick else ['now', F, F], slow=True))
    # G: the transfer manager as the source of the TRANSFER reason

    def cyc(**kw):
        return {'harness': 'cycles', 'fn': h_cycles, 'params': kw, 'requires': ['cycle', 'settled', 'end']}
    if quick:
        for calls in (['t0', 'u0'], ['t1', 'u1']):
            out.append(cyc(ncycles=2, call_timing='all', cycle_timing='all', calls=calls, max_fail=0))
    else:
        for calls in (['t0', 'u0', 't0'], ['t1', 'u1', 't0']):
            out.append(cyc(ncycles=3, call_timing='all', cycle_timing='all', calls=calls, max_fail=0))
        out.append(cyc(ncycles=2, call_timing=C, cycle_timing=C, calls=['t0', 'u0'], max_fail=0))
        out.append(cyc(ncycles=2, call_timing='all', cycle_timing='all', calls=['t0', 'u0'], max_fail=1))
        out.append(cyc(ncycles=2, call_timing='now', cycle_timing='now', calls=['t1', 'u0'], max_fail=1))
    return out
