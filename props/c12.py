"""C12: a reply completes exactly the requests it answers; a timeout is a timeout.

Real ExpectedResponse.matches, Network.create_*_response_future / register_response_future /
_remove_response_future / on_message_received / wait_for_server_message / wait_for_peer_message and
SoulSeekClient.execute run on the virtual loop; ticket / status / name fields of the waiters and of
the incoming messages are symbolic."""
from __future__ import annotations

import asyncio
import types

from engine import symex
from engine.symex import And, SInt, SBool
from engine.vloop import VLoop

from aioslsk.network.network import Network, ExpectedResponse
from aioslsk.network.connection import PeerConnection, ServerConnection, PeerConnectionState, ConnectionState
from aioslsk.events import EventBus
from aioslsk.client import SoulSeekClient
from aioslsk.commands import GetUserStatusCommand
from aioslsk.protocol.messages import (GetUserStatus, CannotConnect, PeerTransferReply, PeerUploadFailed, PeerSharesReply,
                                       PeerSharesRequest)
import aioslsk.protocol.messages as _messages
from aioslsk.protocol.primitives import MessageDataclass

PROPERTY = 'C12'


def tok(c, base, n=4):
    """small-domain name token: symbolic Int in [0,n) / concrete replay: a string"""
    v = c.fresh_int(base, 0, n - 1)
    return v if c.symbolic else f'{base.split("_")[0]}{v}'


class Pred:
    """predicate matcher `lambda v: v > k` with symbolic k"""

    def __init__(self, k):
        self.k = k

    def __call__(self, v):
        return v > self.k


def mk_net(loop):
    # the real constructor (so that state a change adds in __init__ exists); nothing is started or connected
    from aioslsk.settings import Settings, CredentialsSettings
    settings = Settings(credentials=CredentialsSettings(username='me', password='pw'))
    settings.network.upnp.enabled = False
    net = loop.call(Network, settings, EventBus())
    net._MESSAGE_MAP = {}      # the network's own handlers for incoming messages are not the subject here
    net.sent = []

    async def send_server_messages(*msgs):
        net.sent.extend(msgs)
    net.send_server_messages = send_server_messages
    return net


WAITER_KINDS = ['srv_status_any', 'srv_status_user', 'srv_status_user_status', 'srv_status_pred_then_user',
                'srv_cannot_connect', 'peer_reply_ticket', 'peer_reply_any', 'peer_failed_file', 'registered_status_user',
                'peer_reply_reason_none', 'peer_reply_ticket_reason']
# waiters used by the 'othertype' harness only (classes the library really waits for whose message ids are shared with
# distributed / server messages)
EXTRA_WAITER_KINDS = ['peer_shares_reply_any', 'peer_shares_request_any']
MSG_KINDS = ['srv_status', 'srv_cannot_connect', 'peer_reply', 'peer_failed']


def make_waiter(c, net, kind, i):
    """returns (future, spec) where spec = (conn_cls, msg_cls, peer, [(field, 'eq'|'gt', value)])"""
    if kind == 'srv_status_any':
        spec = (ServerConnection, GetUserStatus.Response, None, [])
    elif kind in ('srv_status_user', 'registered_status_user'):
        spec = (ServerConnection, GetUserStatus.Response, None, [('username', 'eq', tok(c, f'u_w{i}'))])
    elif kind == 'srv_status_user_status':
        spec = (ServerConnection, GetUserStatus.Response, None,
                [('username', 'eq', tok(c, f'u_w{i}')), ('status', 'eq', c.fresh_int(f'status_w{i}', 0, 3))])
    elif kind == 'srv_status_pred_then_user':
        spec = (ServerConnection, GetUserStatus.Response, None,
                [('status', 'gt', c.fresh_int(f'k_w{i}', 0, 3)), ('username', 'eq', tok(c, f'u_w{i}'))])
    elif kind == 'srv_cannot_connect':
        spec = (ServerConnection, CannotConnect.Response, None, [('ticket', 'eq', c.fresh_int(f'ticket_w{i}', 0, 2**32 - 1))])
    elif kind == 'peer_reply_ticket':
        spec = (PeerConnection, PeerTransferReply.Request, tok(c, f'p_w{i}'),
                [('ticket', 'eq', c.fresh_int(f'ticket_w{i}', 0, 2**32 - 1))])
    elif kind == 'peer_reply_any':
        spec = (PeerConnection, PeerTransferReply.Request, tok(c, f'p_w{i}'), [])
    elif kind == 'peer_reply_reason_none':
        # an expected value of None means: the (optional) field must be absent
        spec = (PeerConnection, PeerTransferReply.Request, tok(c, f'p_w{i}'),
                [('ticket', 'eq', c.fresh_int(f'ticket_w{i}', 0, 2**32 - 1)), ('reason', 'eq', None)])
    elif kind == 'peer_reply_ticket_reason':
        spec = (PeerConnection, PeerTransferReply.Request, tok(c, f'p_w{i}'),
                [('reason', 'eq', tok(c, f'r_w{i}')), ('filesize', 'eq', None)])
    elif kind == 'peer_failed_file':
        spec = (PeerConnection, PeerUploadFailed.Request, tok(c, f'p_w{i}'), [('filename', 'eq', tok(c, f'f_w{i}'))])
    elif kind == 'peer_shares_reply_any':
        spec = (PeerConnection, PeerSharesReply.Request, tok(c, f'p_w{i}'), [])
    elif kind == 'peer_shares_request_any':
        spec = (PeerConnection, PeerSharesRequest.Request, tok(c, f'p_w{i}'), [])
    else:
        raise symex.HarnessError(kind)
    conn_cls, msg_cls, peer, fl = spec
    fields = {f: (Pred(v) if op == 'gt' else v) for f, op, v in fl}
    if kind == 'registered_status_user':
        fut = ExpectedResponse(conn_cls, msg_cls, fields=fields)
        net.register_response_future(fut)
    elif conn_cls is ServerConnection:
        fut = net.create_server_response_future(msg_cls, fields)
    else:
        fut = net.create_peer_response_future(peer, msg_cls, fields)
    return fut, spec


def make_message(c, net, kind, j):
    if kind == 'srv_status':
        conn = ServerConnection('srv', 2242, net)
        msg = GetUserStatus.Response(tok(c, f'u_m{j}'), c.fresh_int(f'status_m{j}', 0, 3), c.fresh_bool(f'priv_m{j}'))
    elif kind == 'srv_cannot_connect':
        conn = ServerConnection('srv', 2242, net)
        msg = CannotConnect.Response(c.fresh_int(f'ticket_m{j}', 0, 2**32 - 1))
    elif kind == 'peer_reply':
        conn = PeerConnection('1.2.3.4', 5, net, username=tok(c, f'p_m{j}'))
        # optional trailing fields of the reply: each absent (None) or present with a symbolic value
        opt = c.choose(3, f'optshape_m{j}')
        msg = PeerTransferReply.Request(c.fresh_int(f'ticket_m{j}', 0, 2**32 - 1), c.fresh_bool(f'allowed_m{j}'),
                                        filesize=c.fresh_int(f'filesize_m{j}', 0, 2**64 - 1) if opt == 1 else None,
                                        reason=tok(c, f'r_m{j}') if opt == 2 else None)
    elif kind == 'peer_failed':
        conn = PeerConnection('1.2.3.4', 5, net, username=tok(c, f'p_m{j}'))
        msg = PeerUploadFailed.Request(tok(c, f'f_m{j}'))
    else:
        raise symex.HarnessError(kind)
    return conn, msg


def answers(spec, conn, msg):
    """reference: type and connection kind and peer and ALL field matchers"""
    conn_cls, msg_cls, peer, fl = spec
    if type(conn) is not conn_cls or type(msg) is not msg_cls:
        return False
    conds = []
    if peer is not None:
        conds.append(conn.username == peer)
    for f, op, v in fl:
        a = getattr(msg, f)
        if a is None or v is None:
            conds.append((a is None) == (v is None) if op == 'eq' else False)
            continue
        conds.append(a == v if op == 'eq' else a > v)
    if not conds:
        return True
    if any(x is False for x in conds):
        return False
    if all(isinstance(x, bool) for x in conds):
        return all(conds)
    return And(*conds)


def drive(loop, coro):
    """run a coroutine to completion on the loop; returns (result, exception)"""
    t = loop.spawn(coro)
    loop.run_ready()
    if not t.done():
        return None, RuntimeError('handler did not finish in the same instant')
    if t.cancelled():
        return None, asyncio.CancelledError()
    return (t.result(), None) if t.exception() is None else (None, t.exception())


def h_dispatch(c, kinds, n_msgs=2):
    loop = VLoop()
    net = mk_net(loop)
    waiters = []
    for i, k in enumerate(kinds):
        fut, spec = loop.call(make_waiter, c, net, k, i)
        waiters.append({'fut': fut, 'spec': spec, 'kind': k, 'result': None, 'pre_cancelled': False})
    # some waiters were cancelled in this very loop iteration (callbacks not run yet)
    for i, w in enumerate(waiters):
        if c.choose(2, f'cancel_w{i}') == 1:
            loop.call(w['fut'].cancel)
            w['pre_cancelled'] = True
    for j in range(n_msgs):
        same_class = len({w['spec'][1] for w in waiters}) < len(waiters)
        if j and same_class and c.choose(2, f'loop_turn_before_msg{j}') == 1:
            # the messages are not buffered back-to-back: the loop gets a turn in between (done callbacks run)
            loop.run_ready()
            c.reach('loop_turn_between_messages')
        mk = c.pick(MSG_KINDS, f'msgkind{j}')
        conn, msg = make_message(c, net, mk, j)
        before = [w['fut'].done() for w in waiters]
        _, exc = drive_inline(loop, net.on_message_received(msg, conn))
        sig = [sorted(set(kinds)), 'after_done_waiter' if any(before) else 'all_pending']
        c.check(exc is None, 'dispatch_no_exception', sig=sig, info=repr(exc))
        c.reach('dispatched')
        for i, w in enumerate(waiters):
            fut = w['fut']
            if before[i]:
                # at most once: a finished request is never touched again
                if w['pre_cancelled']:
                    c.check(fut.cancelled(), 'finished_request_untouched', sig=sig)
                else:
                    c.check(fut.done() and not fut.cancelled() and fut.result() is w['result'], 'completed_at_most_once', sig=sig)
                continue
            want = answers(w['spec'], conn, msg)
            got = fut.done()
            c.check(want == got if isinstance(want, bool) else (want if got else ~want), 'completed_iff_answers',
                    sig=[w['kind'], mk, 'after_done_waiter' if any(before) else 'all_pending'],
                    info={'waiter': i, 'msg': j, 'completed': got})
            if got:
                res = fut.result()
                w['result'] = res
                c.check(res[0] is conn and res[1] is msg, 'completed_with_that_message', sig=sig)
    # quiescence: no residue
    loop.run_ready()
    c.check(net._expected_response_futures == [w['fut'] for w in waiters if not w['fut'].done()], 'no_residue',
            sig=[sorted(set(kinds))])
    c.check(not loop.errors, 'no_loop_errors', info=repr(loop.errors[:1]))
    loop.cleanup()


def drive_inline(loop, coro):
    """run the handler without giving scheduled callbacks a chance in between two
    messages (buffered messages are processed back-to-back by the reader): drive the
    coroutine by hand; it must not suspend."""
    loop._enter()
    try:
        try:
            coro.send(None)
        except StopIteration as e:
            return e.value, None
        except Exception as e:  # noqa
            return None, e
        coro.close()
        return None, RuntimeError('on_message_received suspended')
    finally:
        loop._leave()


def h_matches(c):
    """ExpectedResponse.matches against the reference on one fully symbolic message, for
    every ordering of a predicate matcher and literal matchers"""
    loop = VLoop()
    net = mk_net(loop)
    order = c.choose(3, 'order')
    u, s, k = tok(c, 'u_w'), c.fresh_int('status_w', 0, 3), c.fresh_int('k_w', 0, 3)
    priv = c.fresh_bool('priv_w')
    fl = [[('status', 'gt', k), ('username', 'eq', u), ('privileged', 'eq', priv)],
          [('username', 'eq', u), ('status', 'gt', k), ('privileged', 'eq', priv)],
          [('username', 'eq', u), ('privileged', 'eq', priv), ('status', 'gt', k)]][order]
    spec = (ServerConnection, GetUserStatus.Response, None, fl)
    fields = {f: (Pred(v) if op == 'gt' else v) for f, op, v in fl}
    fut = loop.call(ExpectedResponse, ServerConnection, GetUserStatus.Response, None, fields)
    conn, msg = make_message(c, net, 'srv_status', 0)
    got = fut.matches(conn, msg)
    want = answers(spec, conn, msg)
    c.reach('matched')
    c.check((want if got else ~want) if not isinstance(want, bool) else want == got, 'matches_all_fields',
            sig=['predicate_position', order])
    # attribute missing on the message -> no match, no exception
    fut2 = loop.call(ExpectedResponse, ServerConnection, GetUserStatus.Response, None, {'nonexistent': Pred(0)})
    c.check(fut2.matches(conn, msg) is False, 'missing_attribute_no_match')
    fut3 = loop.call(ExpectedResponse, ServerConnection, GetUserStatus.Response, None, {'nonexistent': 1})
    c.check(fut3.matches(conn, msg) is False, 'missing_attribute_no_match')
    fut.cancel(), fut2.cancel(), fut3.cancel()


def all_message_classes():
    """every Request/Response message dataclass the real protocol module defines (read from the code under test)"""
    import inspect
    out = []
    for _, o in sorted(vars(_messages).items()):
        if not inspect.isclass(o):
            continue
        for sub in ('Request', 'Response'):
            k = getattr(o, sub, None)
            if inspect.isclass(k) and issubclass(k, MessageDataclass) and k.__qualname__ == f'{o.__name__}.{sub}':
                out.append(k)
    return out


def _field_value(c, f, j):
    """a symbolic value for a simple field (names/ids can therefore coincide with what a waiter asks for); anything
    else stays None - matches() only reads attributes"""
    t = f.type if isinstance(f.type, str) else getattr(f.type, '__name__', str(f.type))
    t = str(f.type) if not isinstance(f.type, type) else f.type.__name__
    if t in ('str', 'typing.Optional[str]'):
        return tok(c, f'{f.name[0]}_o{j}{f.name}')
    if t in ('int', 'typing.Optional[int]'):
        return c.fresh_int(f'{f.name}_o{j}', 0, 2**32 - 1)
    if t == 'bool':
        return c.fresh_bool(f'{f.name}_o{j}')
    return None


def h_othertype(c, kind, scope='colliding'):
    """"...and with no other message": one pending request of kind `kind`; a message of ANOTHER class arrives on a
    connection of the expected class from a (symbolic, possibly the expected) peer - classes sharing the message id
    with the expected class (ids overlap between the server / peer / distributed name spaces), the Request/Response
    sibling, and (scope='all') every message class of the protocol module; simple fields are symbolic."""
    import dataclasses
    loop = VLoop()
    net = mk_net(loop)
    fut, spec = loop.call(make_waiter, c, net, kind, 0)
    conn_cls, msg_cls, peer, fl = spec
    classes = [k for k in all_message_classes() if k is not msg_cls]
    if scope == 'colliding':
        outer = msg_cls.__qualname__.split('.')[0]
        classes = [k for k in classes if int(k.MESSAGE_ID) == int(msg_cls.MESSAGE_ID) or k.__qualname__.split('.')[0] == outer]
    if not classes:
        c.reach('othertype_end')
        fut.cancel()
        return
    other = classes[c.choose(len(classes), 'other_class')]
    c.note('other_class', other.__qualname__)
    if conn_cls is ServerConnection:
        conn = ServerConnection('srv', 2242, net)
    else:
        conn = PeerConnection('1.2.3.4', 5, net, username=tok(c, 'p_m0'))
    msg = other(**{f.name: _field_value(c, f, 0) for f in dataclasses.fields(other) if f.init})
    sig = [kind, 'same_id' if int(other.MESSAGE_ID) == int(msg_cls.MESSAGE_ID) else 'other_id']
    try:
        m = fut.matches(conn, msg)
    except Exception as e:  # noqa
        m = e
    c.check(m is False, 'other_type_never_matches', sig=sig, info={'class': other.__qualname__, 'matches': repr(m)})
    _, exc = drive_inline(loop, net.on_message_received(msg, conn))
    c.check(exc is None, 'dispatch_no_exception', sig=sig, info=repr(exc))
    loop.run_ready()
    c.check(not fut.done(), 'completed_iff_answers', sig=sig + ['othertype'], info={'class': other.__qualname__})
    c.reach('othertype_end')
    fut.cancel()
    loop.run_ready()
    loop.cleanup()


def h_timeout(c, api='server', timeout=10, scenario='silence'):
    """wait_for_*_message with nothing (or only non-answers) arriving: TimeoutError at
    exactly the time-out, nothing left behind, later traffic unharmed."""
    loop = VLoop()
    net = mk_net(loop)
    u = tok(c, 'u_w')
    if api == 'server':
        coro = net.wait_for_server_message(GetUserStatus.Response, {'username': u}, timeout=timeout)
    else:
        coro_peer = tok(c, 'p_w')
        coro = net.wait_for_peer_message(coro_peer, PeerUploadFailed.Request, {'filename': u}, timeout=timeout)
    task = loop.spawn(coro)
    loop.run_ready()
    other = loop.call(net.create_server_response_future, GetUserStatus.Response, {'username': u})
    if scenario == 'non_answer':
        conn, msg = make_message(c, net, 'srv_status' if api == 'server' else 'peer_failed', 0)
        c.assume((msg.username if api == 'server' else msg.filename) != u)
        loop.advance(timeout / 2)
        _, exc = drive_inline(loop, net.on_message_received(msg, conn))
        c.check(exc is None, 'dispatch_no_exception', sig=['timeout', scenario])
    loop.advance_to(timeout - 0.001)
    c.check(not task.done(), 'no_timeout_before_deadline', sig=[api, scenario])
    if scenario == 'message_in_timeout_iteration':
        # the answer is processed in the very loop iteration in which the time-out becomes due, ahead of the timer
        # callback: the request may end with the answer or with TimeoutError, never with an internal-state error
        loop._time = float(timeout)
        loop._move_due_timers()   # the time-out callback is already in the ready queue when the answer is dispatched
        if api == 'server':
            conn0, msg0 = ServerConnection('srv', 2242, net), GetUserStatus.Response(u, 1, False)
        else:
            conn0, msg0 = PeerConnection('1.2.3.4', 5, net, username=coro_peer), PeerUploadFailed.Request(u)
        _, exc = drive_inline(loop, net.on_message_received(msg0, conn0))
        c.check(exc is None, 'dispatch_no_exception', sig=['timeout', scenario], info=repr(exc))
        loop.run_ready()
        loop.advance(0.001)
        c.reach('timeout_end')
        c.check(task.done(), 'timeout_fires_at_deadline', sig=[api, scenario])
        if task.done():
            exc = None if task.cancelled() else task.exception()
            ok = (exc is None and not task.cancelled() and task.result() is msg0) or isinstance(exc, TimeoutError)
            c.check(ok, 'timeout_is_timeout_error', sig=[api, scenario], info=repr(exc))
        c.check(len([f for f in net._expected_response_futures if f is not other]) == 0, 'no_residue', sig=['timeout', scenario])
        c.check(not loop.errors, 'no_loop_errors', info=repr(loop.errors[:1]))
        loop.cleanup()
        return
    if scenario == 'cancelled_then_message':
        loop.call(task.cancel)
    else:
        loop.advance_to(timeout)
    # a message for the *other* waiter arrives in the same loop iteration as the time-out / cancellation
    conn = ServerConnection('srv', 2242, net)
    msg = GetUserStatus.Response(u, 1, False)
    if scenario in ('cancelled_then_message', 'silence', 'non_answer'):
        _, exc = drive_inline(loop, net.on_message_received(msg, conn))
        c.check(exc is None, 'dispatch_no_exception', sig=['timeout', scenario], info=repr(exc))
        c.check(other.done() and not other.cancelled(), 'completed_iff_answers',
                sig=['other_waiter_after_timed_out_one', scenario])
    loop.run_ready()
    c.reach('timeout_end')
    c.check(task.done(), 'timeout_fires_at_deadline', sig=[api, scenario])
    if task.done():
        if scenario == 'cancelled_then_message':
            c.check(task.cancelled(), 'cancel_is_cancel', sig=[api])
        else:
            exc = task.exception() if not task.cancelled() else asyncio.CancelledError()
            c.check(isinstance(exc, TimeoutError), 'timeout_is_timeout_error', sig=[api, scenario], info=repr(exc))
    c.check(all(f.done() is False for f in net._expected_response_futures), 'no_residue', sig=['timeout', scenario])
    c.check(len(net._expected_response_futures) == (0 if other.done() else 1), 'no_residue', sig=['timeout', scenario])
    c.check(not loop.errors, 'no_loop_errors', info=repr(loop.errors[:1]))
    loop.cleanup()


def h_execute(c, scenario='reply'):
    """SoulSeekClient.execute(command, response=True)"""
    loop = VLoop()
    net = mk_net(loop)
    client = object.__new__(SoulSeekClient)
    client.session = object()
    client.network = net
    u = tok(c, 'u_w')
    if scenario == 'send_fails':
        async def boom(*m):
            raise ConnectionError('x')
        net.send_server_messages = boom
    if scenario == 'reply_during_send':
        # the write is under back pressure: send() is still suspended when the server's answer comes in
        async def slow(*m):
            net.sent.extend(m)
            await asyncio.sleep(2)
        net.send_server_messages = slow
    task = loop.spawn(client.execute(GetUserStatusCommand(u), response=True, timeout=10))
    loop.run_ready()
    if scenario in ('reply', 'reply_during_send'):
        conn = ServerConnection('srv', 2242, net)
        um = tok(c, 'u_m0')
        msg = GetUserStatus.Response(um, 2, c.fresh_bool('priv'))
        loop.advance(1)
        _, exc = drive_inline(loop, net.on_message_received(msg, conn))
        loop.advance(2)
        c.check(exc is None, 'dispatch_no_exception', sig=['execute'])
        same = (um == u)
        c.check(same if task.done() else (~same if not isinstance(same, bool) else not same), 'completed_iff_answers',
                sig=['execute', scenario])
        if task.done():
            c.check(task.exception() is None and task.result().status.value == 2, 'completed_with_that_message', sig=['execute'])
    deadline = 12 if scenario == 'reply_during_send' else 10   # the time-out runs from the moment send() returned
    loop.advance_to(deadline - 0.001)
    if scenario == 'silence':
        c.check(not task.done(), 'no_timeout_before_deadline', sig=['execute', scenario])
    loop.advance_to(deadline)
    loop.run_ready()
    c.reach('execute_end')
    c.check(task.done(), 'timeout_fires_at_deadline', sig=['execute', scenario])
    if task.done() and scenario == 'silence':
        c.check(isinstance(task.exception(), TimeoutError), 'timeout_is_timeout_error', sig=['execute', scenario],
                info=repr(task.exception()))
    if task.done() and scenario == 'send_fails':
        c.check(isinstance(task.exception(), ConnectionError), 'send_error_propagates', sig=['execute'])
    c.check(net._expected_response_futures == [], 'no_residue', sig=['execute', scenario])
    # without a session commands are refused
    client.session = None
    t2 = loop.spawn(client.execute(GetUserStatusCommand(u)))
    loop.run_ready()
    from aioslsk.exceptions import InvalidSessionError
    c.check(t2.done() and isinstance(t2.exception(), InvalidSessionError), 'refused_without_session')
    loop.cleanup()


META = {
    'level': 'other',
    'technique': 'symbolic execution of the real waiter-matching and completion code on z3 Int/Bool proxies (tickets, status, names as tokens, predicate thresholds), differential against a reference `answers` predicate; schedules are enumerated discriminants on a virtual event loop',
    'explanation': 'Real ExpectedResponse.matches, Network.create_server/peer_response_future, register_response_future, _remove_response_future, '
                   'on_message_received, wait_for_server_message, wait_for_peer_message and SoulSeekClient.execute run on a deterministic '
                   'virtual-time loop. Field values of waiters and messages (uint32 tickets, status, user/peer/file name tokens, predicate '
                   'thresholds) are z3 values: one path covers every value combination with the same match pattern, and z3 decides '
                   '"completed iff the reference says it answers" on each path. Which API registered the waiter, which were cancelled '
                   'in the same loop iteration, message kinds and back-to-back delivery are enumerated. Harness `othertype`: one pending request and a '
                   'message of every OTHER message class the real protocol module defines (158 classes; ids overlap between the server, '
                   'peer and distributed name spaces), on a connection of the expected class from a symbolic (possibly the expected) '
                   'peer, simple fields symbolic: never matches, never completes the request.',
    'functions': [ExpectedResponse.matches, Network.create_server_response_future, Network.create_peer_response_future,
                  Network.register_response_future, Network._remove_response_future, Network.on_message_received,
                  Network.wait_for_server_message, Network.wait_for_peer_message, SoulSeekClient.execute,
                  GetUserStatusCommand.build_expected_response],
    'stubs': ['Network built with its real constructor (real Settings, real EventBus), nothing started or connected; its own _MESSAGE_MAP emptied',
              'send_server_messages -> recorder', 'asyncio event loop -> engine.vloop.VLoop (virtual time)',
              'user/peer/file names are Int tokens while symbolic and strings in concrete replay (only ==/!= is applied to them)'],
    'data_variables': ['ticket (0..2^32-1)', 'status 0..3', 'predicate threshold k', 'user / peer / file name tokens (4 values each)',
                       'privileged / allowed flags'],
    'discriminants': ['registration API and matcher shape per waiter (11 kinds incl. None-valued matchers)', 'optional fields of the reply absent/present', 'cancelled-this-iteration per waiter', 'message kind (4)', 'class of the non-answering message (all message classes of aioslsk.protocol.messages, read from the code under test)',
                      'number of messages, back-to-back or with a loop turn in between', 'timeout scenario'],
    'bounds': {'quick': {'waiters': '1..2 (all 11 kinds, all pairs)', 'messages_back_to_back': 2, 'timeouts': [10, 60]},
               'thorough': {'waiters': '1..3 (all kinds; triples over 5 representative kinds)', 'messages_back_to_back': 2}},
    'outside': ['more waiters/messages than the bound', 'answering messages of classes other than the four used (matching code is class-generic); list/record fields of non-answering messages are None',
                'real sockets: messages are handed to on_message_received directly, as DataConnection._perform_message_callback does'],
    'assumptions': ['asyncio Future/Task semantics of CPython 3.12', 'async_timeout == asyncio.timeout semantics'],
}


def jobs(tier):
    out = [{'harness': 'matches', 'fn': h_matches, 'params': {}, 'requires': ['matched']}]
    ks = WAITER_KINDS
    for k in ks:
        out.append({'harness': 'dispatch', 'fn': h_dispatch, 'params': {'kinds': [k]}, 'requires': ['dispatched']})
    for a in ks:
        for b in ks:
            out.append({'harness': 'dispatch', 'fn': h_dispatch, 'params': {'kinds': [a, b]}, 'requires': ['dispatched']})
    if tier == 'thorough':
        rep = ['srv_status_user', 'srv_status_pred_then_user', 'srv_cannot_connect', 'peer_reply_ticket', 'registered_status_user']
        for a in rep:
            for b in rep:
                for d in rep:
                    out.append({'harness': 'dispatch', 'fn': h_dispatch, 'params': {'kinds': [a, b, d]}, 'requires': ['dispatched']})
    for k in WAITER_KINDS + EXTRA_WAITER_KINDS:
        out.append({'harness': 'othertype', 'fn': h_othertype, 'params': {'kind': k, 'scope': 'all'},
                    'requires': ['othertype_end']})
    for api in ('server', 'peer'):
        for sc in ('silence', 'non_answer', 'cancelled_then_message', 'message_in_timeout_iteration'):
            for to in ([10] if tier == 'quick' else [0.5, 10, 60]):
                out.append({'harness': 'timeout', 'fn': h_timeout, 'params': {'api': api, 'timeout': to, 'scenario': sc},
                            'requires': ['timeout_end']})
    for sc in ('reply', 'reply_during_send', 'silence', 'send_fails'):
        out.append({'harness': 'execute', 'fn': h_execute, 'params': {'scenario': sc}, 'requires': ['execute_end']})
    return out
