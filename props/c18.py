"""C18: search results reach only live requests; removal and timeouts are exact.

The real SearchManager (real constructor, real EventBus, real Settings), the real Timer /
BackgroundTask and the real ticket generator run on the virtual loop.  Symbolic data:
the position of the ticket generator (any value in 1..2^32-1, so the wrap is covered),
the ticket carried by every incoming reply (any uint32), every configured / server
provided time-out (any integer number of seconds) and every waiting time (any real number
of seconds).  The timer heap of the virtual loop is ordered by z3: a comparison between two
symbolic instants forks, so the order "reply / removal / expiry" - coincidence included - is
decided by the solver over all values, not enumerated.
"""
from __future__ import annotations

import asyncio
import contextvars
import ctypes
import itertools
from fractions import Fraction

import z3

from engine import symex
from engine.symex import SInt, And, Not
from engine.vloop import VLoop

from aioslsk.utils import ticket_generator
from aioslsk.tasks import Timer, BackgroundTask
from aioslsk.events import (EventBus, MessageReceivedEvent, SearchRequestSentEvent, SearchRequestRemovedEvent,
                            SearchResultEvent, ConnectionStateChangedEvent, SessionInitializedEvent, SessionDestroyedEvent)
from aioslsk.network.connection import ServerConnection, ConnectionState, CloseReason
from aioslsk.session import Session
from aioslsk.user.model import User
import aioslsk.search.manager as manager_mod
from aioslsk.search.manager import SearchManager
from aioslsk.search.model import SearchType
from aioslsk.settings import Settings, WishlistSettingEntry
from aioslsk.protocol.messages import PeerSearchReply, WishlistInterval

PROPERTY = 'C18'
U32 = 0xFFFFFFFF
MAX_T = 2 ** 32               # time-outs: 0 .. 2^32 s
MAX_D = 2 ** 36               # waits: 0 .. 2^36 s
PINNED_DEFAULT_WISHLIST_INTERVAL = 600   # documented default when the server has not announced an interval
DEFAULT_SETTINGS = {'credentials': {'username': 'me', 'password': 'pw'}}


# ------------------------------------------------------------------------------
# tickets: symbolic ints that can be keys of the real `dict`
# ------------------------------------------------------------------------------

class TInt(SInt):
    """an SInt with a constant hash.  In the real `SearchManager.requests` dict every
    key then lands in the same bucket and CPython decides the lookup with `==`, which
    returns an SBool and forks / is decided by z3.  Sound as long as *every* key and
    every probe is a TInt (enforced: see World.new_rec)."""
    __slots__ = ()

    def __hash__(self):
        return 0


def _tint_op(name):
    base = getattr(SInt, name)

    def op(self, o):
        r = base(self, o)
        return TInt(r.e) if type(r) is SInt else r
    op.__name__ = name
    return op


for _n in ('__add__', '__radd__', '__sub__', '__rsub__', '__mul__', '__rmul__', '__mod__', '__rmod__',
           '__floordiv__', '__rfloordiv__'):
    setattr(TInt, _n, _tint_op(_n))


def box(v):
    """python int / SInt -> TInt"""
    if isinstance(v, TInt):
        return v
    if isinstance(v, SInt):
        return TInt(v.e)
    if isinstance(v, bool) or not isinstance(v, int):
        raise symex.HarnessError(f'ticket of unexpected type {type(v)}')
    return TInt(z3.IntVal(v))


class BoxedTickets:
    """iterator around the real generator object: yields the same values, as TInt"""

    def __init__(self, gen):
        self.gen = gen

    def __iter__(self):
        return self

    def __next__(self):
        return box(next(self.gen))


class boxed_ticket_generators:
    """symbolic exploration only: every generator the search manager module creates through
    its global name `ticket_generator` is the real generator behind a BoxedTickets iterator
    (module global replaced for the duration of one path, then restored)"""

    def __init__(self, c):
        self.on = c.symbolic

    def __enter__(self):
        if self.on:
            g = manager_mod.__dict__
            self.saved = g.get('ticket_generator', _MISSING)
            real = self.saved if self.saved is not _MISSING else ticket_generator
            g['ticket_generator'] = lambda *a, **kw: BoxedTickets(real(*a, **kw))
        return self

    def __exit__(self, *exc):
        if self.on:
            g = manager_mod.__dict__
            if self.saved is _MISSING:
                g.pop('ticket_generator', None)
            else:
                g['ticket_generator'] = self.saved
        return False


_MISSING = object()


def with_boxed_tickets(h):
    import functools

    @functools.wraps(h)
    def run(c, **params):
        with boxed_ticket_generators(c):
            return h(c, **params)
    return run


def poke_position(gen, pos, boxed: bool) -> bool:
    """put the real, live generator object at an arbitrary position: the local variable
    that holds the last ticket is overwritten with `pos` (PyFrame_LocalsToFast); the
    code that computes the following tickets is the real one.  Returns False when the
    generator does not look like one (then the position stays what the constructor left)."""
    frame = getattr(gen, 'gi_frame', None)
    code = getattr(gen, 'gi_code', None)
    if frame is None or code is None:
        return False
    first = next(gen)
    if type(first) is not int:
        return False
    loc = frame.f_locals            # one snapshot; it is written back below
    params = set(code.co_varnames[:code.co_argcount + code.co_kwonlyargcount])
    names = [n for n, v in loc.items() if type(v) is int and v == first and n not in params]
    if len(names) != 1:
        return False
    for n, v in list(loc.items()):
        if n == names[0]:
            loc[n] = pos
        elif boxed and type(v) is int:
            loc[n] = box(v)      # e.g. `initial`: what the wrap resets to must be a TInt as well
    ctypes.pythonapi.PyFrame_LocalsToFast(ctypes.py_object(frame), ctypes.c_int(0))
    return True


def sym_position(c, where: str):
    """generator position as data variable.  where: any | low | wrap"""
    p = c.fresh_int('gen_position', 1, U32)
    if where == 'low':
        c.assume(p <= U32 - 16)
    elif where == 'wrap':
        c.assume(p > U32 - 16)
    return p


def dur(c, base, lo=0, hi=MAX_D):
    """a duration in seconds: a symbolic real.  In concrete replay the model value is used as an
    exact Fraction (the virtual clock of CLoop is a Fraction as well), so a replay follows the
    solver's arithmetic exactly instead of rounding to binary floating point."""
    n = c.names.get(base, 0)
    v = c.fresh_real(base, lo, hi)
    if c.symbolic:
        return v
    raw = c.model_in.get(base if n == 0 else f'{base}#{n}')
    return Fraction(raw) if raw is not None else Fraction(lo)


def iff(actual: bool, expected):
    if isinstance(expected, bool):
        return actual == expected
    return expected if actual else Not(expected)


ROLE = contextvars.ContextVar('c18_role', default=None)


class CLoop(VLoop):
    """VLoop whose schedule choice is two-way: when callbacks of the *user's* code and
    callbacks of the library's own tasks (timer tasks) are ready in the same instant, `choose(2)`
    decides which side runs next; within a side the order stays FIFO (what asyncio does).  This
    yields every interleaving of the two sides without permuting unrelated callbacks.  A
    callback belongs to the user side when the context it runs in carries ROLE == 'user'
    (tasks inherit the context they are created in; see as_library)."""

    def __init__(self):
        super().__init__()
        self.choose2 = None
        self.side_of: dict = {}       # coroutine qualname -> 'user' | None
        self.task_owner: dict = {}    # task -> the `self` of the coroutine method it runs
        self._time = Fraction(0)      # exact virtual clock (see dur)

    def step(self) -> bool:
        if self.choose2 is None:
            return super().step()
        self._move_due_timers()
        live = [h for h in self._ready if not h._cancelled]
        if not live:
            self._ready.clear()
            return False
        user = next((h for h in live if h._context.get(ROLE) == 'user'), None)
        lib = next((h for h in live if h._context.get(ROLE) != 'user'), None)
        if user is not None and lib is not None:
            h = (user, lib)[self.choose2()]
        else:
            h = live[0]
        for i, x in enumerate(self._ready):      # by identity: TimerHandle.__eq__ would compare (symbolic) instants
            if x is h:
                del self._ready[i]
                break
        self.steps += 1
        self._enter()
        try:
            h._run()
        finally:
            self._leave()
        return True

    def create_task(self, coro, *, name=None, context=None):
        """tasks whose coroutine function is listed in `side_of` get that side, whatever context
        they are created in (the periodic wishlist task = 'user' side, the Timer tasks it creates =
        library side)"""
        side = self.side_of.get(getattr(getattr(coro, 'cr_code', None), 'co_qualname', None), _MISSING)
        if side is not _MISSING:
            context = context.copy() if context is not None else contextvars.copy_context()
            context.run(ROLE.set, side)
        t = super().create_task(coro, name=name, context=context)
        frame = getattr(coro, 'cr_frame', None)
        if frame is not None:
            self.task_owner[t] = frame.f_locals.get('self')      # e.g. the Timer whose runner() this task executes
        return t

    def spawn_user(self, coro):
        ctx = contextvars.copy_context()
        ctx.run(ROLE.set, 'user')
        self._enter()
        try:
            return self.create_task(coro, context=ctx)
        finally:
            self._leave()


def as_library(fn, *a, **kw):
    """run a library call made from user code such that the tasks it creates are not
    counted as user code"""
    tok = ROLE.set(None)
    try:
        return fn(*a, **kw)
    finally:
        ROLE.reset(tok)


# ------------------------------------------------------------------------------
# the world: real manager + observers + reference bookkeeping
# ------------------------------------------------------------------------------

class FakeNet:
    def __init__(self, delay=None):
        self.sent = []
        self.delay = delay       # None: a send returns at once; else a function giving the (symbolic) duration

    async def send_server_messages(self, *msgs):
        self.sent.extend(msgs)
        if self.delay is not None:
            await asyncio.sleep(self.delay())


class FakeConn:
    """connection of an incoming message.  delay=None: disconnect() returns without suspending;
    else a function giving the (symbolic) time disconnect() stays suspended - the real
    PeerConnection.disconnect awaits state callbacks and writer.wait_closed(), so removals and
    expiries can land while the reply handler waits for it (duration 0 = one bare yield)."""

    def __init__(self, delay=None):
        self.closed = 0
        self.delay = delay

    async def disconnect(self, reason=None):
        self.closed += 1
        if self.delay is not None:
            await asyncio.sleep(self.delay())


class Ev:
    __slots__ = ('kind', 'req', 'time', 'result', 'state')

    def __init__(self, kind, req, time, result=None, state=None):
        self.kind, self.req, self.time, self.result, self.state = kind, req, time, result, state


class Rec:
    """what the reference knows about one request that was sent"""
    __slots__ = ('req', 'ticket', 'kind', 'sent_at', 'timeout', 'deadline', 'manual')

    def __init__(self, req, kind, sent_at, timeout):
        self.req, self.ticket, self.kind, self.sent_at, self.timeout = req, req.ticket, kind, sent_at, timeout
        self.deadline = None if timeout is None else sent_at + timeout
        self.manual = False


class World:

    def __init__(self, c, position='any', slow_send=False, slow_disconnect=False, listeners=(), sent_listeners=(),
                 remove_on_sent=None, remove_nth=0):
        self.c = c
        self.remove_on_sent = remove_on_sent      # None | 'listener' | 'task': who removes the request while it is being announced
        self.remove_nth = remove_nth              # which announced request (in order of announcement)
        self.slow_disconnect = slow_disconnect
        self.session = None
        self.stopped = False
        self.loop = CLoop()
        self.settings = Settings(**DEFAULT_SETTINGS)
        self.settings.searches.wishlist = [WishlistSettingEntry(query='wish one'),
                                           WishlistSettingEntry(query='wish off', enabled=False),
                                           WishlistSettingEntry(query='wish two')]
        self.bus = EventBus()
        self.net = FakeNet((lambda: dur(c, f'send_takes{next(self.counter)}')) if slow_send else None)
        self.mgr = SearchManager(self.settings, self.bus, None, None, self.net)
        self.events: list[Ev] = []
        self.recs: list[Rec] = []
        self.own_tasks: set = set()
        self.checked_tasks: set = set()
        self.n_errors_seen = 0
        self.harness_errors: list[str] = []
        # reference copies of the time-out configuration in force
        self.T = 0
        self.W = -1
        self.I = None
        self.counter = itertools.count()
        self.once: set = set()     # obligations already asked for unchanged inputs
        self.keep: list = []      # keeps objects alive whose id() is used as a key
        self.bus.register(SearchRequestSentEvent, self._on_sent)
        self.bus.register(SearchRequestRemovedEvent, self._on_removed)
        self.bus.register(SearchResultEvent, self._on_result)
        # further listeners of the application, registered after the observers above (same priority => called after them)
        self.listener_kinds = list(listeners)
        self.deliveries: list = []      # (listener index, 'removed'|'result', request, result, 'start'|'done')
        self._extra = []
        for k, kind in enumerate(self.listener_kinds):
            for evkind, cls in (('removed', SearchRequestRemovedEvent), ('result', SearchResultEvent)):
                fn = self._make_listener(k, kind, evkind)
                self._extra.append(fn)          # the bus keeps weak references only
                self.bus.register(cls, fn)
        self.sent_listener_kinds = list(sent_listeners)
        for k, kind in enumerate(self.sent_listener_kinds):
            fn = self._make_sent_listener(k, kind)
            self._extra.append(fn)
            self.bus.register(SearchRequestSentEvent, fn)
        self._install_tickets(position)

    def _make_sent_listener(self, k, kind):
        """an application listener of SearchRequestSentEvent (kinds as in _make_listener).  With
        remove_on_sent='listener' the first of them calls remove_request() for the request that is being
        announced, from inside the dispatch."""
        c = self.c

        def begin(event):
            self.deliveries.append((k, 'sent', event.query, None, 'start'))
            if self.remove_on_sent == 'listener' and k == 0:
                r = self._announced(event.query)
                if r is not None and self.is_registered(r):
                    self.say('listener removes the request it is told about')
                    self.remove(r)
                    c.reach('removed_during_sent_dispatch')

        def end(event):
            self.deliveries.append((k, 'sent', event.query, None, 'done'))
        if kind == 'sync':
            def listener(event):
                begin(event)
                end(event)
        elif kind == 'async':
            async def listener(event):
                begin(event)
                end(event)
        elif kind == 'yield':
            async def listener(event):
                begin(event)
                await asyncio.sleep(dur(c, f'listener{k}_sent_takes'))
                end(event)
        else:
            raise symex.HarnessError(f'listener kind {kind}')
        return listener

    def _announced(self, req):
        """the record of `req` if it is the one chosen for removal during its announcement"""
        r = next((r for r in self.recs if r.req is req), None)
        if r is not None and self.recs.index(r) == self.remove_nth:
            return r
        return None

    async def _remover_task(self, r):
        """another task of the application: removes the request a symbolic time after its announcement
        began - while a yielding listener is still suspended, or later (decided by z3)"""
        try:
            await asyncio.sleep(dur(self.c, 'remover_delay'))
            if self.is_registered(r):
                in_dispatch = any(d[1] == 'sent' and d[2] is r.req and d[4] == 'start' and
                                  not any(e[0] == d[0] and e[1] == 'sent' and e[2] is r.req and e[4] == 'done' for e in self.deliveries)
                                  for d in self.deliveries)
                self.say('another task removes the request', 'during' if in_dispatch else 'after', 'its announcement')
                self.remove(r)
                if in_dispatch:
                    self.c.reach('removed_during_sent_dispatch')
        except Exception as e:  # noqa
            self.harness_errors.append(f'remover task raised {e!r}')

    def _make_listener(self, k, kind, evkind):
        """an application listener.  sync: plain function; async: coroutine function that never
        suspends; yield: coroutine function that really suspends, for a fresh symbolic time (0 = one
        bare yield), as a listener doing any I/O would"""
        c = self.c

        def note(event, phase):
            self.deliveries.append((k, evkind, event.query, getattr(event, 'result', None), phase))
        if kind == 'sync':
            def listener(event):
                note(event, 'start')
                note(event, 'done')
        elif kind == 'async':
            async def listener(event):
                note(event, 'start')
                note(event, 'done')
        elif kind == 'yield':
            async def listener(event):
                note(event, 'start')
                await asyncio.sleep(dur(c, f'listener{k}_{evkind}_takes'))
                note(event, 'done')
        else:
            raise symex.HarnessError(f'listener kind {kind}')
        return listener

    # ---- ticket generator ---------------------------------------------------
    def _install_tickets(self, position):
        c = self.c
        g = getattr(self.mgr, '_ticket_generator', None)
        raw = g.gen if isinstance(g, BoxedTickets) else g
        if position == 'constructor':
            c.reach('generator_position_constructor')
        else:
            p = sym_position(c, position)
            if raw is not None and poke_position(raw, box(p) if c.symbolic else p, boxed=c.symbolic):
                c.reach('generator_position_symbolic')
            else:
                c.note('generator position could not be set; tickets start where the constructor left them')
        if c.symbolic and raw is not None and not isinstance(g, BoxedTickets):
            self.mgr._ticket_generator = BoxedTickets(raw)

    # ---- observers (never raise in here: EventBus.emit swallows Exception) -----------
    def _on_sent(self, event):
        # first listener of the dispatch: this instant is the one the reference pins as "sent" (in the
        # code as it stands the request is registered and its timer armed in this very instant)
        self.new_rec(event.query)
        if self.remove_on_sent == 'task':
            r = self._announced(event.query)
            if r is not None:
                t = self.loop.create_task(self._remover_task(r))
                self.own_tasks.add(t)

    def say(self, *a):
        """trace for concrete replays (shown by ./vcheck replay)"""
        if not self.c.symbolic:
            self.c.note(f't={float(self.loop.time()):g}', *[str(x) for x in a])

    def _on_removed(self, event):
        self.events.append(Ev('removed', event.query, self.loop.time()))
        self.say('SearchRequestRemovedEvent ticket', event.query.ticket)

    def _on_result(self, event):
        # what the request is at the moment the event is emitted: live | removed_by_user | timed_out
        rec = next((r for r in self.recs if r.req is event.query), None)
        state = self.state_of(rec, self.registered()) if rec is not None else 'never_sent'
        self.events.append(Ev('result', event.query, self.loop.time(), event.result, state))
        self.say('SearchResultEvent for request ticket', event.query.ticket)

    def new_rec(self, req):
        if any(r.req is req for r in self.recs):
            return
        if self.c.symbolic and not isinstance(req.ticket, TInt):
            self.harness_errors.append(f'ticket {req.ticket!r} did not come out of the (boxed) ticket generator')
            return
        kind = getattr(getattr(req, 'search_type', None), 'name', '?')
        self.recs.append(Rec(req, kind, self.loop.time(), self.expected_timeout(kind)))
        self.say('sent', kind, 'ticket', req.ticket, 'timeout', self.recs[-1].timeout)

    def expected_timeout(self, kind):
        """reference (docs/source/SETTINGS.rst): request_timeout: 0 = keep indefinitely;
        wishlist_request_timeout: 0 = keep indefinitely, -1 = the interval advertised by the server"""
        if kind == SearchType.WISHLIST.name:
            if bool(self.W >= 0):
                eff = self.W
            else:
                eff = self.I if self.I is not None else PINNED_DEFAULT_WISHLIST_INTERVAL
        else:
            eff = self.T
        return eff if bool(eff > 0) else None

    def discover(self):
        """requests that appeared in `requests` without a sent event"""
        for req in list(self.mgr.requests.values()):
            self.new_rec(req)

    def is_registered(self, r: Rec) -> bool:
        return any(x is r.req for x in self.mgr.requests.values())

    def registered(self):
        return [r for r in self.recs if self.is_registered(r)]

    def fail_if_harness_errors(self):
        if self.harness_errors:
            raise symex.HarnessError('; '.join(self.harness_errors[:3]))

    # ---- running API calls ----------------------------------------------------
    def run_op(self, coro, what, wait=True):
        t = self.loop.spawn(coro)
        self.own_tasks.add(t)
        self.loop.run_ready()
        if not wait and not t.done():
            return None, None          # still sending; it completes while time passes
        if not t.done() or t.cancelled():
            raise symex.HarnessError(f'{what} did not finish within the instant')
        exc = t.exception()
        self.fail_if_harness_errors()
        return exc, (None if exc is not None else t.result())

    # configuration ------------------------------------------------------------
    def set_request_timeout(self, lo=0):
        c = self.c
        T = c.fresh_int(f'request_timeout{next(self.counter)}', lo, MAX_T)
        self.T = T
        send = self.settings.searches.send
        if c.symbolic:
            send.__dict__['request_timeout'] = T      # a proxy cannot pass pydantic's int validation
        else:
            send.request_timeout = T
        return T

    def set_wishlist_timeout(self):
        c = self.c
        W = c.fresh_int(f'wishlist_request_timeout{next(self.counter)}', -1, MAX_T)
        self.W = W
        send = self.settings.searches.send
        if c.symbolic:
            send.__dict__['wishlist_request_timeout'] = W
        else:
            send.wishlist_request_timeout = W
        return W

    async def a_server_interval(self, interval, keep_running: bool):
        """WishlistInterval from the server through the real handler.  keep_running=False:
        the periodic task the handler starts is cancelled before its first step (rounds
        are then started explicitly by the scenario)."""
        self.I = interval
        await self.mgr._on_message_received(MessageReceivedEvent(WishlistInterval.Response(interval=interval), FakeConn()))
        if not keep_running:
            self.mgr._wishlist_task.cancel()

    async def a_relogin(self):
        """the server connection is lost and the client logs in again, as SoulSeekClient does it:
        ConnectionStateChangedEvent(CLOSING), (CLOSED), SessionDestroyedEvent (when a session existed),
        then SessionInitializedEvent with a new Session - all through the real EventBus, handled by the
        manager's real listeners.  Requests that are registered survive this."""
        conn = ServerConnection('server', 2416, self.net)
        for state in (ConnectionState.CLOSING, ConnectionState.CLOSED):
            await self.bus.emit(ConnectionStateChangedEvent(conn, state, CloseReason.EOF))
        if self.session is not None:
            old, self.session = self.session, None
            await self.bus.emit(SessionDestroyedEvent(old))
        self.session = Session(user=User('me'), ip_address='1.2.3.4', greeting='', client_version=157, minor_version=100)
        await self.bus.emit(SessionInitializedEvent(self.session, None))
        g = getattr(self.mgr, '_ticket_generator', None)
        if self.c.symbolic and g is not None and not isinstance(g, BoxedTickets):
            self.mgr._ticket_generator = BoxedTickets(g)
        self.say('session lost and re-initialised')
        self.c.reach('relogin')

    # searches -----------------------------------------------------------------
    async def a_search(self, kind):
        n = next(self.counter)
        tok = ROLE.set(None)     # tasks created in here (timers) are the library's, not the user's
        try:
            if kind == 'S':
                req = await self.mgr.search(f'query {n}')
            elif kind == 'R':
                req = await self.mgr.search_room('room', f'query {n}')
            else:
                req = await self.mgr.search_user('user', f'query {n}')
        finally:
            ROLE.reset(tok)
        self.new_rec(req)
        self.discover()
        return req

    async def a_wishlist_round(self):
        await self.mgr._wishlist_job()
        self.discover()

    # manual removal --------------------------------------------------------------
    def remove(self, r: Rec):
        c = self.c
        try:
            self.mgr.remove_request(r.req)
        except Exception as e:  # noqa
            c.check(False, 'manual_removal_succeeds', sig=[type(e).__name__, 'timeout' if r.deadline is not None else 'no_timeout'],
                    info=repr(e))
        r.manual = True
        self.say('remove_request ticket', r.ticket)
        c.reach('manual_removal')

    # replies ------------------------------------------------------------------
    async def a_reply(self, m):
        """an incoming PeerSearchReply with ticket m, through the manager's message listener.
        The handler may stay suspended (slow disconnect); removals / expiries may land meanwhile.
        Reference: a result event for request r is legitimate iff r is registered *at the moment the
        event is emitted* and the reply carries r's ticket; it is due when r was registered with that
        ticket during the whole handling (from arrival to the return of the handler)."""
        c = self.c
        who = f'peer{next(self.counter)}'      # identifies the events of this reply
        msg = PeerSearchReply.Request(username=who, ticket=m, results=[], has_slots_free=True, avg_speed=0, queue_size=0)
        conn = FakeConn((lambda: dur(c, f'disconnect_takes_{who}')) if self.slow_disconnect else None)
        live = self.registered()
        exc = None
        self.say('PeerSearchReply ticket', m)
        try:
            await self.mgr._on_message_received(MessageReceivedEvent(msg, conn))
        except Exception as e:  # noqa
            exc = e
        new = [e for e in self.events if e.kind == 'result' and getattr(e.result, 'username', None) == who]
        still = self.registered()
        states = sorted({self.state_of(r, live) for r in self.recs}) or ['no_request']
        c.check(exc is None, 'reply_handled_without_error', sig=[type(exc).__name__, states], info=repr(exc))
        for r in self.recs:
            evs = [e for e in new if e.req is r.req]
            if len(evs) > 1:
                c.check(False, 'result_reported_once_per_reply', sig=[self.state_of(r, live)])
            elif evs:
                st = evs[0].state
                c.check((m == r.ticket) if st == 'live' else False, 'result_iff_registered_and_ticket', sig=[st, 'reported'],
                        info={'request': self.recs.index(r)})
            elif any(x is r for x in live) and any(x is r for x in still):
                c.check(Not(m == r.ticket) if c.symbolic else m != r.ticket, 'result_iff_registered_and_ticket',
                        sig=['live', 'not_reported'], info={'request': self.recs.index(r)})
            else:
                c.check(True, 'result_iff_registered_and_ticket')
        c.check(all(any(e.req is r.req for r in self.recs) for e in new), 'result_for_a_sent_request')
        for e in new:
            c.check(getattr(e.result, 'ticket', None) == m, 'result_carries_reply_ticket')
        c.reach('reply')
        if new:
            c.reach('reply_reported')
        else:
            c.reach('reply_dropped')
        if new and any(r.manual for r in self.recs):
            c.reach('reply_reported_after_some_manual_removal')
        if len(still) < len([r for r in live]) or any(not any(x is r for x in still) for r in live):
            c.reach('removed_while_reply_in_flight')

    def state_of(self, r, live):
        if any(x is r for x in live):
            return 'live'
        return 'removed_by_user' if r.manual else 'timed_out'

    # ---- the invariants of the property, looked at whenever the harness looks ------------
    def observe(self, quiescent=True):
        """the clauses of the property, evaluated against the reference.  Obligations whose
        inputs did not change since the last look are not asked again."""
        c = self.c
        now = self.loop.time()
        once = self.once
        for i, r in enumerate(self.recs):
            reg = self.is_registered(r)
            rem = [e for e in self.events if e.kind == 'removed' and e.req is r.req]
            how = 'user_removed' if r.manual else 'not_user_removed'
            to = 'timeout' if r.deadline is not None else 'no_timeout'
            c.check(len(rem) <= 1, 'removal_reported_at_most_once', sig=[r.kind, how])
            c.check(reg == (not rem and not r.manual), 'registered_iff_not_removed',
                    sig=[r.kind, how, to, 'registered' if reg else 'not_registered'])
            if rem:
                # (a removal the user asked for may be reported whenever the library likes, or not at all)
                if not r.manual and ('rem', i, len(rem)) not in once:
                    once.add(('rem', i, len(rem)))
                    if r.deadline is None:
                        c.check(False, 'removal_only_with_timeout', sig=[r.kind])
                    else:
                        for e in rem:
                            c.check(e.time == r.deadline, 'removal_at_timeout_not_before', sig=[r.kind, how])
            elif r.deadline is not None and not r.manual and not getattr(self, 'stopped', False):
                # not yet reported => its time-out has not been reached (after SearchManager.stop() the library owes
                # nothing any more: stop() cancels the timers of pending requests, see C16 'stop is final')
                key = ('due', i, id(now), quiescent)
                if key not in once:
                    once.add(key)
                    self.keep.append(now)
                    c.check(now < r.deadline if quiescent else now <= r.deadline, 'removed_when_timeout_reached', sig=[r.kind])
            if ('u32', i) not in once:
                once.add(('u32', i))
                t = r.ticket
                c.check(And(t >= 0, t <= U32) if c.symbolic else 0 <= t <= U32, 'ticket_is_uint32', sig=[r.kind])
        live = [i for i, r in enumerate(self.recs) if self.is_registered(r)]
        for a, b in itertools.combinations(live, 2):
            if ('distinct', a, b) not in once:
                once.add(('distinct', a, b))
                c.check(self.recs[a].ticket != self.recs[b].ticket, 'live_tickets_distinct', sig=[self.recs[a].kind, self.recs[b].kind])
        self.check_errors()

    def check_errors(self):
        c = self.c
        ctx = 'user_removed_a_request' if any(r.manual for r in self.recs) else 'no_user_removal'
        errs = self.loop.errors[self.n_errors_seen:]
        self.n_errors_seen = len(self.loop.errors)
        for e in errs:
            c.check(False, 'no_loop_error', sig=[type(e.get('exception')).__name__, ctx], info=repr(e)[:300])
        for t in list(self.loop.created_tasks):
            if t in self.checked_tasks or not t.done():
                continue
            self.checked_tasks.add(t)
            if t.cancelled() or t in self.own_tasks:
                continue
            exc = t.exception()
            if exc is not None:
                self.say('library task finished with', repr(exc))
                c.check(False, 'no_task_exception', sig=[type(exc).__name__, ctx], info=repr(exc))
        self.fail_if_harness_errors()

    def check_deliveries(self):
        """after the loop has drained: every application listener has received every removal / result
        that was reported (to the first observer) exactly once and has run to completion"""
        c = self.c
        if not self.listener_kinds:
            return
        for evkind, label in (('removed', 'removal_reported_to_every_listener'), ('result', 'result_reported_to_every_listener')):
            groups = []          # (request, result) -> number of reports seen by the observer
            for e in self.events:
                if e.kind != evkind:
                    continue
                g = next((g for g in groups if g[0] is e.req and g[1] is e.result), None)
                if g is None:
                    groups.append([e.req, e.result, 1])
                else:
                    g[2] += 1
            for req, result, n in groups:
                for k, kind in enumerate(self.listener_kinds):
                    starts = sum(1 for d in self.deliveries if d[0] == k and d[1] == evkind and d[2] is req and d[3] is result and d[4] == 'start')
                    dones = sum(1 for d in self.deliveries if d[0] == k and d[1] == evkind and d[2] is req and d[3] is result and d[4] == 'done')
                    before = [self.listener_kinds[j] for j in range(k)]
                    what = 'ok' if starts == n == dones else 'not_delivered' if starts < n else 'aborted' if dones < starts else 'too_often'
                    if what != 'ok':
                        self.say(f'listener {k} ({kind}) of {evkind}: {what}; started {starts}, completed {dones}, reported {n}')
                    c.check(what == 'ok', label, sig=[kind, what, 'after_yielding_listener' if 'yield' in before else 'first_or_after_plain'])
                c.reach(evkind + '_reported_to_listeners')

    def check_timer_tasks(self):
        """no library task of a request that timed out ended cancelled (or failed): the timer task of a
        request whose time-out was reached has to run to its end"""
        c = self.c
        owners = getattr(self.loop, 'task_owner', {})
        for r in self.recs:
            timer = getattr(r.req, 'timer', None)
            timed_out = any(e.kind == 'removed' and e.req is r.req for e in self.events) and not r.manual and not self.stopped
            if timer is None or not timed_out:
                continue
            for t, o in owners.items():
                if o is timer:
                    ok = t.done() and not t.cancelled()
                    if not ok:
                        self.say('timer task of the timed-out request', r.ticket, 'cancelled' if t.done() else 'still pending')
                    c.check(ok, 'no_task_cancelled', sig=[r.kind, 'timer_of_timed_out_request', 'cancelled' if t.done() else 'pending'])

    def finish(self):
        """let calls that are still sending complete and every armed time-out be reached, then
        drain the loop"""
        self.loop.run_until_quiet()
        self.discover()
        for r in list(self.recs):
            if r.deadline is not None:
                self.loop.advance_to(r.deadline)
        self.observe()
        self.loop.run_until_quiet()
        self.observe()
        self.check_deliveries()
        self.check_timer_tasks()
        for t in self.own_tasks:
            if not t.done():
                raise symex.HarnessError('an API call of the scenario never returned')
            if not t.cancelled() and t.exception() is not None:
                raise symex.HarnessError(f'an API call of the scenario raised {t.exception()!r}')
        self.c.reach('scenario_end')
        self.loop.cleanup()


# ------------------------------------------------------------------------------
# H1: k consecutive tickets from any generator position
# ------------------------------------------------------------------------------

def h_tickets(c, k=8, position='any'):
    gen = ticket_generator()
    if position == 'constructor':
        c.reach('generator_position_constructor')
    else:
        p = sym_position(c, position)
        if poke_position(gen, SInt(p.e) if c.symbolic else p, boxed=False):
            c.reach('generator_position_symbolic')
        else:
            c.note('generator position could not be set')
    ts = [next(gen) for _ in range(k)]
    for t in ts:
        c.check(And(t >= 0, t <= U32) if c.symbolic and not isinstance(t, int) else 0 <= t <= U32, 'ticket_is_uint32', sig=['generator'])
    for i, j in itertools.combinations(range(k), 2):
        c.check(ts[i] != ts[j], 'consecutive_tickets_distinct', sig=['generator'], info={'i': i, 'j': j})
    c.reach('tickets_end')


# ------------------------------------------------------------------------------
# H2: histories of searches / wishlist rounds / removals / replies / waiting
# ------------------------------------------------------------------------------

OPS_DOC = {
    'T': 'set searches.send.request_timeout to a fresh symbolic integer 0..2^32',
    'W': 'set searches.send.wishlist_request_timeout to a fresh symbolic integer -1..2^32',
    'I': 'WishlistInterval from the server with a fresh symbolic uint32 (real handler)',
    'S': 'search()', 'R': 'search_room()', 'U': 'search_user()',
    'L': 'one wishlist round (_wishlist_job; 2 enabled items, 1 disabled)',
    'X': 'remove_request() of one of the registered requests (which one: discriminant)',
    'P': 'incoming PeerSearchReply with a fresh symbolic uint32 ticket',
    'Q': 'incoming PeerSearchReply carrying the ticket of one of the requests sent so far (which one: discriminant)',
    'D': 'a fresh symbolic amount of time passes',
    'Z': 'the session is lost and re-initialised (state change + SessionDestroyed + SessionInitialized events on the real bus)',
}


@with_boxed_tickets
def h_scenario(c, ops='TSDPD', position='low', send='instant', disconnect='instant', listeners=(), sent_listeners=(),
               remove_on_sent=None, remove_nth=0):
    """disconnect='slow': the connection's disconnect() awaited by the reply handler stays suspended
    for a fresh symbolic time, so later ops (removal, time passing = expiries) land inside the handling"""
    w = World(c, position, slow_send=(send == 'slow'), slow_disconnect=(disconnect == 'slow'), listeners=listeners,
              sent_listeners=sent_listeners, remove_on_sent=remove_on_sent, remove_nth=remove_nth)
    wait = send == 'instant' and 'yield' not in sent_listeners      # else search() stays in its announcement
    rwait = disconnect == 'instant' and 'yield' not in listeners      # else the reply may stay in flight
    for i, op in enumerate(ops):
        if op == 'T':
            w.set_request_timeout()
        elif op == 'W':
            w.set_wishlist_timeout()
        elif op == 'I':
            interval = c.fresh_int(f'server_interval{i}', 0, U32)
            exc, _ = w.run_op(w.a_server_interval(interval, keep_running=False), 'server interval')
            if exc is not None:
                raise symex.HarnessError(f'WishlistInterval handler raised {exc!r}')
        elif op == 'Z':
            exc, _ = w.run_op(w.a_relogin(), 'relogin')
            if exc is not None:
                raise symex.HarnessError(f'session events raised {exc!r}')
        elif op in 'SRU':
            exc, _ = w.run_op(w.a_search(op), 'search', wait)
            if exc is not None:
                raise symex.HarnessError(f'search raised {exc!r}')
        elif op == 'L':
            exc, _ = w.run_op(w.a_wishlist_round(), 'wishlist round', wait)
            if exc is not None:
                raise symex.HarnessError(f'_wishlist_job raised {exc!r}')
        elif op == 'X':
            live = w.registered()
            if not live:
                c.reach('nothing_to_remove')
            else:
                r = live[c.choose(len(live), f'remove_which{i}')]
                w.loop.call(w.remove, r)
        elif op == 'P':
            m = c.fresh_int(f'reply_ticket{i}', 0, U32)
            w.run_op(w.a_reply(box(m) if c.symbolic else m), 'reply', rwait)
        elif op == 'Q':
            if not w.recs:
                c.reach('nothing_to_answer')
            else:
                r = w.recs[c.choose(len(w.recs), f'answer_which{i}')]
                w.run_op(w.a_reply(r.ticket), 'reply', rwait)
        elif op == 'D':
            w.loop.advance(dur(c, f'wait{i}'))
        else:
            raise symex.HarnessError(f'unknown op {op}')
        w.observe()
    w.finish()


# ------------------------------------------------------------------------------
# H3: removal / reply / new search at a symbolic instant, every order of the loop's
# ready callbacks (the instant may coincide with the time-out: decided by z3)
# ------------------------------------------------------------------------------

@with_boxed_tickets
def h_instant(c, users=('remove',), two_requests=False, position='low', disconnect='instant'):
    w = World(c, position, slow_disconnect=(disconnect == 'slow'))
    loop = w.loop
    w.set_request_timeout(lo=1)
    exc, a_req = w.run_op(w.a_search('S'), 'search')
    if exc is not None:
        raise symex.HarnessError(f'search raised {exc!r}')
    targets = [w.recs[0]]
    if two_requests:
        loop.advance(dur(c, 'gap'))
        w.set_request_timeout(lo=1)
        exc, _ = w.run_op(w.a_search('R'), 'search')
        if exc is not None:
            raise symex.HarnessError(f'search raised {exc!r}')
        targets.append(w.recs[1])
    w.observe()

    async def user(j, kind):
        await asyncio.sleep(dur(c, f'user{j}_delay'))
        r = targets[j % len(targets)]
        if kind == 'remove':
            if w.is_registered(r):
                w.remove(r)
                c.reach('removed_in_flight')
        elif kind == 'reply':
            await w.a_reply(r.ticket)
        elif kind == 'reply_any':
            m = c.fresh_int(f'reply_ticket{j}', 0, U32)
            await w.a_reply(box(m) if c.symbolic else m)
        elif kind == 'search':
            await w.a_search('U')
        else:
            raise symex.HarnessError(kind)
        w.observe(quiescent=False)

    tasks = []
    for j, kind in enumerate(users):
        t = loop.spawn_user(guard(w, user(j, kind)))
        w.own_tasks.add(t)
        tasks.append(t)
    loop.run_ready()
    loop.choose2 = lambda: c.choose(2, 'sched')
    loop.run_until_quiet()
    loop.choose2 = None
    if not all(t.done() for t in tasks):
        raise symex.HarnessError('user task did not finish')
    w.fail_if_harness_errors()
    w.finish()


async def guard(w, coro):
    try:
        await coro
    except Exception as e:  # noqa
        w.harness_errors.append(f'user task raised {e!r}')


# ------------------------------------------------------------------------------
# H4: the Timer itself: start / cancel / reschedule at symbolic instants
# ------------------------------------------------------------------------------

def h_timer(c, script='wc', picker=True):
    """script: w = wait a symbolic time, y = yield to the loop without time passing,
    c = cancel(), r = reschedule(new symbolic timeout), n = reschedule().  The timer is
    started at a symbolic instant with a symbolic timeout before the script runs."""
    loop = CLoop()
    fires = []        # (time, arming current at that moment or None, n-th fire of that arming)
    armings = []      # {'deadline', 'superseded_at', 'fired'}
    st = {'cur': None, 'timeout': None}
    herr = []

    def say(*a):
        if not c.symbolic:
            c.note(f't={float(loop.time()):g}', *[str(x) for x in a])

    async def callback():
        cur = st['cur']
        if not c.symbolic:
            say('callback runs; current arming:', 'none (cancelled)' if cur is None else f"#{cur} due {float(armings[cur]['deadline']):g}")
        if cur is not None:
            armings[cur]['fired'] += 1
        fires.append((loop.time(), cur, armings[cur]['fired'] if cur is not None else 0))

    def arm(timeout):
        if timeout is not None:
            st['timeout'] = timeout
        supersede()
        armings.append({'deadline': loop.time() + st['timeout'], 'superseded_at': None, 'fired': 0})
        st['cur'] = len(armings) - 1

    def supersede():
        cur = st['cur']
        if cur is not None and armings[cur]['superseded_at'] is None:
            armings[cur]['superseded_at'] = loop.time()
        st['cur'] = None

    t0 = dur(c, 'timer_timeout')
    timer = Timer(t0, callback)

    async def user():
        await asyncio.sleep(dur(c, 'start_at'))
        arm(t0)
        say('start, timeout', t0)
        as_library(timer.start)
        for i, op in enumerate(script):
            if op == 'w':
                await asyncio.sleep(dur(c, f'wait{i}'))
            elif op == 'y':
                await asyncio.sleep(0)
            elif op == 'c':
                supersede()
                say('cancel()')
                as_library(timer.cancel)
            elif op == 'r':
                t = dur(c, f'timeout{i}')
                arm(t)
                say('reschedule, timeout', t)
                as_library(timer.reschedule, t)
            elif op == 'n':
                arm(None)
                say('reschedule()')
                as_library(timer.reschedule)
            else:
                herr.append(f'unknown op {op}')

    async def guarded():
        try:
            await user()
        except Exception as e:  # noqa
            herr.append(repr(e))

    ut = loop.spawn_user(guarded())
    if picker:
        loop.choose2 = lambda: c.choose(2, 'sched')
    loop.run_until_quiet()
    loop.choose2 = None
    if herr or not ut.done():
        raise symex.HarnessError(f'timer script failed: {herr}')
    c.reach('timer_end')
    sig0 = [script]
    for (t, cur, nth) in fires:
        c.reach('timer_fired')
        if cur is None:
            c.check(False, 'cancelled_timer_never_fires', sig=sig0)
            continue
        c.check(t == armings[cur]['deadline'], 'fires_only_at_current_deadline', sig=sig0)
        c.check(nth == 1, 'fires_once_per_arming', sig=sig0)
    for k, a in enumerate(armings):
        if a['superseded_at'] is None:
            c.check(a['fired'] == 1, 'armed_timer_fires', sig=sig0)
        elif a['fired'] == 0:
            # not fired although superseded: fine unless the deadline lay strictly before the supersession
            c.check(a['superseded_at'] <= a['deadline'], 'armed_timer_fires', sig=sig0)
    c.check(not loop.errors, 'no_loop_error', sig=['timer'], info=repr(loop.errors[:1])[:300])
    for t in loop.created_tasks:
        if t.done() and not t.cancelled() and t is not ut and t.exception() is not None:
            c.check(False, 'no_task_exception', sig=[type(t.exception()).__name__, 'timer'])
    loop.cleanup()


# ------------------------------------------------------------------------------
# H5: the periodic wishlist task with the interval provided by the server
# ------------------------------------------------------------------------------

@with_boxed_tickets
def h_wishlist_bg(c, wmode='server', picker=False, position='low', items=2):
    w = World(c, position)
    loop = w.loop
    loop.side_of = {'BackgroundTask.runner': 'user', 'Timer.runner': None}
    if items == 1:
        w.settings.searches.wishlist = w.settings.searches.wishlist[:2]      # one enabled, one disabled
    if wmode == 'symbolic':
        w.set_wishlist_timeout()
    loop.advance(dur(c, 'logon_at'))
    interval = c.fresh_int('server_interval', 1, U32)
    exc, _ = w.run_op(w.a_server_interval(interval, keep_running=True), 'server interval')
    if exc is not None:
        raise symex.HarnessError(f'WishlistInterval handler raised {exc!r}')
    w.discover()
    w.observe()
    n1 = len(w.recs)
    if n1:
        c.reach('round1')
    d = dur(c, 'wait')
    if picker:
        # one coinciding instant (round 2 against the expiries of round 1)
        c.assume(d <= interval)
    else:
        c.assume(d <= 2 * interval + 1)
    if picker:
        # the periodic task against the timers of the requests: every interleaving within an instant
        loop.choose2 = lambda: c.choose(2, 'sched')
    loop.advance(d)
    loop.choose2 = None
    w.discover()
    w.observe()
    if len(w.recs) > n1:
        c.reach('round2')
    m = c.fresh_int('reply_ticket', 0, U32)
    w.run_op(w.a_reply(box(m) if c.symbolic else m), 'reply')
    exc, _ = w.run_op(w.mgr.stop(), 'stop')
    if exc is not None:
        raise symex.HarnessError(f'stop raised {exc!r}')
    w.stopped = True
    w.observe()
    w.finish()


# ------------------------------------------------------------------------------

META = {
    'level': 'other',
    'technique': 'symbolic execution of the real SearchManager / Timer / ticket generator on z3 Int/Real proxies on a virtual-time '
                 'event loop whose timer heap is ordered by z3; obligations are z3 queries per path; models are replayed concretely',
    'explanation': 'The real SearchManager (real constructor, EventBus, Settings), Timer, BackgroundTask and ticket_generator run on '
                   'engine.vloop.VLoop (subclass CLoop: exact clock, two-way schedule choice). The generator position (1..2^32-1), every reply ticket (uint32), every configured or '
                   'server-provided time-out (integer seconds, 0 = off) and every waiting time (real seconds) are z3 variables. A comparison of '
                   'two symbolic instants inside the loop (timer heap, "is it due") forks, so whether a reply / removal / expiry comes '
                   'first, or coincides, is decided by the solver for all values. Obligations compare the events seen on the real '
                   'EventBus, SearchManager.requests and the exceptions of every task / the loop exception handler with a reference '
                   'kept by the harness (sent time + time-out in force; user removals). Which API calls make up a history, which request '
                   'the user removes and the order of ready callbacks within one instant are enumerated discriminants.',
    'functions': [SearchManager.search, SearchManager.search_room, SearchManager.search_user, SearchManager._wishlist_job,
                  SearchManager._get_wishlist_request_timeout, SearchManager.remove_request,
                  SearchManager._attach_request_timer_and_emit, SearchManager._timeout_search_request,
                  SearchManager._on_message_received, SearchManager._on_peer_search_reply, SearchManager._on_wish_list_interval,
                  SearchManager.stop, SearchManager._on_session_initialized, SearchManager._on_session_destroyed,
                  SearchManager._on_state_changed, Timer.start, Timer.cancel, Timer.reschedule, Timer._unset_task, Timer.runner,
                  BackgroundTask.start, BackgroundTask.cancel, BackgroundTask.runner, ticket_generator, EventBus.emit],
    'stubs': ['asyncio event loop -> engine.vloop.VLoop (virtual time; symbolic instants in the timer heap fork on comparison)',
              'network -> object whose send_server_messages records the messages and returns at once',
              'peer/server connection of an incoming message -> object with an async disconnect() that returns at once or, in the '
              'disconnect=slow jobs, stays suspended for a fresh symbolic time (the real PeerConnection.disconnect suspends too)',
              'shares manager / upload info provider -> None (not touched by the executed functions)',
              'tickets: the live generator object of the manager is put at a symbolic position by overwriting its local variable '
              '(PyFrame_LocalsToFast; validated in prelude) and the module global `ticket_generator` of search/manager.py is wrapped so '
              'that yielded values are TInt = SInt with constant hash: the real dict `requests` then decides key equality through z3 '
              '(symbolic exploration only; replays use plain ints and the unwrapped generator)',
              'symbolic time-outs are written into the real pydantic settings objects through __dict__ (a proxy cannot pass int '
              'validation); replays assign them normally',
              'session loss / re-login: ConnectionStateChangedEvent(CLOSING, CLOSED), SessionDestroyedEvent, SessionInitializedEvent emitted on the real '
              'EventBus by the harness in the order SoulSeekClient emits them (real ServerConnection / Session / User objects)',
              'logging disabled'],
    'data_variables': ['ticket generator position 1..2^32-1 (Int)', 'ticket of every incoming reply 0..2^32-1 (Int)',
                       'searches.send.request_timeout 0..2^32 (Int)', 'searches.send.wishlist_request_timeout -1..2^32 (Int)',
                       'server WishlistInterval 0..2^32-1 (Int)', 'every waiting time, every Timer-level timeout, every duration of a slow send: Real 0..2^36 s',
                       'hence every deadline and every instant at which a reply / removal / expiry happens (Real)'],
    'discriminants': ['the sequence of API calls of a history (job parameter)', 'which registered request the user removes',
                      'which request a matching reply answers', 'which side (user task / library task) runs next when callbacks of both are ready in one instant (2-way, FIFO within a side)',
                      'send returns at once / takes a symbolic time',
                      'kinds of the further application listeners of the removal / result events: sync | async without yield | async yielding (its duration is symbolic)',
                      'position of a session loss + re-login in the history (op Z)',
                      'kinds of the application listeners of SearchRequestSentEvent; who removes the request while it is being announced '
                      '(nobody / the first listener / another task, whose delay is symbolic) and which request', 'disconnect() returns at once / suspends for a symbolic time',
                      'Timer op script'],
    'bounds': {'quick': {'requests_per_history': '<= 5 (3 direct searches + wishlist rounds of 2)', 'ops_per_history': '<= 9',
                         'consecutive_tickets': 8, 'timer_script_ops': '<= 4 (14 scripts)', 'wishlist_task_rounds': '<= 3',
                         'histories': '17 curated + 3 at the wrap + 2 from the untouched constructor state + 3 with slow sends'},
               'thorough': {'requests_per_history': '<= 6', 'ops_per_history': 'all op strings of length <= 4 after the prefix TWI, '
                            'curated ones up to 10', 'consecutive_tickets': 8, 'timer_script_ops': 'all scripts <= 4 over w c r n y', 'wishlist_task_rounds': '<= 3'}},
    'outside': ['more requests / operations than the bound; ticket reuse after 2^32-1 further requests while an untimed request is still live',
                'sending takes no time except in the send=slow scenarios (there: a fresh symbolic duration per send)',
                'remove_request(ticket:int) form (the object form is used; a proxy is not an int)',
                'remove_request of a request that is no longer registered (KeyError to the caller is accepted API behaviour)',
                'a removal event after a user removal is tolerated (the statement forbids result events and errors only)',
                'binary floating point rounding of loop.time() + timeout (the virtual clock is exact: Real while symbolic, Fraction in replays)',
                'listeners that call back into the manager other than remove_request() of the request being announced',
                'time-out settings changed while a wishlist round is still sending (the job reads them once per round)'],
    'assumptions': ['asyncio Task/Future/sleep semantics of CPython 3.12', 'time-out settings within their documented domain (>= 0, wishlist >= -1)'],
}


QUICK_SCENARIOS = [
    # one request: reply before / after / at the time-out, unknown tickets, duplicates
    'TSDPDP', 'TSDQDQ', 'TSQQ', 'SPQXQ',
    # manual removal, then the old deadline passes, then replies
    'TSXDQ', 'TSDXDQP', 'TRXQD', 'TUDXD',
    # several requests, different time-outs
    'TSTRDQD', 'TSDTUDXDQ', 'TSRUXQD', 'TSTRUDPD',
    # wishlist rounds, time-out from the setting or from the server
    'ILDQD', 'WILDPD', 'WILXDQ', 'ILDLDQ', 'WITSLDXD',
]
QUICK_WRAP = ['TSRUDQ', 'TSXDQ', 'ILLQD']
QUICK_CONSTRUCTOR = ['TSXDQ', 'TSDQD']


def _thorough_scenarios():
    out = []
    alpha = 'SLXQPDT'
    for n in range(1, 5):
        for s in itertools.product(alpha, repeat=n):
            s = ''.join(s)
            if not any(x in s for x in 'SL'):
                continue
            first_req = min(s.find(x) for x in 'SL' if x in s)
            if any(s.find(x) != -1 and s.find(x) < first_req for x in 'XQ'):
                continue
            if s.endswith('T') or 'TT' in s or 'DD' in s:
                continue
            k = 0
            t = ''
            for ch in s:
                if ch == 'S':
                    ch = 'SRU'[k % 3]
                    k += 1
                t += ch
            out.append('TWI' + t)
    return out


def jobs(tier):
    q = tier == 'quick'
    out = []
    out.append({'harness': 'tickets', 'fn': h_tickets, 'params': {'k': 8, 'position': 'any'},
                'requires': ['tickets_end', 'generator_position_symbolic']})
    out.append({'harness': 'tickets', 'fn': h_tickets, 'params': {'k': 8, 'position': 'constructor'}, 'requires': ['tickets_end']})
    sc = [(s, 'low') for s in QUICK_SCENARIOS] + [(s, 'wrap') for s in QUICK_WRAP] + [(s, 'constructor') for s in QUICK_CONSTRUCTOR]
    if not q:
        sc += [(s, 'any') for s in QUICK_SCENARIOS + ['TSTRTUDPD', 'TSRUXDQDQ', 'TWILSDXDQD', 'TSDXDSDXDQ']]
        sc += [(s, 'low') for s in _thorough_scenarios()]
    seen = set()
    for s, pos in sc:
        if (s, pos) in seen:
            continue
        seen.add((s, pos))
        req = ['scenario_end'] + ([] if pos == 'constructor' else ['generator_position_symbolic'])
        if 'Q' in s or 'P' in s:
            req.append('reply')
        if 'X' in s:
            req.append('manual_removal')
        out.append({'harness': 'scenario', 'fn': h_scenario, 'params': {'ops': s, 'position': pos}, 'requires': req})
    for ops in (['TSDRDQ', 'ILDQD', 'TSDXDQ'] if q else ['TSDRDQ', 'ILDQD', 'TSDXDQ', 'TSRDQDXD', 'TSRDXDQ', 'TSDXDRDQ', 'WILDXDQD', 'ILDQDXD']):
        out.append({'harness': 'scenario', 'fn': h_scenario, 'params': {'ops': ops, 'position': 'low', 'send': 'slow'},
                    'requires': ['scenario_end', 'generator_position_symbolic', 'reply']})
    # application listeners of the removal / result events, some of which really suspend
    lj = [('TSDQD', ['sync', 'yield', 'async'], 'instant'), ('TSRDQD', ['yield', 'sync'], 'instant'),
          ('ILDQD', ['async', 'yield', 'sync'], 'instant')]
    if not q:
        lj += [('TSDQD', ['yield', 'yield'], 'instant'), ('TSTRDQ', ['sync', 'yield', 'sync'], 'instant'), ('TSDQXD', ['yield', 'sync'], 'instant'),
               ('WILDQD', ['yield', 'async'], 'instant'), ('TSQD', ['yield', 'sync'], 'slow'), ('TSDQD', ['yield'], 'instant')]
    for ops, ls, disc in lj:
        params = {'ops': ops, 'position': 'low', 'listeners': ls}
        if disc != 'instant':
            params['disconnect'] = disc
        out.append({'harness': 'scenario', 'fn': h_scenario, 'params': params,
                    'requires': ['scenario_end', 'generator_position_symbolic', 'reply', 'removed_reported_to_listeners',
                                 'result_reported_to_listeners']})
    # listeners of SearchRequestSentEvent; the request is removed while it is being announced
    sj = [('TSDQD', ['sync'], 'listener', 0), ('TSRDQ', ['async', 'yield'], 'listener', 0), ('TSDQD', ['yield'], 'task', 0),
          ('TSDQD', ['yield', 'sync'], None, 0)]
    if not q:
        sj += [('TSRDQ', ['yield'], 'task', 1), ('TSRDQD', ['async', 'yield'], 'listener', 0), ('TUDQD', ['sync', 'yield'], 'listener', 0), ('ILDQD', ['yield'], 'task', 0),
               ('TSDQD', ['yield', 'yield'], 'task', 0), ('TSRDQD', ['yield'], 'listener', 1), ('ILDQD', ['async'], 'listener', 1),
               ('TSRUDQ', ['yield', 'async'], None, 0)]
    for ops, ls, how, nth in sj:
        params = {'ops': ops, 'position': 'low', 'sent_listeners': ls}
        if how is not None:
            params.update(remove_on_sent=how, remove_nth=nth)
        out.append({'harness': 'scenario', 'fn': h_scenario, 'params': params,
                    'requires': ['scenario_end', 'generator_position_symbolic', 'reply'] +
                                (['removed_during_sent_dispatch', 'manual_removal'] if how else [])})
    # the session is lost and re-initialised between searches; registered requests survive
    zj = [('TSZRQD', 'low'), ('SZSQQ', 'low'), ('TSZRQD', 'constructor'), ('TSDZUDQD', 'low'), ('ILZLQD', 'low')]
    if not q:
        zj += [('TSZRZUQD', 'any'), ('TSRZUXQD', 'any'), ('TSZSZSQ', 'low'), ('TWISZLQD', 'low'), ('TSZRQD', 'wrap'), ('ZSZRQD', 'low')]
    for ops, pos in zj:
        out.append({'harness': 'scenario', 'fn': h_scenario, 'params': {'ops': ops, 'position': pos},
                    'requires': ['scenario_end', 'relogin', 'reply'] + ([] if pos == 'constructor' else ['generator_position_symbolic'])})
    # the reply handler stays suspended in connection.disconnect(); removals / expiries land inside
    for ops in (['TSQXD', 'TSQD', 'TSRQDXD', 'ILQD'] if q else
                ['TSQXD', 'TSQD', 'TSRQDXD', 'ILQD', 'TSQDQD', 'TSPDXD', 'TSDQXDQD', 'WILQXD', 'TSTRQD', 'TSQQXD', 'TSXQD']):
        req = ['scenario_end', 'generator_position_symbolic', 'reply']
        if ops != 'TSXQD':       # (there the removal precedes the reply)
            req += ['reply_reported', 'removed_while_reply_in_flight']
        out.append({'harness': 'scenario', 'fn': h_scenario, 'params': {'ops': ops, 'position': 'low', 'disconnect': 'slow'},
                    'requires': req})
    for users, two in ([(['remove', 'reply'], False), (['reply'], False)] if q else
                       [(['remove', 'reply'], False), (['reply'], False), (['remove', 'reply_any'], False), (['reply', 'reply'], False),
                        (['reply', 'search'], False)]):
        req = ['scenario_end', 'reply', 'removed_while_reply_in_flight'] + (['removed_in_flight'] if 'remove' in users else [])
        out.append({'harness': 'instant', 'fn': h_instant,
                    'params': {'users': users, 'two_requests': two, 'disconnect': 'slow'}, 'requires': req})
    inst = [['remove'], ['reply'], ['reply_any'], ['search'], ['remove', 'reply']]
    if not q:
        inst += [['reply', 'reply'], ['remove', 'search'], ['remove', 'reply_any']]
    for users in inst:
        for two in ([False] if q else [False, True]):
            req = ['scenario_end']
            if 'remove' in users:
                req.append('removed_in_flight')
            if any(u.startswith('reply') for u in users):
                req.append('reply')
            out.append({'harness': 'instant', 'fn': h_instant, 'params': {'users': users, 'two_requests': two}, 'requires': req})
    scripts = ['', 'wc', 'c', 'wr', 'r', 'rc', 'rwc', 'ryc', 'wrw', 'wn', 'wnwc', 'wcwn', 'rwr', 'wrwr'] if q else \
        sorted({''.join(s) for n in range(0, 5) for s in itertools.product('wcrny', repeat=n)
                if 'ww' not in ''.join(s) and 'yy' not in ''.join(s) and 'wy' not in ''.join(s) and 'yw' not in ''.join(s)
                and not ''.join(s).endswith(('w', 'y'))})
    for s in scripts:
        out.append({'harness': 'timer', 'fn': h_timer, 'params': {'script': s, 'picker': True}, 'requires': ['timer_end']})
    for wm in ('server', 'symbolic'):
        for pk, items in ([(False, 2), (True, 1)] if q else [(False, 2), (True, 1), (True, 2)]):
            out.append({'harness': 'wishlist_bg', 'fn': h_wishlist_bg, 'params': {'wmode': wm, 'picker': pk, 'items': items},
                        'requires': ['scenario_end', 'round1', 'round2', 'reply']})

    def weight(j):      # long jobs first (the pool hands jobs out in list order)
        p = j['params']
        if j['harness'] == 'instant' and p.get('two_requests'):
            return 0
        if j['harness'] == 'scenario' and (p.get('position') == 'any' or p.get('send') == 'slow') and len(p['ops']) >= 8:
            return 0
        if j['harness'] in ('instant', 'wishlist_bg') or p.get('send') == 'slow' or p.get('position') == 'any' or p.get('disconnect') == 'slow':
            return 1
        return 2
    out.sort(key=weight)
    return out


def prelude(tier):
    """stub validation on concrete values"""
    notes = []
    # (1) poking the generator position == advancing the real generator that far
    for p in (2, 5, 17):
        g1 = ticket_generator()
        while next(g1) != p:
            pass
        g2 = ticket_generator()
        if not poke_position(g2, p, boxed=False):
            notes.append('generator position cannot be set on this tree (jobs requiring it will report a missing label)')
            break
        a, b = [next(g1) for _ in range(4)], [next(g2) for _ in range(4)]
        if a != b:
            raise symex.HarnessError(f'poke_position disagrees with the real generator at {p}: {a} vs {b}')
    else:
        notes.append('poke_position validated against natural advancement at positions 2, 5, 17')
    # (2) a dict keyed by TInt behaves like a dict keyed by int on concrete values
    d1, d2 = {}, {}
    for k in (7, 3, U32, 7, 0):
        d1[k] = k
        d2[box(k)] = k
    for k in (0, 1, 3, 7, 8, U32):
        if d1.get(k) != d2.get(box(k)):
            raise symex.HarnessError(f'TInt-keyed dict disagrees with int-keyed dict at {k}')
    if d2.pop(box(3)) != 3 or len(d2) != len(d1) - 1:
        raise symex.HarnessError('TInt-keyed dict pop disagrees')
    notes.append('TInt-keyed dict validated against int-keyed dict on concrete keys')
    return notes
