"""C13: distributed tree - one parent, bounded live children, truthful advertised place.

The real DistributedNetwork (all message / event handlers, _check_if_new_parent, _set_parent,
_unset_parent, _check_if_new_child, _add_child, _get_advertised_branch_values, _notify_*,
_on_get_user_stats, _calculate_max_children, reset) runs on a virtual loop against real
PeerConnection objects with recording sockets.  Branch levels, upload speed, min speed, speed
ratio, the child limit and the accept flag are z3 values; root / user names are small-domain
tokens.  After every environment event the state is compared with a short reference
(`fakes_dist.position`, `View`, `ServerView`, `ref_limits`)."""
from __future__ import annotations

import itertools

from engine import symex
from engine.symex import SInt, SBool, sym_int
from engine import fakes_dist as fd
from engine.fakes_dist import World, View, ServerView, position, nm, tok, same, conj, OWN, MAX_LEVEL

import aioslsk.distributed as dist_mod
from collections import deque

from aioslsk.constants import DEFAULT_PARENT_MIN_SPEED, DEFAULT_PARENT_SPEED_RATIO, POTENTIAL_PARENTS_CACHE_SIZE
from aioslsk.distributed import DistributedNetwork, DistributedPeer
from aioslsk.network.connection import ConnectionState, PeerConnectionType, PeerConnection, DataConnection, ListeningConnection
from aioslsk.network.network import Network
from aioslsk.protocol.messages import (
    DistributedBranchLevel, DistributedBranchRoot, GetUserStats, ParentMinSpeed, ParentSpeedRatio, PotentialParents,
    ResetDistributed,
)
from aioslsk.protocol.primitives import PotentialParent, UserStats

PROPERTY = 'C13'
U32 = 2 ** 32 - 1
_MISSING = object()


class IntShim:
    """`int` inside aioslsk.distributed understands symbolic reals (symbolic runs only)"""

    def __init__(self, on):
        self.on = on

    def __enter__(self):
        self.saved = dist_mod.__dict__.get('int', _MISSING)
        if self.on:
            dist_mod.__dict__['int'] = sym_int
        return self

    def __exit__(self, *a):
        if self.saved is _MISSING:
            dist_mod.__dict__.pop('int', None)
        else:
            dist_mod.__dict__['int'] = self.saved


def imp(a, b):
    if isinstance(a, bool) and isinstance(b, bool):
        return (not a) or b
    return symex.Implies(a, b)


def neg(a):
    return (not a) if isinstance(a, bool) else symex.Not(a)


def ref_limits(speed, min_speed, ratio):
    """reference: (accept children, maximum number of children) from the own upload speed and
    the server's parent_min_speed / parent_speed_ratio (protocol defaults when not received)"""
    ms = DEFAULT_PARENT_MIN_SPEED if min_speed is None else min_speed
    ra = DEFAULT_PARENT_SPEED_RATIO if ratio is None else ratio
    slow = speed < ms * 1024
    # floor(speed / (ratio / 10 * 1024)) in exact arithmetic
    mx = (speed * 10) // (ra * 1024)
    return fd.sel(slow, False, True), fd.sel(slow, 0, mx)


class Ghost:
    """the observer: what every party was told, what every peer announced, admission limits in force"""

    def __init__(self, c, w: World):
        self.c, self.w = c, w
        self.peer_view = {}     # conn -> View announced to us by that peer
        self.told = {}          # conn -> View we told that connection
        self.seen = {}
        self.server = ServerView()
        self.server_seen = 0
        dn = w.dn
        self.accept_ref = dn._accept_children
        self.max_ref = dn._max_children
        self.min_speed_ref = dn.parent_min_speed
        self.ratio_ref = dn.parent_speed_ratio
        # reference potential-parent cache: the last POTENTIAL_PARENTS_CACHE_SIZE names the server proposed, book-kept
        # by the harness from the PotentialParents messages it delivers (starts as the pre-state's cache)
        self.pp_ref = deque(dn.potential_parents, maxlen=POTENTIAL_PARENTS_CACHE_SIZE)
        self.joining = []       # (connection, was it eligible as a child when it connected)
        self.snapshot()

    def session_boundary(self):
        """the server session ends / a new one starts: what was told to the server was written on the connection of
        that session; a new session knows nothing of it"""
        self.consume()
        self.server = ServerView()

    def on_potential_parents(self, names):
        self.pp_ref.extend(names)

    def eligible(self, username):
        """a peer that opens a distributed connection to us now would be a child: acceptance is on, the number of
        children is below the maximum, the server did not propose that user as potential parent"""
        return conj(self.accept_ref, len(self.children_prev) < self.max_ref, *[username != p for p in self.pp_ref])

    def assume_invariant(self):
        """one-step harness: the pre-state satisfies the advertised-position clauses"""
        dn, w = self.w.dn, self.w
        pv = None
        if dn.parent is not None:
            pv = View(dn.parent.branch_level, dn.parent.branch_root)
            self.peer_view[dn.parent.connection] = pv
        lvl, root, search = position(w.own, pv)
        if dn._session is not None:
            # "the server was told the position": let the real code tell it once, so that whatever the code itself
            # remembers about its last notification is consistent with the assumed pre-state; the record of the
            # current session then holds the derived position
            w.run(dn._notify_server_of_parent())
            self.consume()
            self.server = ServerView(lvl, root, search)
        else:
            self.server = ServerView()       # no session: nobody was told anything
        for ch in dn.children:
            self.told[ch.connection] = View(lvl, root)
        self.accept_ref = dn._accept_children
        self.max_ref = dn._max_children
        self.min_speed_ref = dn.parent_min_speed
        self.ratio_ref = dn.parent_speed_ratio
        self.pp_ref = deque(dn.potential_parents, maxlen=POTENTIAL_PARENTS_CACHE_SIZE)
        self.snapshot()

    def snapshot(self):
        dn = self.w.dn
        self.children_prev = [p.connection for p in dn.children]
        self.accept_prev = self.accept_ref
        self.max_prev = self.max_ref
        self.pp_prev = list(self.pp_ref)
        self.parent_prev = dn.parent.connection if dn.parent is not None else None

    def consume(self):
        w = self.w
        fr = w.frames(w.server)
        self.server.apply(fr[self.server_seen:])
        self.server_seen = len(fr)
        for conn in w.conns:
            fr = w.frames(conn)
            k = self.seen.get(conn, 0)
            if len(fr) > k:
                self.told.setdefault(conn, View()).apply_distributed(fr[k:], w.own)
                self.seen[conn] = len(fr)

    def check(self, ev):
        """all clauses of the property at a quiescent point; `ev` = finite description of the last event"""
        c, w = self.c, self.w
        dn = w.dn
        self.consume()
        parent = dn.parent
        has_session = dn._session is not None
        c.reach('quiescent')
        self.ok = True
        _check = c.check

        def check(cond, label, sig=None):
            if not _check(cond, label, sig=sig) and isinstance(cond, bool):
                # a symbolic refutation lets the path continue under the obligation (engine); a concrete one
                # leaves a broken state behind: the caller stops the sequence there
                self.ok = False
        # -- one parent, not among the children, members are live distributed connections
        check(parent is None or isinstance(parent, DistributedPeer), 'at_most_one_parent', sig=ev)
        check(parent is None or all(ch is not parent and ch.connection is not parent.connection for ch in dn.children),
                'parent_not_child', sig=ev)
        members = ([parent] if parent is not None else []) + list(dn.children)
        live = all(any(x is p for x in dn.distributed_peers)
                   and isinstance(p.connection, PeerConnection)
                   and p.connection.state is ConnectionState.CONNECTED
                   and p.connection.connection_type == PeerConnectionType.DISTRIBUTED
                   and any(x is p.connection for x in w.net.peer_connections)
                   for p in members)
        check(live, 'tree_members_live', sig=ev)
        conns = [p.connection for p in dn.children]
        check(len(set(map(id, conns))) == len(conns), 'child_listed_once', sig=ev)
        # -- admission
        self.check_admission(ev, check)
        # -- advertised position
        pv = None
        if parent is not None:
            pv = self.peer_view.get(parent.connection)
            ok = pv is not None and pv.level is not None and pv.root is not None
            check(ok, 'parent_announced_level_and_root', sig=ev)
            if not ok:
                self.snapshot()
                return False
        lvl, root, search = position(w.own, pv)
        loop_case = same(root, w.own) if parent is not None else False   # parent names *us* as its root
        if not c.symbolic:
            c.note('after', ev, {'parent': parent.username if parent else None,
                                 'children': [ch.username for ch in dn.children],
                                 'expected (level, root, search)': [lvl, root, search],
                                 'server was told': [self.server.level, self.server.root, self.server.search],
                                 'children were told': [[(self.told.get(ch.connection) or View()).level,
                                                        (self.told.get(ch.connection) or View()).root] for ch in dn.children]})
        if has_session:
            sv = self.server
            ok = conj(same(sv.level, lvl), same(sv.root, root), same(sv.search, search))
            check(imp(neg(loop_case), ok), 'server_told_position', sig=ev)
            if parent is not None:
                check(imp(loop_case, ok), 'server_told_position_parent_root_is_own_name', sig=ev)
        for ch in dn.children:
            tv = self.told.get(ch.connection) or View()
            ok = conj(same(tv.level, lvl), same(tv.root, root))
            check(imp(neg(loop_case), ok), 'child_told_position', sig=ev)
            if parent is not None:
                check(imp(loop_case, ok), 'child_told_position_parent_root_is_own_name', sig=ev)
        self.snapshot()
        return self.ok

    def check_admission(self, ev, check=None):
        """children that joined since the last snapshot: acceptance was on, the number of children was below the
        maximum, the user was not in the potential-parent cache, and we did not open the connection ourselves"""
        c, dn = self.c, self.w.dn
        check = check or (lambda cond, label, sig=None: c.check(cond, label, sig=sig))
        n_prev = len(self.children_prev)
        for ch in dn.children:
            if not any(ch.connection is x for x in self.children_prev):
                c.reach('admission')
                check(conj(self.accept_prev, n_prev < self.max_prev), 'child_admission_limits', sig=ev)
                check(conj(*[ch.username != p for p in self.pp_prev]) if self.pp_prev else True,
                      'potential_parent_not_child', sig=ev)
                check(ev[0] != 'outgoing', 'potential_parent_not_child', sig=ev)
                n_prev += 1
        # the other direction: a peer that connected to us (directly or through the server-relayed path) while it
        # was eligible is a child afterwards (unless its connection is gone again)
        for conn, elig in self.joining:
            if conn.state in (ConnectionState.CLOSING, ConnectionState.CLOSED):
                continue
            if not any(ch.connection is conn for ch in dn.children):
                check(neg(elig), 'eligible_peer_becomes_child', sig=ev)
        self.joining = []
        self.children_prev = [p.connection for p in dn.children]
        self.pp_prev = list(self.pp_ref)

    # ---- reference for the limits ---------------------------------------------
    def on_stats(self, user, speed):
        dn = self.w.dn
        if dn._session is None:
            return
        mine = same(user, self.w.own)
        if not isinstance(mine, bool):
            mine = bool(mine)      # the handler under test forks on the same condition
        if mine:
            self.accept_ref, self.max_ref = ref_limits(speed, self.min_speed_ref, self.ratio_ref)


# -------------------------------------------------------------------------------------
# events
# -------------------------------------------------------------------------------------

PEER_EVENTS = ('level', 'root', 'close')
GLOBAL_EVENTS = ('incoming', 'outgoing', 'pp_list', 'user_stats', 'min_speed', 'speed_ratio', 'reset',
                 'session_destroyed', 'session_initialized', 'relogin')


def apply_event(c, w: World, g: Ghost, kind, conn=None, tag='', stall_new=0, via='event'):
    """`stall_new` = n > 0: the socket of the connection created by an 'incoming' event does not drain (slow peer)
    from the n-th frame written to it on"""
    dn = w.dn
    if kind == 'level':
        lv = c.fresh_int(f'level{tag}', 0, MAX_LEVEL)
        g.peer_view.setdefault(conn, View()).on_level(lv, conn.username)
        w.deliver(DistributedBranchLevel.Request(lv), conn)
    elif kind == 'root':
        r = tok(c, f'root{tag}')
        g.peer_view.setdefault(conn, View()).on_root(r)
        w.deliver(DistributedBranchRoot.Request(r), conn)
    elif kind == 'close':
        w.ev_close(conn)
    elif kind in ('incoming', 'outgoing'):
        u = tok(c, f'u_new{tag}', 1)
        elig = g.eligible(u) if kind == 'incoming' else None
        if kind == 'incoming' and (stall_new > 0 or via == 'accept'):
            # through the real accept path: ListeningConnection.accept -> Network.on_peer_accepted -> PeerInitializedEvent;
            # the connection is UNINITIALIZED until the (possibly suspended) accept callback returns
            nc, _ = w.accept_incoming(u, hang_from=stall_new)
        elif kind == 'incoming' and via == 'indirect':
            # the peer asked through the server (ConnectToPeer): the real Network._handle_connect_to_peer dials it, sends
            # PeerPierceFirewall and emits PeerInitializedEvent(requested=False) for a connection with incoming == False
            nc, _ = w.connect_to_peer(u)
        else:
            nc = w.new_peer_conn(u, incoming=(kind == 'incoming'))
            w.ev_peer_initialized(nc, requested=(kind == 'outgoing'))
        if elig is not None:
            g.joining.append((nc, elig))
        return nc
    elif kind == 'connect_ok':
        w.ev_connect_ok(0)
    elif kind == 'pp_list':
        n = c.choose(2, f'pp_n{tag}') + 1
        entries = [PotentialParent(tok(c, f'pp_name{tag}_{j}', 1), '1.2.3.4', 1234) for j in range(n)]
        g.on_potential_parents([e.username for e in entries])
        w.deliver(PotentialParents.Response(entries), w.server)
    elif kind == 'user_stats':
        user = tok(c, f'stats_user{tag}', 0, 1)
        speed = c.fresh_int(f'speed{tag}', 0, U32)
        g.on_stats(user, speed)
        w.deliver(GetUserStats.Response(user, UserStats(speed, 10, 1, 1)), w.server)
    elif kind == 'min_speed':
        v = c.fresh_int(f'min_speed{tag}', 0, U32)
        g.min_speed_ref = v
        w.deliver(ParentMinSpeed.Response(v), w.server)
    elif kind == 'speed_ratio':
        v = c.fresh_int(f'speed_ratio{tag}', 1, U32)
        g.ratio_ref = v
        w.deliver(ParentSpeedRatio.Response(v), w.server)
    elif kind == 'reset':
        w.deliver(ResetDistributed.Response(), w.server)
    elif kind == 'session_destroyed':
        g.min_speed_ref = g.ratio_ref = None      # the server's parameters die with the connection
        w.ev_session_destroyed()
        g.session_boundary()
    elif kind == 'session_initialized':
        g.session_boundary()
        w.ev_session_initialized()
    elif kind == 'relogin':
        # the server connection is lost and the client logs in again; the distributed connections are independent of
        # the server connection and stay as they are
        g.min_speed_ref = g.ratio_ref = None
        w.ev_session_destroyed()
        g.session_boundary()
        w.ev_session_initialized()
    else:
        raise symex.HarnessError(kind)


def role_of(dn, conn):
    if dn.parent is not None and dn.parent.connection is conn:
        return 'parent+child' if any(ch.connection is conn for ch in dn.children) else 'parent'
    if any(ch.connection is conn for ch in dn.children):
        return 'child'
    if any(p.connection is conn for p in dn.distributed_peers):
        return 'cand'
    return 'unregistered'


def ev_sig(dn, kind, conn):
    return [kind, role_of(dn, conn) if conn is not None else '-',
            'parent' if dn.parent is not None else 'no_parent',
            'session' if dn._session is not None else 'no_session']


# -------------------------------------------------------------------------------------
# H1: one event from an arbitrary state satisfying the invariant
# -------------------------------------------------------------------------------------

def build_pre_state(c, w: World, roles, kinds, concrete_names=False):
    """an arbitrary state satisfying the invariant in which each peer has the role given by `roles`.  State that
    only some events read is only varied when one of those events (`kinds`) is going to happen."""
    dn = w.dn
    conns, peers = {}, {}
    for i, r in enumerate(roles):
        if r == 'absent':
            continue
        u = nm(c, i + 1) if concrete_names else tok(c, f'u{i}', 1)
        conn = conns[i] = w.new_peer_conn(u)
        if r == 'connecting':
            conn.state = ConnectionState.CONNECTING
            continue
        peer = peers[i] = DistributedPeer(u, conn)
        dn.distributed_peers.append(peer)
        if r == 'child':
            dn.children.append(peer)
        elif r == 'parent':
            dn.parent = peer
            peer.branch_level = c.fresh_int('parent_level', 0, MAX_LEVEL)
            peer.branch_root = tok(c, 'parent_root')
    dn._accept_children = c.fresh_bool('accept_children')
    dn._max_children = c.fresh_int('max_children', 0, U32)
    if 'user_stats' in kinds and c.choose(2, 'have_server_values') == 1:
        dn.parent_min_speed = c.fresh_int('parent_min_speed', 0, U32)
        dn.parent_speed_ratio = c.fresh_int('parent_speed_ratio', 1, U32)
    if 'incoming' in kinds or 'outgoing' in kinds:
        for j in range(c.choose(3, 'pp_len')):
            dn.potential_parents.append(tok(c, f'pp{j}', 1))
    g = Ghost(c, w)
    g.assume_invariant()
    return conns, peers, g


def earlier_announcements(c, g: Ghost, dn, peer, conn, kind, tag=''):
    """what the sender announced before (the parent has both by the invariant).  A level announcement overwrites
    the earlier level, so that one is not varied for a 'level' event."""
    if peer is not None and peer is not dn.parent:
        pv = g.peer_view.setdefault(conn, View())
        if kind != 'level' and c.choose(2, f'sender_has_level{tag}') == 1:
            peer.branch_level = pv.level = c.fresh_int(f'sender_level{tag}', 0, MAX_LEVEL)
        if c.choose(2, f'sender_has_root{tag}') == 1:
            peer.branch_root = pv.root = tok(c, f'sender_root{tag}')


def h_step(c, roles, session=True, kinds=None, vias=('event', 'accept', 'indirect')):
    """one event from the arbitrary pre-state, then every clause"""
    with IntShim(c.symbolic):
        live_idx = [i for i, r in enumerate(roles) if r != 'absent']
        ks = list(kinds) if kinds else list(PEER_EVENTS + GLOBAL_EVENTS)
        ks = [k for k in ks if not (k == 'session_initialized' and session)
              and not (k in ('session_destroyed', 'relogin') and not session)
              and not (k in PEER_EVENTS and not live_idx)]
        kind = c.pick(ks, 'event')
        sender_idx = c.pick(live_idx, 'sender') if kind in PEER_EVENTS else None
        if sender_idx is not None and roles[sender_idx] == 'connecting' and kind != 'close':
            return      # nothing can be received on a connection that is not initialised yet
        w = World(c, with_session=session)
        dn = w.dn
        conns, peers, g = build_pre_state(c, w, roles, [kind])
        conn = conns[sender_idx] if sender_idx is not None else None
        if conn is not None and kind != 'close':
            earlier_announcements(c, g, dn, peers.get(sender_idx), conn, kind)
        ev = ev_sig(dn, kind, conn)
        via = 'event'
        if kind == 'incoming':
            # how the peer reaches us: the bare PeerInitializedEvent, the real accept path (it dialled our listening
            # port), or the real server-relayed path (ConnectToPeer: we dial it; connection.incoming is False)
            via = c.pick(tuple(vias), 'via')
            c.reach('via_' + via)
        apply_event(c, w, g, kind, conn, via=via)
        c.reach('ev_' + kind)
        g.check(ev)
        w.cleanup()


# -------------------------------------------------------------------------------------
# H1b: two events that overlap in time.  A socket stalls (the server socket does not drain, or the close of
# one peer connection does not finish), so the handler of the first event is suspended in the send / disconnect
# it triggered while the second event is handled; then the socket recovers.  Every clause at the end.
# -------------------------------------------------------------------------------------

OVERLAP_EVENTS = ('level', 'root', 'close', 'incoming', 'reset', 'relogin')


def h_overlap(c, roles, stall, e1):
    with IntShim(c.symbolic):
        live_idx = [i for i, r in enumerate(roles) if r != 'absent']
        w = World(c)
        dn = w.dn
        conns, peers, g = build_pre_state(c, w, roles, [], concrete_names=True)
        stalled = None
        new_child_stall = {'new_child': 1, 'new_child_root': 2}.get(stall, 0)
        if new_child_stall:
            # the socket of the connection that comes in with the first event is slow: _add_child is suspended in
            # the send of our position (level: first frame, root: second frame) to the new child while the second
            # event is handled
            if e1 != 'incoming':
                raise symex.HarnessError('new_child stall needs e1 == incoming')
        elif stall == 'server':
            w.server.fake_writer.hang_drain = True
            stalled = w.server.fake_writer
        else:
            if stall not in conns:
                return
            stalled = conns[stall].fake_writer
            stalled.hang_close = True
        sigs = []
        for n, kind in enumerate((e1, None)):
            if kind is None:
                kind = c.pick(OVERLAP_EVENTS, 'event2')
            conn = None
            if kind in PEER_EVENTS:
                # (a connection that is still inside its accept callback is open and can send / close as well)
                senders = [i for i in sorted(conns) if conns[i].state in (ConnectionState.CONNECTED, ConnectionState.UNINITIALIZED)]
                if not senders:
                    w.cleanup()
                    return
                si = c.pick(senders, f'sender{n}')
                conn = conns[si]
                if kind != 'close':
                    earlier_announcements(c, g, dn, peers.get(si), conn, kind, tag=f'_{n}')
            sigs.append(ev_sig(dn, kind, conn)[:1])
            nc = apply_event(c, w, g, kind, conn, tag=f'_{n}', stall_new=new_child_stall if n == 0 else 0)
            if new_child_stall and n == 0:
                stalled = nc.fake_writer
                conns[len(roles)] = nc          # it can be the sender of the second event (e.g. it closes)
                peers[len(roles)] = next((p for p in dn.distributed_peers if p.connection is nc), None)
            g.check_admission(['overlap', kind])
        c.reach('overlapped' if w.loop.pending_tasks() else 'no_overlap')
        stalled.release()
        w.settle()
        what = {'server': 'server', 'new_child': 'send_to_new_child', 'new_child_root': 'send_to_new_child'}.get(stall) \
            or 'close_of_' + roles[stall]
        g.check(['overlap', what] + sigs[0] + sigs[1])
        w.cleanup()


# -------------------------------------------------------------------------------------
# H1c: a child socket misbehaves while a new position is fanned out to the children.  The parent announces a new
# level / root or is lost (e1); fault = ['drain_error', i] / ['write_error', i]: the socket of child i fails on that
# write (the connection code closes it, _remove_child runs while the fan-out is in flight); ['stall_close', k, j]:
# the socket of child k does not drain, child j closes meanwhile, then k recovers.  Every remaining child must have
# been told the position derived from the current parent.
# -------------------------------------------------------------------------------------

def h_fanout_fault(c, roles, e1, fault):
    with IntShim(c.symbolic):
        w = World(c)
        dn = w.dn
        conns, peers, g = build_pre_state(c, w, roles, [], concrete_names=True)
        parent_conn = conns[roles.index('parent')]
        kind = fault[0]
        if kind in ('drain_error', 'write_error'):
            conns[fault[1]].fake_writer.fault = 'drain' if kind == 'drain_error' else 'write'
        else:
            conns[fault[1]].fake_writer.hang_drain = True
        ev = ev_sig(dn, e1, parent_conn)[:1]
        apply_event(c, w, g, e1, parent_conn, tag='_0')
        if kind == 'stall_close':
            c.reach('stalled' if w.loop.pending_tasks() else 'not_stalled')
            apply_event(c, w, g, 'close', conns[fault[2]], tag='_1')
            conns[fault[1]].fake_writer.release()
            w.settle()
        for conn in conns.values():
            conn.fake_writer.fault = None
        c.reach('fanout_fault_' + kind)
        g.check(['fanout_fault', kind] + ev)
        # the tree keeps working: the next announcement / loss reaches every child that is left
        if dn.parent is not None:
            apply_event(c, w, g, 'level', parent_conn, tag='_2')
            g.check(['fanout_fault', 'after_' + kind] + ev)
        w.cleanup()


# -------------------------------------------------------------------------------------
# H2: event sequences from the constructor state through the public entry points
# -------------------------------------------------------------------------------------

def seq_events(w: World):
    """events applicable in the current state, deterministic order"""
    dn = w.dn
    out = []
    for i, conn in enumerate(w.conns):
        if conn.state is ConnectionState.CONNECTED:
            out += [('level', i), ('root', i), ('close', i)]
    if w.pending_connects:
        out.append(('connect_ok', None))
    out += [('incoming', None), ('pp_list', None), ('user_stats', None), ('reset', None)]
    out.append(('session_destroyed', None) if dn._session is not None else ('session_initialized', None))
    return out


def h_seq(c, k=3, first=None, second=None, allow=None, via_phase=0):
    with IntShim(c.symbolic):
        w = World(c, with_session=False)
        g = Ghost(c, w)
        w.ev_session_initialized()
        g.check(['session_initialized', '-', 'no_parent', 'no_session'])
        for step in range(k):
            evs = seq_events(w)
            if allow is not None:
                evs = [e for e in evs if e[0] in allow]
            if step == 0 and first is not None:
                evs = [e for e in evs if e[0] == first]
            if step == 1 and second is not None:      # job partition only
                evs = evs[second:second + 1]
            if not evs:
                break
            kind, idx = c.pick(evs, f'ev{step}')
            conn = w.conns[idx] if idx is not None else None
            ev = ev_sig(w.dn, kind, conn)
            via = 'event'
            if kind == 'incoming':      # real accept path or real server-relayed path
                via = ('accept', 'indirect')[(step + via_phase) % 2]
            apply_event(c, w, g, kind, conn, tag=f'_{step}', via=via)
            if not g.check(ev):
                break       # report the event that broke the property, not the ones that inherit the broken state
        c.reach('seq_end')
        w.cleanup()


# -------------------------------------------------------------------------------------
# H2b: the potential-parent cache.  Several PotentialParents lists (pairwise different users), then a user with a
# symbolic name opens an incoming distributed connection while children are accepted and the limit is not reached.
# The reference cache (last POTENTIAL_PARENTS_CACHE_SIZE proposed names, kept by the harness) decides: a proposed
# user is not taken as child, a user that was never proposed - or whose entry was pushed out of the cache - is.
# -------------------------------------------------------------------------------------

def h_pp_cache(c, lists, via='accept'):
    with IntShim(c.symbolic):
        w = World(c, with_session=False)
        g = Ghost(c, w)
        w.ev_session_initialized()
        g.check(['session_initialized', '-', 'no_parent', 'no_session'])
        k = 0
        for n in lists:
            names = [nm(c, 10 + k + j) for j in range(n)]
            k += n
            g.on_potential_parents(names)
            w.deliver(PotentialParents.Response([PotentialParent(u, '1.2.3.4', 1234) for u in names]), w.server)
            g.check(['pp_list', '-', 'no_parent', 'session'])
        c.reach('cache_overflowed' if k > POTENTIAL_PARENTS_CACHE_SIZE else 'cache_not_full')
        u = tok(c, 'u_new', 9, 10 + k)          # below / inside / above the proposed range
        elig = g.eligible(u)
        nc, _ = w.accept_incoming(u) if via == 'accept' else w.connect_to_peer(u)
        g.joining.append((nc, elig))
        c.reach('child' if any(ch.connection is nc for ch in w.dn.children) else 'not_child')
        g.check(['incoming', '-', 'no_parent', 'session'])
        w.cleanup()


# -------------------------------------------------------------------------------------
# H2c: the server connection is lost and the client logs in again (from the constructor state, through the real
# entry points).  parent=False: still looking for a parent.  parent=True: a parent was found through the real path
# (PotentialParents -> outgoing connection -> level, root with symbolic values) and survives the loss of the server
# (distributed connections do not depend on the server connection), optionally with a child.  `mid`: what happens
# while there is no session.  After the new session is initialised its record must hold the derived position.
# -------------------------------------------------------------------------------------

def h_relogin(c, parent=False, child=False, mid='none'):
    with IntShim(c.symbolic):
        w = World(c, with_session=False)
        g = Ghost(c, w)
        dn = w.dn

        def step(kind, conn=None, **kw):
            ev = ev_sig(dn, kind, conn)
            r = apply_event(c, w, g, kind, conn, tag=f'_{kind}', **kw)
            g.check(ev)
            return r
        step('session_initialized')
        pconn = None
        if parent:
            name = nm(c, 1)
            g.on_potential_parents([name])
            w.deliver(PotentialParents.Response([PotentialParent(name, '1.2.3.4', 1234)]), w.server)
            g.check(['pp_list', '-', 'no_parent', 'session'])
            step('connect_ok')
            pconn = w.conns[-1]
            step('level', pconn)
            if dn.parent is None:
                step('root', pconn)
            if dn.parent is None or dn.parent.connection is not pconn:
                w.cleanup()
                return          # the root named equals what level 0 implied etc.: no parent on this path
            c.reach('has_parent')
        if child:
            step('incoming', via='accept')
        step('session_destroyed')
        if mid == 'parent_level':
            step('level', pconn)
        elif mid == 'parent_lost':
            step('close', pconn)
        elif mid == 'incoming':
            step('incoming', via='indirect')
        step('session_initialized')
        c.reach('relogged_in')
        w.cleanup()


# -------------------------------------------------------------------------------------
# H3: the child limit derived from symbolic speed / min speed / ratio governs admission
# -------------------------------------------------------------------------------------

def h_limits(c, n_children=0, server_values=True, ratio=None):
    with IntShim(c.symbolic):
        w = World(c)
        dn = w.dn
        for i in range(n_children):
            u = nm(c, i + 1)
            conn = w.new_peer_conn(u)
            peer = DistributedPeer(u, conn)
            dn.distributed_peers.append(peer)
            dn.children.append(peer)
        g = Ghost(c, w)
        g.assume_invariant()
        if server_values:
            apply_event(c, w, g, 'min_speed')
            if ratio is None:
                apply_event(c, w, g, 'speed_ratio')
            else:
                g.ratio_ref = ratio
                w.deliver(ParentSpeedRatio.Response(ratio), w.server)
        g.check(['speed_ratio', '-', 'no_parent', 'session'])
        apply_event(c, w, g, 'user_stats')
        g.check(['user_stats', '-', 'no_parent', 'session'])
        c.reach('limits_set')
        apply_event(c, w, g, 'incoming')
        g.check(['incoming', '-', 'no_parent', 'session'])
        w.cleanup()


FUNCS = [DistributedNetwork._get_advertised_branch_values, DistributedNetwork.get_distributed_peer,
         DistributedNetwork.reset, DistributedNetwork._set_parent, DistributedNetwork._check_if_new_parent,
         DistributedNetwork._disconnect_children, DistributedNetwork._disconnect_parent, DistributedNetwork._unset_parent,
         DistributedNetwork._notify_server_of_parent, DistributedNetwork._notify_children_of_branch_values,
         DistributedNetwork._check_if_new_child, DistributedNetwork._add_child, DistributedNetwork._remove_child,
         DistributedNetwork._on_potential_parents, DistributedNetwork._on_parent_min_speed,
         DistributedNetwork._on_parent_speed_ratio, DistributedNetwork._on_reset_distributed,
         DistributedNetwork._on_distributed_branch_level, DistributedNetwork._on_distributed_branch_root,
         DistributedNetwork._on_get_user_stats, DistributedNetwork._calculate_max_children,
         DistributedNetwork._on_peer_connection_initialized, DistributedNetwork._on_message_received,
         DistributedNetwork._on_session_initialized, DistributedNetwork._on_session_destroyed,
         DistributedNetwork._on_state_changed, DistributedNetwork.send_messages_to_children,
         DistributedNetwork._cancel_potential_parent_tasks,
         DataConnection.queue_message, DataConnection.queue_messages, DataConnection.send_message, DataConnection._send,
         DataConnection.disconnect, Network.on_state_changed, Network.on_message_received, Network.send_server_messages,
         Network.remove_peer_connection, Network.on_peer_accepted, Network._finalize_peer_connection, ListeningConnection.accept,
         DataConnection.receive_message_object, DataConnection.receive_message, DataConnection._read_message,
         Network._on_connect_to_peer, Network._handle_connect_to_peer, DataConnection.connect]

META = {
    'level': 'other',
    'technique': 'symbolic execution of the real DistributedNetwork handlers on z3 Int/Bool proxies (branch levels, upload speed, '
                 'min speed, speed ratio, child limit, accept flag; root and user names as small-domain tokens); one inductive '
                 'step from an arbitrary state satisfying the stated invariant plus bounded event sequences from the constructor '
                 'state; obligations against a short reference decided by z3 per path',
    'explanation': 'The real DistributedNetwork is constructed with its real constructor on a real EventBus and driven through the '
                   'real Network.on_message_received / on_state_changed / EventBus.emit entry points on a virtual loop; peers are '
                   'real PeerConnection objects whose socket is a recording writer, so queue_messages, send_message (closing check), '
                   'disconnect and the CLOSING/CLOSED state changes are the real code. Levels (uint32), upload speed, parent_min_speed, '
                   'parent_speed_ratio, _max_children and _accept_children are z3 values; names are tokens in a 6-value domain. After '
                   'every event (and after two events that overlap in time because a socket stalls) the harness compares parent/children/connection states and the last values told to the server and to '
                   'each child (as a receiver following the protocol convention would understand them) with the position derived from '
                   'what the current parent announced.',
    'functions': FUNCS,
    'stubs': ['Network built with object.__new__: only _event_bus, peer_connections, server_connection, _MESSAGE_MAP={}, '
              '_expected_response_futures=[] are set; its real on_state_changed/on_message_received/send_server_messages/remove_peer_connection run',
              'Network.create_peer_connection -> future completed by the harness (emits PeerInitializedEvent(requested=True) from inside the task, as _make_direct_connection does)',
              'server-relayed admission: the real Network._on_connect_to_peer / _handle_connect_to_peer / DataConnection.connect run; only asyncio.open_connection '
              '(-> FakeReader/FakeWriter) and settings.debug.ip_overrides (-> "nothing configured", a dict lookup would hash the name token) are replaced',
              'fan-out fault harness: FakeWriter.write / drain raise ConnectionResetError once, or drain waits until released (environment faults, kept in replay)',
              'new-child stalls: the child comes in through the real ListeningConnection.accept / Network.on_peer_accepted on a FakeReader that delivers the PeerInit bytes '
              '(symbolic runs: decode_message_data of that connection returns the PeerInit object carrying the name token)',
              'StreamWriter -> recording FakeWriter (drain/wait_closed return at once; in the overlap harness one of them waits until the harness releases it)',
              'symbolic runs only: Settings.credentials.username -> own-name token (delegating wrapper around the real Settings)',
              'symbolic runs only: connection.encode_message_data -> identity (frames are the message objects); concrete replay serialises with the real codec and decodes the frames back',
              'symbolic runs only: distributed.int -> truncation that understands symbolic reals',
              'peer connections are put into CONNECTED/ESTABLISHED by assignment (no socket, no reader task)',
              'logging disabled', 'asyncio loop -> engine.vloop.VLoop'],
    'data_variables': ['pp_cache harness: name token of the connecting user over the whole proposed range plus one below / above',
                       'branch level announced by a peer / held by the parent (Int 0..2^32-2)', 'branch root tokens (6 values incl. own name)',
                       'user name tokens of connections and of potential-parent entries (5 values)', 'upload speed (uint32)',
                       'parent_min_speed (uint32)', 'parent_speed_ratio (1..2^32-1)', '_max_children (uint32)', '_accept_children (Bool)'],
    'discriminants': ["event 'relogin' (session destroyed + new session initialised, distributed connections untouched) in the step and overlap alphabets",
                      'relogin harness: parent found or not (through the real path, symbolic level / root), child present, what happens while there is no session '
                      '(nothing / parent re-announces / parent lost / a peer joins)',
                      'how an incoming peer reaches us: bare PeerInitializedEvent / real accept path / real server-relayed path (ConnectToPeer)',
                      'pp_cache harness: lengths of the PotentialParents lists (also crossing the 20-entry cache)',
                      'role of each of the 3..4 peers (absent / candidate / child / parent / connecting)', 'event kind (12)', 'sender',
                      'session present or not', 'which of level/root the sender announced before', 'length of the potential-parent cache (0..2) and of a list (1..2)',
                      'number of children in the limit harness (0..3)',
                      'fan-out fault harness: which child socket fails (write / drain error) or stalls, which child closes meanwhile, which parent event (level / root / loss)',
                      'overlap harness: which socket stalls (server drain / close of one peer connection / the socket of a freshly accepted child at its first or second frame), the two overlapping events'],
    'bounds': {'quick': {'peers': 3, 'step': 'every role assignment over absent/cand/child/parent x session yes/no x every event x every sender',
                         'sequence_length': 4, 'overlap': '2 role assignments x every stalled socket x first event in {level, close} x every second event; '
                                                          'slow socket of a new child: 3 role assignments x every second event (sender may be the new child)'},
               'thorough': {'peers': 4, 'step': 'every role assignment over 5 roles x session yes/no x every event x every sender', 'sequence_length': 5,
                            'overlap': 'every 3-peer role assignment x every stalled socket (incl. the slow socket of a new child) x every pair of events'}},
    'outside': ['more than one failing / stalled child socket per fan-out', 'more than two events overlapping in time; schedules other than FIFO (overlap is produced by a stalled socket only)',
                'send failures / write errors', 'settings.debug.search_for_parent = False',
                'a parent announcing level 2^32-1 (level+1 does not fit the wire format; the serialiser drops the message)',
                'parent_speed_ratio = 0 (ZeroDivisionError inside _on_get_user_stats, swallowed by EventBus.emit)',
                'IEEE double rounding in _calculate_max_children (exact rationals in the encoding)',
                'more than 4 peers / sequences longer than the bound from the constructor state (the one-step harness covers any length, relative to its invariant)',
                'parent inactivity timeout (not implemented in distributed.py)'],
    'assumptions': ['"told to the server" = written on the server connection of the CURRENT session: the observer forgets its record when the session is '
                    'destroyed and when a new one is initialised',
                    'one-step pre-state with a session: the real _notify_server_of_parent() is run once before the event (the server WAS told), so that '
                    'anything the code itself remembers about its last notification agrees with the assumed pre-state',
                    'no remote peer carries the logged-in user name as its connection user name',
                    'one-step harness invariant: parent not in children; parent and children registered in distributed_peers with CONNECTED type-D connections that are in Network.peer_connections; '
                    'the parent has announced level and root; server and every child were last told the position derived from the parent'],
}


# number of events applicable after the first one (see seq_events): 3 per live connection, connect_ok when an attempt
# is pending, 4 global ones, 1 session toggle
SEQ_SECOND = {'incoming': 8, 'pp_list': 6, 'user_stats': 5, 'reset': 5, 'session_destroyed': 5}


def _role_tuples(n, roles):
    for t in itertools.product(roles, repeat=n):
        if sum(1 for r in t if r == 'parent') <= 1:
            yield list(t)


def jobs(tier):
    out = []
    if tier == 'quick':
        for n, t in enumerate(_role_tuples(3, ('absent', 'cand', 'child', 'parent'))):
            for sess in (True, False):
                # quick: the way an incoming peer reaches us rotates over the role assignments (thorough: all three each)
                out.append({'harness': 'step', 'fn': h_step,
                            'params': {'roles': t, 'session': sess, 'vias': [('event', 'accept', 'indirect')[(n + sess) % 3]]},
                            'requires': ['quiescent']})
        for first in ('incoming', 'pp_list', 'user_stats', 'reset', 'session_destroyed'):
            for second in range(SEQ_SECOND[first]):
                out.append({'harness': 'seq', 'fn': h_seq, 'params': {'k': 4, 'first': first, 'second': second, 'via_phase': second % 2},
                            'requires': ['seq_end']})
    else:
        for t in _role_tuples(4, ('absent', 'cand', 'child', 'parent', 'connecting')):
            for sess in (True, False):
                # thorough: both real ways an incoming peer reaches us (the bare event is the quick tier's third variant)
                out.append({'harness': 'step', 'fn': h_step, 'params': {'roles': t, 'session': sess, 'vias': ['accept', 'indirect']},
                            'requires': ['quiescent']})
        for first in ('incoming', 'pp_list', 'user_stats', 'reset', 'session_destroyed'):
            for second in range(SEQ_SECOND[first]):
                for phase in (0, 1):
                    out.append({'harness': 'seq', 'fn': h_seq, 'params': {'k': 5, 'first': first, 'second': second, 'via_phase': phase},
                                'requires': ['seq_end']})
    q_roles = [['cand', 'cand', 'child'], ['parent', 'cand', 'child']]
    for t in (q_roles if tier == 'quick' else list(_role_tuples(3, ('absent', 'cand', 'child', 'parent')))):
        if all(r == 'absent' for r in t):
            continue
        for stall in ['server'] + [i for i, r in enumerate(t) if r != 'absent']:
            for e1 in (('level', 'close') if tier == 'quick' else OVERLAP_EVENTS):
                out.append({'harness': 'overlap', 'fn': h_overlap, 'params': {'roles': t, 'stall': stall, 'e1': e1},
                            'requires': ['overlapped'] if (stall == 'server' and e1 == 'level' and 'parent' in t) else []})
    for lists in ([[2, 2], [7, 7, 7]] if tier == 'quick' else [[1, 1], [2, 2], [2, 1, 2], [10, 10], [7, 7, 7], [10, 10, 10], [19, 2]]):
        for via in ('accept', 'indirect'):
            out.append({'harness': 'pp_cache', 'fn': h_pp_cache, 'params': {'lists': lists, 'via': via},
                        'requires': ['child', 'not_child', 'cache_overflowed' if sum(lists) > POTENTIAL_PARENTS_CACHE_SIZE else 'cache_not_full']})
    for par in (False, True):
        for child in (False, True):
            for mid in (['none'] + (['parent_level', 'parent_lost'] if par else []) + ([] if tier == 'quick' else ['incoming'])):
                out.append({'harness': 'relogin', 'fn': h_relogin, 'params': {'parent': par, 'child': child, 'mid': mid},
                            'requires': ['relogged_in'] + (['has_parent'] if par else [])})
    ff_roles = [['parent', 'child', 'child', 'child']] if tier == 'quick' else \
        [['parent', 'child', 'child', 'child'], ['child', 'parent', 'child', 'child'], ['parent', 'child', 'child', 'cand']]
    for t in ff_roles:
        kids = [i for i, r in enumerate(t) if r == 'child']
        faults = [['drain_error', i] for i in kids] + [['write_error', i] for i in kids[:-1]] \
            + [['stall_close', k, j] for k in kids for j in kids if j <= k]
        for e1 in ('level', 'root', 'close'):
            for f in faults:
                out.append({'harness': 'fanout_fault', 'fn': h_fanout_fault, 'params': {'roles': t, 'e1': e1, 'fault': f},
                            'requires': ['fanout_fault_' + f[0], 'quiescent'] + (['stalled'] if f[0] == 'stall_close' else [])})
    # a slow socket of a freshly accepted child: the send of our position to it overlaps with a second event
    nc_roles = [['child', 'absent', 'absent'], ['parent', 'child', 'absent'], ['parent', 'absent', 'absent']] if tier == 'quick' \
        else list(_role_tuples(3, ('absent', 'cand', 'child', 'parent')))
    for t in nc_roles:
        out.append({'harness': 'overlap', 'fn': h_overlap, 'params': {'roles': t, 'stall': 'new_child', 'e1': 'incoming'},
                    'requires': ['overlapped', 'admission']})
        if 'parent' in t:       # a root frame is only sent at a level other than 0
            out.append({'harness': 'overlap', 'fn': h_overlap, 'params': {'roles': t, 'stall': 'new_child_root', 'e1': 'incoming'},
                        'requires': ['overlapped', 'admission']})
    for n in range(0, 4):
        for ratio in ([50, 3] if tier == 'quick' else [50, 30, 3, 1, None]):
            out.append({'harness': 'limits', 'fn': h_limits, 'params': {'n_children': n, 'server_values': True, 'ratio': ratio},
                        'requires': ['limits_set', 'admission'], 'solver_timeout_ms': 30000})
        out.append({'harness': 'limits', 'fn': h_limits, 'params': {'n_children': n, 'server_values': False},
                    'requires': ['limits_set', 'admission']})
    return out


def prelude(tier):
    """validation of the reference and of the frame decoding used in concrete replay"""
    from aioslsk.protocol.messages import BranchLevel, BranchRoot, ToggleParentSearch, ServerMessage, DistributedMessage
    notes = []
    # reference child limit against the table pinned in tests/unit/test_distributed.py
    table = [((1023, 1, 50), (False, 0)), ((1024, 1, 50), (True, 0)), ((20480, 1, 50), (True, 4)), ((20480, 1, 30), (True, 6)),
             ((1023, None, None), (False, 0)), ((1025, None, None), (True, 0)), ((1024 + 5 * 1024, None, None), (True, 1))]
    for (speed, ms, ra), want in table:
        got = ref_limits(speed, ms, ra)
        if got != want:
            raise symex.HarnessError(f'ref_limits{(speed, ms, ra)} = {got}, pinned {want}')
    notes.append(f'ref_limits agrees with {len(table)} pinned rows of tests/unit/test_distributed.py')
    # frames written in concrete replay decode back to the message that was sent
    for m, dec in [(BranchLevel.Request(7), ServerMessage.deserialize_request), (BranchRoot.Request('user3'), ServerMessage.deserialize_request),
                   (ToggleParentSearch.Request(True), ServerMessage.deserialize_request),
                   (DistributedBranchLevel.Request(2 ** 32 - 1), DistributedMessage.deserialize_request),
                   (DistributedBranchRoot.Request('user0'), DistributedMessage.deserialize_request)]:
        if dec(m.serialize()) != m:
            raise symex.HarnessError(f'frame decoding does not round-trip {m!r}')
    notes.append('frame decoder round-trips the 5 advertised-position messages')
    if sym_int(3.99) != 3 or sym_int(7) != 7:
        raise symex.HarnessError('int shim')
    return notes
