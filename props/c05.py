"""C05: active uploads never exceed the slot limit or one per user; priority holds.

Two harnesses on the real TransferManager code (shared fakes: engine/fakes_transfer.py):

* `step`  - one `manage_transfers()` from an arbitrary pre-state: symbolic upload_slots, per user a
  symbolic status / friend / privileged, per transfer a symbolic state (forked lazily by the code
  itself).  Obligations against a short reference: started <= max(0, slots - processing); only
  queued uploads, each once; one per user and none for a user already served; never for an OFFLINE
  user; nobody of a lower priority class was preferred to an eligible user; an eligible user is
  served while a slot is free.
* `slots` - bounded scenario from the constructor state with the real BackgroundTask management
  loop on the virtual loop: uploads are queued through the real PeerTransferQueue handler, events
  (queue / progress+completion / failure / abort / limit change / reply time-out) arrive in every
  order and either in the same instant or after the manager settled.  At every upload start the
  uploads that are active (INITIALIZING/UPLOADING, or a start task created and not yet run, or a
  cancelled transfer whose task is still alive) number at most the limit in force, one per user; a
  PeerTransferRequest only leaves for an upload that is INITIALIZING; at quiescence no eligible
  queued upload is left while a slot is free.  An upload counts as active from the creation of its
  start task on; every environment awaitable (file system, file handle, shares, network) that a
  start task touches BEFORE it reached INITIALIZING ends at once or only after 0.12 s (choice), so
  a change that opens a window between "slot given" and "INITIALIZING" is explored with a
  management cycle inside that window (reach label `cycle_inside_start_window`; never reached on
  the current code)."""
from __future__ import annotations

import asyncio

from engine import symex
from engine import fakes_transfer as ft
from engine.fakes_transfer import ST, UP, TLoop

from aioslsk.exceptions import ConnectionWriteError
from aioslsk.protocol.messages import PeerTransferQueue, PeerTransferRequest
from aioslsk.tasks import BackgroundTask
from aioslsk.transfer.manager import TransferManager
from aioslsk.transfer.model import Transfer
from aioslsk.transfer.state import TransferState
from aioslsk.user.manager import UserManager
from aioslsk.user.model import UserStatus

PROPERTY = 'C05'


def h_step(c, dirs, users, statuses=4, stale=True, slots_hi=4, inflight=False):
    ft.step_harness(c, dirs, users, 'C05', slots_hi=slots_hi, inflight=inflight, sym_users=True, statuses=statuses,
                    vary_downloads=False, stale_handles=stale)


# --------------------------------------------------------------------------------------------------
# bounded scenario
# --------------------------------------------------------------------------------------------------

class _Conn:
    def __init__(self, username):
        self.username = username
        self.queued = []

    def queue_message(self, m):
        self.queued.append(m)

    async def send_message(self, m):
        self.queued.append(m)


EVENTS = ('queue', 'advance', 'fail', 'abort', 'limit', 'timeout')


def h_slots(c, owners=(0, 1, 2), events=2, first=None, second=None, nu=None, gaps=3):
    loop = TLoop()
    nu = nu or (max(owners) + 1)
    with ft.env(loop, c.symbolic):
        w = ft.build_world(loop)
        limit = {'S': c.fresh_int('upload_slots', 0, 4)}
        ft.set_slots(w, limit['S'])
        for j in range(nu):
            ft.add_user(w, f'user{j}', UserStatus.ONLINE)
        mgr = w.manager
        starts = []             # task records of _initialize_upload, in start order

        def ups():
            return [t for t in mgr.transfers if t.is_upload()]

        def transfer_of(filename):
            return next((t for t in ups() if t.remote_path == filename), None)

        why = {}

        def reached_initializing(rec):
            return rec.get('initialized', False)

        def active():
            """uploads that occupy a slot right now (why[id]: 'state' / 'start_pending' / 'old_task_alive')"""
            out = []
            for t in ups():
                live = [r for r in starts if r['transfer'] is t and not r['task'].done()]
                st = t.state.VALUE
                if st in (ST.INITIALIZING, ST.UPLOADING):
                    why[id(t)] = 'state'
                elif any(not reached_initializing(r) for r in live):
                    # it has been given a slot: its start task exists (not yet run, or suspended in
                    # something it does before the INITIALIZING transition)
                    why[id(t)] = 'start_pending'
                elif live and st in (ST.ABORTED, ST.PAUSED):
                    why[id(t)] = 'old_task_alive'         # cancelled, but its task goes on negotiating
                else:
                    continue      # e.g. FAILED/QUEUED while the old task only notifies the peer any more
                out.append(t)
            return out

        def tag(ts):
            kinds = {why[id(x)] for x in ts}
            return 'task_of_cancelled_upload_alive' if 'old_task_alive' in kinds else \
                'start_pending' if 'start_pending' in kinds else 'plain'

        class _Listener:
            """marks the start task(s) of an upload once the upload has reached INITIALIZING"""

            async def on_transfer_state_changed(self, transfer, old, new):
                if new == ST.INITIALIZING:
                    for r in starts:
                        if r['transfer'] is transfer and not r['task'].done():
                            r['initialized'] = True
        listener = _Listener()

        def on_task(rec):
            if rec['kind'] != '_initialize_upload' or rec['transfer'] is None:
                return
            t = rec['transfer']
            if all(x is not listener for x in t.state_listeners):
                t.state_listeners.append(listener)
            before = active()
            starts.append(rec)
            c.reach('upload_started')
            c.note(f"t={loop.time():.2f} start {t.remote_path} for {t.username}; active before: "
                   f"{[(x.remote_path, x.state.VALUE.name, why[id(x)]) for x in before]}")
            # finite tag for the signature: is a cancelled / re-queued upload whose old task is still alive involved?
            how = tag(before)
            c.check(all(x is not t for x in before), 'not_started_twice', sig=['scenario', how], info=t.remote_path)
            c.check(len(before) + 1 <= limit['S'], 'active_within_limit_in_force', sig=['scenario', how],
                    info={'active_before_start': len(before)})
            c.check(all(x.username != t.username for x in before), 'one_active_per_user', sig=['scenario', how],
                    info=t.username)
            c.check(t.state.VALUE == ST.QUEUED, 'started_upload_was_queued', sig=['scenario'])
        loop.on_task = on_task

        budget = {'latency_choices': 3}

        def start_rec_of(task):
            return next((r for r in starts if r['task'] is task), None)

        async def latency(what):
            """an awaitable of the environment touched by a start task that has not reached INITIALIZING
            yet ends at once or only after 0.12 s (longer than the management interval)"""
            rec = start_rec_of(asyncio.current_task())
            if rec is None or reached_initializing(rec):
                return
            c.reach('environment_call_before_initializing')
            budget['latency_choices'] -= 1
            if budget['latency_choices'] < 0:
                return                          # bound: only the first 3 such calls of a path are split
            if c.choose(2, 'call_before_initializing_is_slow') == 1:
                c.note(f't={loop.time():.2f} {what} of {rec["transfer"].remote_path} is slow')
                await asyncio.sleep(0.12)
        ft.LAT.hook = latency

        # observe manage_transfers entries: does a cycle begin while an upload holds a start task that has not
        # reached INITIALIZING?  (not an obligation: what matters is whether the limit is then exceeded)
        real_manage = mgr.manage_transfers

        def manage_transfers():
            if any(not r['task'].done() and not reached_initializing(r) for r in starts):
                c.reach('cycle_inside_start_window')
            c.reach('management_cycle')
            return real_manage()
        mgr.manage_transfers = manage_transfers

        # messages leaving the uploader
        real_send = w.net.send_peer_messages

        async def send(username, *messages, **kw):
            await real_send(username, *messages, **kw)
            for m in messages:
                if isinstance(m, PeerTransferRequest.Request):
                    t = transfer_of(m.filename)
                    c.note(f't={loop.time():.2f} PeerTransferRequest {m.filename} leaves; state={t.state.VALUE.name}')
                    c.check(t.state.VALUE == ST.INITIALIZING, 'request_only_for_initializing_upload', sig=['scenario'],
                            info={'state': t.state.VALUE.name})
        w.net.send_peer_messages = send

        counter = {'n': 0}

        def queue_upload(user):
            i = counter['n']
            counter['n'] += 1
            name = f'music\\file{i}.mp3'
            task = loop.spawn(mgr._on_peer_transfer_queue(PeerTransferQueue.Request(name), _Conn(f'user{user}')),
                              name='peer-queues-file')
            return name, task

        def settle(dt):
            loop.advance(dt)

        loop.call(mgr._management_task.start)
        for u in owners:
            queue_upload(u)
        # the initial requests arrive in one burst; the first event follows in the same instant or later
        if c.choose(2, 'initial_gap') == 1:
            settle(1)
        else:
            loop.run_ready()

        def waiter_of(t):
            return next((x for x in w.net.reply_waiters if not x['future'].done() and x['username'] == t.username
                         and t.state.VALUE == ST.INITIALIZING), None)

        def conn_of(t):
            return next((x for x in reversed(w.net.file_connections) if x.username == t.username and not x.closed
                         and not x.release.done() and t.state.VALUE == ST.UPLOADING), None)

        for e in range(events):
            kinds = list(EVENTS)
            fixed = first if e == 0 else second if e == 1 else None
            ev = fixed if fixed is not None else c.pick(kinds, f'event{e}')
            act = [t for t in ups() if t.state.VALUE in (ST.INITIALIZING, ST.UPLOADING)]
            if ev == 'queue':
                u = c.choose(nu, f'event{e}_user')
                c.note(f't={loop.time():.2f} event: user{u} queues another file')
                queue_upload(u)
            elif ev in ('advance', 'fail'):
                if not act:
                    raise symex.PathAbort('no active upload for this event')
                t = act[c.choose(len(act), f'event{e}_which')]
                wt, cn = waiter_of(t), conn_of(t)
                c.note(f't={loop.time():.2f} event: {ev} {t.remote_path} ({t.state.VALUE.name})')
                if wt is not None:
                    loop.call(w.net.answer, wt, ev == 'advance', None if ev == 'advance' else 'Cancelled')
                elif cn is not None:
                    if ev == 'advance':
                        loop.call(cn.release.set_result, None)
                    else:
                        loop.call(cn.release.set_exception, ConnectionWriteError('fake: peer went away'))
                else:
                    raise symex.PathAbort('active upload is between two waits')
            elif ev == 'abort':
                cand = [t for t in ups() if t.state.VALUE in (ST.QUEUED, ST.INITIALIZING, ST.UPLOADING)]
                if not cand:
                    raise symex.PathAbort('nothing to abort')
                t = cand[c.choose(len(cand), f'event{e}_which')]
                c.note(f't={loop.time():.2f} event: user aborts {t.remote_path} ({t.state.VALUE.name})')
                loop.spawn(mgr.abort(t), name='user-abort')
            elif ev == 'limit':
                limit['S'] = c.fresh_int(f'event{e}_new_limit', 0, 4)
                c.note(f't={loop.time():.2f} event: upload_slots := {limit["S"]}')
                ft.set_slots(w, limit['S'])
                # nothing in aioslsk reacts to the settings change; the next cycle picks it up
                loop.call(mgr.request_management_cycle, ft._RequestFlag.TRANSFER_CHANGE)
            elif ev == 'timeout':
                c.note(f't={loop.time():.2f} event: 31 s pass (transfer replies time out)')
                settle(31)
            # the next event arrives in the same instant (before any callback ran), after the ready
            # callbacks of this instant, or after the manager settled
            if e == events - 1:
                break                    # the final settle follows anyway
            gap = c.choose(gaps, f'gap{e}') + (3 - gaps)
            if gap == 1:
                loop.run_ready()
            elif gap == 2:
                settle(1)
        settle(2)
        c.reach('scenario_end')
        # quiescence: nobody eligible is left waiting while a slot is free
        act = active()
        busy_users = {t.username for t in act}
        waiting = [t for t in ups() if t.state.VALUE == ST.QUEUED and t.username not in busy_users
                   and all(x is not t for x in act)]
        c.note(f"end: active={[(t.remote_path, t.state.VALUE.name) for t in act]} waiting={[t.remote_path for t in waiting]}")
        if waiting:
            c.reach('someone_waiting_at_end')
            c.check(len(act) >= limit['S'], 'eligible_started_while_slot_free', sig=['scenario'],
                    info={'waiting': [t.remote_path for t in waiting], 'active': len(act)})
        how = tag(act)
        c.check(len({t.username for t in act}) == len(act), 'one_active_per_user', sig=['scenario', how, 'end'])
        c.check(not loop.errors, 'no_loop_errors', sig=['scenario'], info=repr(loop.errors[:1]))
        loop.cleanup()


META = {
    'level': 'other',
    'technique': 'symbolic execution of the real TransferManager scheduling code (manage_transfers, _get_queued_transfers, '
                 '_prioritize_uploads, get_free_upload_slots/get_uploading, UserManager.get_user_object) on z3 proxies: the slot limit '
                 'is a symbolic Int, friend/privileged are symbolic Bools, user status and transfer state are symbolic enum indexes that '
                 'the code forks on lazily; obligations are z3 queries against a short reference; bounded scenarios run the real '
                 'management loop on a virtual event loop',
    'explanation': 'step: one manage_transfers() from an arbitrary pre-state (any mix of states/owners/status/friend/privilege, any limit) - '
                   'z3 decides per path that the number of started uploads is at most max(0, slots - processing), that every started upload '
                   'was QUEUED, one per user, none for a user being served, none for OFFLINE users, that no eligible user of a higher '
                   'priority class (privileged > friend > online/away > unknown) was passed over, and that an eligible user is served while '
                   'a slot is free. One step from any state covers histories of any length for these clauses. slots: from the constructor '
                   'state, uploads queued through the real PeerTransferQueue handler run through the real management BackgroundTask; events '
                   '(queue, progress/completion, failure, abort, limit change with a symbolic new limit, reply time-out) in every order and '
                   'timing class; at every start the active uploads number at most the (symbolic) limit in force, one per user; a '
                   'PeerTransferRequest leaves only for an INITIALIZING upload; no management cycle begins while a start task has not taken '
                   'its first step; at quiescence no eligible queued upload is left while a slot is free.',
    'functions': [TransferManager.manage_transfers, TransferManager._get_queued_transfers, TransferManager._prioritize_uploads,
                  TransferManager.get_free_upload_slots, TransferManager.get_uploading, TransferManager.get_upload_slots,
                  UserManager.get_user_object, Transfer.is_processing, Transfer.is_upload,
                  TransferManager._management_job, TransferManager.request_management_cycle, TransferManager.on_transfer_state_changed,
                  TransferManager._on_peer_transfer_queue, TransferManager._add_upload, TransferManager.add, TransferManager.abort,
                  TransferManager._initialize_upload, TransferManager._upload_file, TransferManager.manage_user_tracking,
                  Transfer._transfer_task_complete, Transfer.cancel_tasks, BackgroundTask.runner],
    'stubs': ['Network -> engine.fakes_transfer.FakeNetwork (peer sends succeed after one suspension; create_peer_response_future is a plain future '
              'answered by the harness; create_peer_connection returns FakeFileConnection)',
              'file connection -> FakeFileConnection (ticket/offset exchange succeeds, send_file blocks until the harness releases it or fails it)',
              'SharesManager -> FakeShares (every file shared with everybody, 3 bytes)',
              'UserManager.track_user / untrack_user -> no-op coroutines (tracking traffic is C15)',
              'time.monotonic / time.time in aioslsk.transfer.manager and .model -> virtual clock of the loop',
              'aiofiles.open in aioslsk.transfer.manager -> in-memory handle; asyncos (aiofiles.os) in aioslsk.transfer.manager -> FakeFS (every file exists, 3 bytes)',
              'every awaitable of these fakes goes through a latency hook: instant, except that a call made by an upload start task before INITIALIZING is '
              'split into instant / 0.12 s (first 3 such calls per path)',
              'list in aioslsk.transfer.manager -> list subclass that merges the outcomes of a symbolic slice bound (while exploring only)',
              'step only: Transfer.state -> object exposing VALUE as a lazily forking symbolic enum (real state classes in replay); '
              'settings.users.friends -> container whose membership test returns a symbolic Bool; upload_slots written past pydantic validation',
              'asyncio event loop -> engine.vloop.VLoop subclass recording which coroutine/transfer each task was created for',
              'progress reporting task not started (only the management BackgroundTask runs)'],
    'data_variables': ['upload_slots 0..4 (Int; 0..8 in two thorough jobs)', 'new limit on a limit change 0..4 (Int)',
                       'friend, privileged per user (Bool)', 'per queued upload: unfinished previous task in the slot / finished task still in the slot (Bool)',
                       'user status (index into UNKNOWN/OFFLINE/ONLINE/AWAY, Int) and transfer state (index into the 8/9 states valid for the direction, Int): '
                       'symbolic, split lazily by the comparisons the code performs'],
    'discriminants': ['number, direction and owner pattern of the transfers (job parameters; owner patterns up to renaming of users)',
                      'scenario: event kinds, their targets, the gap between events (same instant / after ready callbacks / after the manager settled), '
                      'instant / slow for environment calls made before INITIALIZING'],
    'bounds': {'quick': {'step_shapes': 'U, D, UU (same/different user; plus different users with the unfinished-task flag, UNKNOWN/OFFLINE only), UD (same/different), DU, UUU with owners 0,0,1 and 0,1,0 (3 statuses) and 0,1,2 (UNKNOWN/OFFLINE only)',
                         'upload_slots': '0..4', 'scenario_initial_uploads': '3 (owners 0,1,2; owners 0,0,1 for three first events)',
                         'scenario_events': 2},
               'thorough': {'step_shapes': 'all shapes of <= 2 transfers (with the unfinished-task flag); UUU with all 5 owner patterns (4 statuses, stale handles; and with the unfinished-task flag, 2 statuses); UUD/UDU/DUU x 4 owner '
                                           'patterns; UUUU x all 2-user patterns and one 3-user pattern; UUUD; UUUUU of one user',
                            'upload_slots': '0..4, and 0..8 for UU / UUU', 'scenario_initial_uploads': '3 (owners 0,1,2 and 0,0,1)', 'scenario_events': 3}},
    'outside': ['more transfers / events than the bound', 'fairness among users of equal priority (the code serves the latest queued first; the property allows any order)',
                'peer send failures and slow connects inside the C05 scenario (they are C06\'s scenario)', 'real connection and file transfer code (C04, C10/C11)',
                'user status changes while uploads are active (status is part of the arbitrary pre-state of the step harness only)',
                'whether a queued upload whose task slot is occupied by an unfinished task is itself started (C06 decides: it is not); in C05 its user is "don\'t care" '
                'on the must-be-served side, but it must not keep a slot from another startable user'],
    'assumptions': ['asyncio Task/Future/Queue/Lock semantics of CPython 3.12 (FIFO ready queue)',
                    'an upload counts as active while INITIALIZING/UPLOADING, while its start task exists and has not run, or while a task of a cancelled upload is still alive'],
}


def _users_patterns(n, max_users):
    out = [[0]]
    for _ in range(n - 1):
        out = [p + [u] for p in out for u in range(min(max(p) + 1, max_users - 1) + 1)]
    return out


def prelude(tier):
    return ft.validate_fakes()


def jobs(tier):
    q = tier == 'quick'
    out = []
    req = ['stepped', 'c05_step_checked']

    def step(dirs, users, **kw):
        r = list(req) + (['c05_step_started_some'] if 'U' in dirs else [])
        out.append({'harness': 'step', 'fn': h_step, 'params': dict(dirs=dirs, users=users, **kw), 'requires': r})
    if q:
        step('U', [0], inflight=True)
        step('D', [0])
        step('UU', [0, 0], inflight=True)
        step('UU', [0, 1], stale=False)
        # a queued upload whose previous task is still running must not use up a slot that another user could get
        step('UU', [0, 1], stale=False, inflight=True, statuses=2)
        step('UD', [0, 0])
        step('UD', [0, 1])
        step('DU', [0, 0])
        for users in ([0, 0, 1], [0, 1, 0]):
            step('UUU', users, statuses=3, stale=False)
        step('UUU', [0, 1, 2], statuses=2, stale=False)      # three users: top-2-of-3 by friend / privilege
    else:
        for dirs in ('U', 'D', 'UU', 'UD', 'DU'):
            for users in _users_patterns(len(dirs), 2):
                step(dirs, users, inflight=('U' in dirs))
        for users in _users_patterns(3, 3):
            step('UUU', users, stale=(users != [0, 1, 2]))
            step('UUU', users, stale=False, inflight=True, statuses=2)
        for dirs in ('UUD', 'UDU', 'DUU'):
            for users in ([0, 0, 0], [0, 0, 1], [0, 1, 0], [0, 1, 1]):
                step(dirs, users, statuses=3, stale=False)
        for users in _users_patterns(4, 2) + [[0, 1, 2, 0]]:
            step('UUUU', users, statuses=3, stale=False)
        step('UUUD', [0, 0, 1, 1], statuses=3, stale=False)
        step('UUUUU', [0, 0, 0, 0, 0], stale=False)
        # limits beyond the property's 0..4
        step('UU', [0, 1], slots_hi=8)
        step('UUU', [0, 0, 1], slots_hi=8, statuses=3, stale=False)
    # scenarios
    sreq = ['scenario_end', 'management_cycle', 'upload_started']
    if q:
        for first in EVENTS:
            out.append({'harness': 'slots', 'fn': h_slots, 'params': {'owners': [0, 1, 2], 'events': 2, 'first': first},
                        'requires': sreq})
        for first in ('advance', 'abort', 'timeout'):
            out.append({'harness': 'slots', 'fn': h_slots, 'params': {'owners': [0, 0, 1], 'events': 2, 'first': first},
                        'requires': sreq})
    else:
        for owners in ([0, 1, 2], [0, 0, 1]):
            for first in EVENTS:
                for second in EVENTS:
                    out.append({'harness': 'slots', 'fn': h_slots,
                                'params': {'owners': owners, 'events': 3, 'first': first, 'second': second}, 'requires': sreq})
    return out
