"""C11: connecting to a peer succeeds iff a path works, and leaves nothing behind.

The REAL Network.create_peer_connection / _create_peer_connection_fallback / _create_peer_connection_race /
_make_direct_connection / _get_peer_address / select_port / _make_indirect_connection / on_peer_accepted /
_on_connect_to_peer / _handle_connect_to_peer / on_message_received and the real connection classes run on the virtual
loop over byte-accurate fake streams.  MIXED STYLE (stated in META and docs/C11.md): how and when each I/O attempt ends,
the relative order of the two attempts and the point at which the request is cancelled are ENUMERATED discriminants; the
tickets (generator position, pierce-firewall ticket, cannot-connect ticket, connect-to-peer ticket), the peer address
(ip, clear port, obfuscated port), the user names and connection type on the wire and the obfuscation keys are z3
variables that flow through the real codec, the real waiter tables and select_port."""
from __future__ import annotations

import asyncio
import contextlib

import z3

from engine import symex, codec, c02env, c11env
from engine.c11env import (SLoop, World, SymMap, ref_frame, frame_code, bytes_equal, bv, zb, z_and, z_or, z_not,
                           z_ite, z_iff, w_eq, w_nonzero, ref_select, terms, ref_plain, ref_obfuscate)

import aioslsk.network.connection as C
import aioslsk.network.network as N
from aioslsk.exceptions import PeerConnectionError
from aioslsk.network.connection import (ConnectionState, PeerConnectionState, PeerConnection, DataConnection,
                                        ListeningConnection)
from aioslsk.network.network import Network
from aioslsk.utils import ticket_generator

PROPERTY = 'C11'
ME, PEER = 'me', 'pe'

# virtual-time constants of the scenarios (seconds), derived from the two time-outs the code under test uses, so that
# "fast" / "slow" / "hangs until the time-out" keep their meaning when a time-out is retuned (prelude checks the order)
CONNECT_TIMEOUT = float(PeerConnection.connect.__defaults__[0])          # PEER_CONNECT_TIMEOUT (10)
INDIRECT_TIMEOUT = float(N.PEER_INDIRECT_CONNECT_TIMEOUT)                # 60
GPA_DECOY, GPA_REPLY = 0.0125 * CONNECT_TIMEOUT, 0.025 * CONNECT_TIMEOUT  # the server answers GetPeerAddress (0.125, 0.25)
D_FAST, D_SLOW = 0.1 * CONNECT_TIMEOUT, 0.8 * CONNECT_TIMEOUT            # the peer's answer to our SYN (1, 8)
I_FAST, I_SLOW = 0.2 * CONNECT_TIMEOUT, 0.5 * INDIRECT_TIMEOUT           # what the other side does after ConnectToPeer (2, 30)
PINNED_INDIRECT_TIMEOUT = INDIRECT_TIMEOUT
T_END = 2 * (CONNECT_TIMEOUT + INDIRECT_TIMEOUT) + 40

DIRECT = {
    # outcome of the TCP attempt, delay, what drain() of the PeerInit write does
    'fast': ('ok', D_FAST, 'ok'),
    'slow': ('ok', D_SLOW, 'ok'),
    # the TCP attempt ends in the very instant of the fast indirect event, 0..TIE_HOPS-1 loop iterations after that instant's
    # first timer (a discriminant): covers direct-first, indirect-first and both attempts finishing in ONE wake-up of the race
    'tie': ('ok', None, 'ok'),
    'tie_refused': ('refused', None, 'ok'),
    'refused': ('refused', D_FAST, 'ok'),
    'refused_slow': ('refused', D_SLOW, 'ok'),
    'hang': ('hang', 0, 'ok'),
    'init_fail': ('ok', D_FAST, 'error'),
    'init_hang': ('ok', D_FAST, 'hang'),
}
DIRECT_OK = ('fast', 'slow', 'tie')
TIE_HOPS = 12

# (offset after the server got ConnectToPeer, kind, ticket): 'sym' = any 32-bit value, 'ours' = the request's ticket
INDIRECT = {
    'pierce_fast': [(I_FAST, 'ppf', 'sym')],
    'pierce_slow': [(I_SLOW, 'ppf', 'sym')],
    'cannot_fast': [(I_FAST, 'cc', 'sym'), (I_SLOW, 'ppf', 'ours')],
    'cannot_slow': [(I_SLOW, 'cc', 'sym')],
    'silence': [],
    'send_fails': [],
    'send_hangs': [],
    'stranger_then_pierce': [(I_FAST, 'ppf', 'sym'), (I_SLOW, 'ppf', 'ours')],
    'pierce_then_cannot': [(I_FAST, 'ppf', 'sym'), (I_SLOW, 'cc', 'ours')],
    # the pierce-firewall connection shows up in the very instant of the indirect time-out: just before it is handled ...
    'pierce_at_timeout': [(PINNED_INDIRECT_TIMEOUT, 'ppf', 'ours')],
    # ... and just after it (the waiter has been cancelled in this loop iteration, its done-callback has not run yet)
    'pierce_after_timeout': [(PINNED_INDIRECT_TIMEOUT, 'ppf', 'ours')],
    # ... and every alignment around it (discriminant `timeout_alignment`): 'pre' = the pierce is I/O that is ready when the loop
    # wakes up for the deadline, i.e. it is handled AHEAD of the time-out's timer callback (the ticket future is resolved when the
    # time-out fires); 0 = its arrival is queued just ahead of the time-out callback, handled right behind it; k >= 1 = it arrives
    # k loop iterations behind the time-out callback (time-out being handled, waiter cancelled but not yet removed, removed, ...)
    'pierce_around_timeout': [(PINNED_INDIRECT_TIMEOUT, 'ppf', 'ours')],
}
TIES = ('pierce_at_timeout', 'pierce_after_timeout', 'pierce_around_timeout')
TIMEOUT_ALIGN = ['pre', 0, 1, 2, 3, 4, 5, 6, 7, 8]
SERVER_FAULT = {'send_fails': 'error', 'send_hangs': 'hang'}


class LogTap:
    """stands in for the module-level logger adapter of aioslsk.network.connection: remembers exceptions the code logs and
    swallows (`adapter.exception(...)`), everything else is dropped like with logging disabled"""

    def __init__(self):
        self.swallowed = []

    def exception(self, *a, **kw):
        import sys
        self.swallowed.append(sys.exc_info()[1])

    def __getattr__(self, name):
        return lambda *a, **kw: None


@contextlib.contextmanager
def environment(c, loop):
    g = codec.Gen(c)
    n = [0]

    def key_source(k):
        v = g.raw(f'obfuscation_key{n[0]}', k)
        n[0] += 1
        return v
    tap = LogTap()
    old = C.__dict__['adapter']
    C.__dict__['adapter'] = tap
    try:
        with c11env.wire(c.symbolic, loop) as wr, codec.installed(c.symbolic, key_source=key_source):
            yield g, wr, tap
    finally:
        C.__dict__['adapter'] = old


def harness_errors(world, tap, extra=()):
    """an exception of the harness / encoding raised inside a task or swallowed by the code under test is never a verdict"""
    seen = list(tap.swallowed) + list(extra)
    for _, _, t in world.tasks:
        if t.done() and not t.cancelled() and t.exception() is not None:
            seen.append(t.exception())
    for e in seen:
        chain = []
        while e is not None and e not in chain:
            chain.append(e)
            e = e.__cause__ or e.__context__
        for x in chain:
            if isinstance(x, (symex.HarnessError, z3.Z3Exception)):
                raise symex.HarnessError(f'harness error inside the code under test: {x!r}')


def port_usable(p):
    """1 <= p <= 65535 for a python int / 32-bit vector"""
    if isinstance(p, int):
        return 1 <= p <= 65535
    return z3.And(z3.UGE(p, 1), z3.ULE(p, 65535))


# ----------------------------------------------------------------------------------------------------------------------
# H1: create_peer_connection
# ----------------------------------------------------------------------------------------------------------------------

OURS = object()       # stands for "the ticket the server was given in our ConnectToPeer request"


class Event:
    def __init__(self, j, offset, kind, ticket, obf_port):
        self.j, self.offset, self.kind, self.ticket, self.obf_port = j, offset, kind, ticket, obf_port
        self.reader = self.writer = self.task = None
        self.fired_at = None
        self.key = None
        self.waiting = None      # at the moment it arrives: is the request still waiting for a pierce-firewall connection?
        self.after = None        # once the loop has gone idle in that instant: (indirect attempt over?, socket closed?)


def h_connect(c, mode, direct, indirect, addr='given', typ='P', decoy=False, cancel=None, k_lo=0, k_hi=0, pin=False, hops=None, talign=None):
    loop = SLoop()
    try:
        with environment(c, loop) as (g, wr, tap):
            _connect(c, loop, g, wr, tap, mode, direct, indirect, addr, typ, decoy, cancel, k_lo, k_hi, pin, hops, talign)
    finally:
        loop.cleanup()


def _connect(c, loop, g, wr, tap, mode, direct, indirect, addr, typ, decoy, cancel, k_lo, k_hi, pin, hops, talign):
    sig = [mode, direct, indirect]
    d_outcome, d_delay, d_drain = DIRECT[direct]
    script = INDIRECT[indirect]
    tie_free = direct != 'tie' and indirect not in TIES

    # ---- data ---------------------------------------------------------------------------------------------------------
    prefer = bool(c.fresh_bool('prefer_obfuscated')) if addr == 'server' else False
    pos = g.word('ticket_generator_position', 32)      # makes the request's ticket an arbitrary value 1..2^32-1
    c.assume(pos <= 2 ** 32 - 2)                       # (the wrap of the generator is C18's business)

    if addr == 'server':
        shape = c.pick(['full', 'short'], 'address_reply_shape')
        real = {'ip': g.ip('addr.ip'), 'port': g.word('addr.port', 32),
                'amount': g.word('addr.obfuscated_port_amount', 32) if shape == 'full' else None,
                'obf': g.word('addr.obfuscated_port', 16) if shape == 'full' else None}
        dec = None
        if decoy:
            dec = {'user': g.text('decoy.username', len(PEER)), 'ip': g.ip('decoy.ip'), 'port': g.word('decoy.port', 32),
                   'amount': g.word('decoy.obfuscated_port_amount', 32), 'obf': g.word('decoy.obfuscated_port', 16)}
    else:
        given = {'ip': g.ip('given.ip'), 'port': g.word('given.port', 32), 'obfuscate': bool(c.fresh_bool('given.obfuscate'))}

    events = []
    for j, (off, kind, tk) in enumerate(script):
        t = g.word(f'event{j}.ticket', 32) if tk == 'sym' else OURS
        obf_port = bool(c.choose(2, f'event{j}.listening_port')) if kind == 'ppf' else False
        ev = Event(j, off, kind, t, obf_port)
        if obf_port:
            ev.key = g.raw(f'event{j}.key', 4)
        events.append(ev)
    g.commit()
    if pin:
        # cancellation scenarios: the data stays symbolic but is constrained to the case the scenario name says (usable port
        # here, every scripted notice carries our ticket - assumed when it is sent); the data-dependent cases are the
        # business of the other jobs
        if addr == 'given':
            c.assume(given['port'] >= 1)
            c.assume(given['port'] <= 65535)

    # ---- reference: does a path work? ---------------------------------------------------------------------------
    if addr == 'server':
        def field(name, bits):
            r = real[name] if real[name] is not None else 0
            if dec is None:
                return r
            m = zb(dec['user'] == PEER) if not isinstance(dec['user'], str) else dec['user'] == PEER
            return z_ite(m, bv(dec[name], bits), bv(r, bits)) if not isinstance(m, bool) else (dec[name] if m else r)
        clear, obf = field('port', 32), field('obf', 32)

        def ip_octets(v):
            return list(reversed(c11env.ip_terms(v)))
        if dec is None:
            octs = ip_octets(real['ip'])
        else:
            m = zb(dec['user'] == PEER) if not isinstance(dec['user'], str) else dec['user'] == PEER
            octs = [z_ite(m, codec._bv8(a), codec._bv8(b)) if not isinstance(m, bool) else (a if m else b)
                    for a, b in zip(ip_octets(dec['ip']), ip_octets(real['ip']))]
        ip_zero = z_and(*[w_eq(o, 0, 8) for o in octs])
        valid = z_and(z_not(ip_zero), z_or(w_nonzero(clear), w_nonzero(obf)))
        target_port, use_obf = ref_select(clear, obf, prefer)
        target_ip = octs
        # losing the server connection (in the race the ConnectToPeer write fails, which closes the server connection, before
        # the address has arrived) makes the address unobtainable
        address_arrives = not (mode == 'race' and indirect == 'send_fails')
    else:
        valid, address_arrives = True, True
        target_port, use_obf = given['port'], given['obfuscate']
        target_ip = list(reversed(c11env.ip_terms(given['ip'])))
    target_port32 = target_port if isinstance(target_port, int) else bv(target_port, 32)
    dir_ok = z_and(address_arrives, valid, port_usable(target_port32), direct in DIRECT_OK)

    def wire_ticket():
        """OUR ticket = the one the server was given in ConnectToPeer (bytes 8..11 of that frame, little endian); None when the
        server never got one.  A well-behaved peer / server echoes exactly this value."""
        if not S['ctp']:
            return None
        return c02env.le_value(terms(S['ctp'][0])[8:12])

    def matches_ours(ev):
        return True if ev.ticket is OURS else w_eq(ev.ticket, wire_ticket())

    def indirect_works():
        """reference fold over the scripted notices: the first notice that carries our ticket decides"""
        if wire_ticket() is None:
            return False
        ok, alive = False, True
        for ev in events:
            m = matches_ours(ev)
            if ev.kind == 'ppf':
                ok = z_or(ok, z_and(alive, m))
            alive = z_and(alive, z_not(m))
        return ok

    # ---- world ------------------------------------------------------------------------------------------------------
    world = World(c, loop, wr, mode, prefer)
    world.start()
    net = world.net
    net._ticket_generator = ticket_generator(initial=pos)      # the real generator, at an arbitrary position
    S = {'t_ctp': None, 'gpa': 0, 'ctp': [], 'cc_sent': []}

    tie_hops = 0
    if d_delay is None:
        # fallback mode runs the attempts one after the other: the alignment is irrelevant there
        span = [0] if mode == 'fallback' else (list(hops) if hops is not None else list(range(TIE_HOPS)))
        tie_hops = c.pick(span, 'tie_alignment') if len(span) > 1 else span[0]

    t_align = None
    if indirect == 'pierce_around_timeout':
        t_align = c.pick(list(talign) if talign is not None else TIMEOUT_ALIGN, 'timeout_alignment')

    def attempt_script(a):
        delay = d_delay
        if delay is None:       # 'tie' / 'tie_refused'
            delay = I_FAST - (GPA_REPLY if addr == 'server' else 0.0)
        return d_outcome, delay, tie_hops

    def writer_setup(a, w):
        if d_drain != 'ok':
            w.fault = lambda w_, d_: d_drain
    wr.script, wr.writer_setup = attempt_script, writer_setup

    def server_fault(w, data):
        return SERVER_FAULT.get(indirect, 'ok') if frame_code(data) == 18 else 'ok'

    def fire(ev):
        ev.fired_at = loop.time()
        ev.waiting = not task.done() and any(not f.done() for f in net._expected_connection_futures.values())
        if t_align == 'pre' and ev.waiting and loop.time() == S['t_ctp'] + ev.offset:
            c.reach('pierce_ready_ahead_of_the_timeout_callback')
        if pin:
            c.assume(matches_ours(ev))
        tk = wire_ticket() if ev.ticket is OURS else ev.ticket
        if ev.kind == 'cc':
            world.server_reader.feed_data(ref_frame('CannotConnect.Response', ticket=tk))
            return
        ev.reader, ev.writer, ev.task = world.incoming(ev.obf_port, peer=(f'7.7.7.{ev.j}', 7000 + ev.j))
        plain = ref_frame('PeerPierceFirewall.Request', ticket=tk)
        ev.reader.feed_data(ref_obfuscate(plain, terms(ev.key)) if ev.obf_port else plain)

    def address_reply(d):
        kw = {'username': d.get('user', PEER), 'ip': d['ip'], 'port': d['port']}
        if d['amount'] is not None:
            kw.update(obfuscated_port_amount=d['amount'], obfuscated_port=d['obf'])
        world.server_reader.feed_data(ref_frame('GetPeerAddress.Response', **kw))

    def server_got(w, data):
        if w._outcome != 'ok':
            return                      # the frame never reached the server
        code = frame_code(data)
        if code == 3:
            S['gpa'] += 1
            if addr == 'server':
                if dec is not None:
                    loop.call_later(GPA_DECOY, address_reply, dec)
                loop.call_later(GPA_REPLY, address_reply, real)
        elif code == 18:
            S['ctp'].append(data)
            if S['t_ctp'] is None:
                S['t_ctp'] = loop.time()
                for ev in events:
                    if t_align == 'pre':
                        loop.io_at(loop.time() + ev.offset, lambda ev=ev: fire(ev))
                    elif indirect == 'pierce_after_timeout' or t_align not in (None, 0):
                        # same virtual instant, but registered after the code under test has armed its own time-out (and, for
                        # alignment k, k - 1 further loop iterations behind)
                        hop = [8]
                        behind = [(t_align or 1) - 1]

                        def arrive(ev=ev):
                            if behind[0]:
                                behind[0] -= 1
                                loop.call_soon(arrive)
                            else:
                                fire(ev)

                        def later(ev=ev):
                            hop[0] -= 1
                            loop.call_soon(later) if hop[0] else loop.call_later(ev.offset, arrive)
                        loop.call_soon(later)
                    else:
                        loop.call_later(ev.offset, fire, ev)
        elif code == 1001:
            S['cc_sent'].append(data)
    world.server_writer.fault, world.server_writer.on_write = server_fault, server_got

    # ---- the request ------------------------------------------------------------------------------------------------
    n_tasks0 = len(world.tasks)
    if addr == 'server':
        coro = net.create_peer_connection(PEER, typ)
    else:
        coro = net.create_peer_connection(PEER, typ, ip=given['ip'], port=given['port'], obfuscate=given['obfuscate'])
    task = loop.spawn(coro, name='request')
    c.reach('request_started')

    st = {'steps': 0, 'idles': 0, 'cancelled_at': None, 'phase': None, 'observed': False, 'result': None, 'passed': False}

    def cancel_here(counter):
        """the cancellation point is a discriminant: one fork per loop step (or idle instant) inside the job's window"""
        if st['cancelled_at'] is not None or counter < k_lo:
            return False
        if counter >= k_hi:
            st['passed'] = True
            return False
        return c.choose(2, 'cancel_here') == 1

    def phase():
        a = wr.attempts[1:]
        if S['t_ctp'] is None and not S['ctp'] and mode == 'fallback':
            i_ph = 'not_started'
        elif not S['ctp']:
            i_ph = 'sending' if world.server_writer._hanging else 'not_started'
        else:
            i_ph = 'waiting' if len(net._expected_connection_futures) and not any(
                f.done() for f in net._expected_connection_futures.values()) else 'over'
        if not a:
            d_ph = 'getting_address' if any(f.message_class.__qualname__ == 'GetPeerAddress.Response'
                                            for f in net._expected_response_futures) else ('over' if S['gpa'] else 'not_started')
        elif a[0].t_end is None:
            d_ph = 'connecting'
        elif a[0].writer is not None and a[0].writer._hanging:
            d_ph = 'sending_init'
        else:
            d_ph = 'over'
        return [d_ph, i_ph]

    def inject():
        if task.done():
            return False
        st['phase'] = phase()
        st['cancelled_at'] = loop.time()
        loop.call(task.cancel)
        c.reach('cancel_injected')
        c.note('cancel injected', st['steps'], st['idles'], loop.time(), st['phase'])
        return True

    def survivors(returned):
        """only for a CANCELLED request: connections that were completely initialised and announced to the application
        (PeerInitializedEvent, requested=True) before the cancellation took effect and that are still open.  They are judged
        under their own label (see docs/C11.md: the application may already be using them); everything else under the
        ordinary ones."""
        if st['cancelled_at'] is None:
            return []
        return [cn for cn, req in world.inits if req and cn is not returned and cn in net.peer_connections
                and cn._writer is not None and not cn._writer.closed]

    def others_closed(returned):
        """every socket opened for this request except the returned connection's is closed, nothing else is registered"""
        keep = [returned] + survivors(returned) if returned is not None else survivors(returned)
        keep_w = [cn._writer for cn in keep]
        socks = [a.writer for a in wr.attempts[1:] if a.writer is not None] + [w for _, w, _ in world.accepted]
        open_socks = [w for w in socks if not w.closed and not any(w is k_ for k_ in keep_w)]
        registered = [x for x in net.peer_connections if not any(x is k_ for k_ in keep)]
        ok = not open_socks and not registered and (returned is None or net.peer_connections.count(returned) == 1)
        return ok, {'open_sockets': [w.role + str(w.info['peername'][1]) for w in open_socks],
                    'registered': [repr(x.state.name) + '/' + repr(x.connection_state.name) for x in registered]}

    def waiters():
        return len(net._expected_connection_futures), len(net._expected_response_futures)

    def running(returned):
        out = []
        for q, s, t in world.tasks[n_tasks0:]:
            if t is task or t.done():
                continue
            if q.endswith('_message_reader_loop') and (s is returned or any(s is x for x in survivors(returned))):
                continue
            out.append(q)
        return out

    def situation():
        """finite tag of how the request ended, for the signature of the leaves-nothing-behind obligations (the property does not
        depend on it; it only groups the failing scenarios by cause)"""
        if st['cancelled_at'] is not None:
            return [mode, 'cancelled_while'] + st['phase']
        returned = st['result'][0] if st['result'] else None
        if returned is None:
            how = 'raised' if task.done() else 'pending'
        else:
            how = 'returned_direct' if any(a.writer is returned._writer for a in wr.attempts[1:]) else 'returned_indirect'
        loser = phase()
        return [mode, how, 'direct_' + loser[0], 'indirect_' + (('send_' + SERVER_FAULT[indirect]) if indirect in SERVER_FAULT and
                                                              any(frame_code(d) == 18 for d in world.server_writer.written)
                                                              else loser[1])]

    def observe_return():
        st['observed'] = True
        c.reach('request_ended')
        if task.cancelled():
            returned, exc = None, asyncio.CancelledError()
        elif task.exception() is not None:
            returned, exc = None, task.exception()
        else:
            returned, exc = task.result(), None
        st['result'] = (returned, exc)
        csig = situation()
        info = {'t': loop.time(), 'outcome': 'returned' if exc is None else repr(exc)}
        if st['cancelled_at'] is None:
            # ---- clause 1: returns iff a path works, raises PeerConnectionError otherwise --------------------------
            if tie_free:
                works = z_or(dir_ok, indirect_works())
                c.check(works if exc is None else z_not(works), 'returns_iff_a_path_works', sig=sig, info=info)
            if exc is not None:
                c.check(isinstance(exc, PeerConnectionError), 'failure_is_peer_connection_error', sig=sig, info=info)
                c.reach('request_raised')
                # ("our ticket" is read from the ConnectToPeer bytes, so the reference cannot speak about an indirect attempt
                # that was never made: giving up without having asked the server is a failure of its own)
                c.check(any(frame_code(d) == 18 for d in world.server_writer.written), 'failed_request_has_tried_the_indirect_path',
                        sig=sig, info=info)
        else:
            c.check(exc is None or isinstance(exc, asyncio.CancelledError), 'cancelled_request_ends_cancelled', sig=csig, info=info)
        if returned is not None:
            c.reach('request_returned')
            out = [a for a in wr.attempts[1:] if a.writer is not None and a.writer is getattr(returned, '_writer', None)]
            inc = [ev for ev in events if ev.writer is not None and ev.writer is getattr(returned, '_writer', None)]
            c.check(isinstance(returned, PeerConnection) and len(out) + len(inc) == 1, 'returned_connection_is_an_attempt_of_this_request',
                    sig=sig)
            if out:
                c.reach('returned_direct')
                if st['cancelled_at'] is None:
                    c.check(dir_ok, 'returned_connection_is_a_working_path', sig=sig + ['direct'])
                came_obf = use_obf
            elif inc:
                c.reach('returned_indirect')
                if st['cancelled_at'] is None:
                    c.check(matches_ours(inc[0]), 'returned_connection_is_a_working_path', sig=sig + ['indirect'])
                came_obf = inc[0].obf_port
            else:
                came_obf = False
            exp_state = PeerConnectionState.NEGOTIATING_TRANSFER if typ == 'F' else PeerConnectionState.ESTABLISHED
            facts = {
                'state': returned.state == ConnectionState.CONNECTED,
                'connection_state': returned.connection_state == exp_state,
                'type': returned.connection_type == typ,
                'username': returned.username == PEER,
                'socket_open': returned._writer is not None and not returned._writer.closed and returned._reader is not None,
                'registered_once': net.peer_connections.count(returned) == 1,
                'reader': world.reader_alive(returned) == (typ != 'F'),
                'initialized_event': [r for cn, r in world.inits if cn is returned] == [True],
                'limiters': typ != 'F' or (returned.download_rate_limiter is net._download_rate_limiter
                                           and returned.upload_rate_limiter is net._upload_rate_limiter),
            }
            bad = [k_ for k_, v in facts.items() if v is not True]
            c.check(not bad, 'returned_connection_usable', sig=sig + [typ], info=bad)
            c.check(z_iff(bool(returned.obfuscated), z_and(typ == 'P', came_obf)), 'returned_connection_obfuscation', sig=sig + [typ])
        # ---- clause 2: nothing but the returned connection remains ------------------------------------------------
        ok, inf = others_closed(returned)
        r1 = c.check(ok, 'only_returned_connection_remains', sig=csig, info=inf)
        if st['cancelled_at'] is not None:
            sv = survivors(returned)
            kinds = sorted({'direct' if any(a.writer is cn._writer for a in wr.attempts[1:]) else 'indirect' for cn in sv})
            c.check(not sv, 'initialised_connection_outlives_cancelled_request', sig=[mode] + kinds,
                    info={'cancelled_while': st['phase'], 'connections': len(sv)})
        r2 = c.check(waiters() == (0, 0), 'no_waiter_left', sig=csig, info={'ticket_waiters': waiters()[0], 'response_waiters': waiters()[1]})
        r3 = c.check(not running(returned), 'no_attempt_left_running', sig=csig, info=running(returned))
        return r1 and r2 and r3

    # ---- drive ------------------------------------------------------------------------------------------------------
    def leftover():
        returned = st['result'][0] if st['result'] else None
        ok, inf = others_closed(returned if returned in net.peer_connections else None)
        if not ok or waiters() != (0, 0) or running(returned):
            return {**inf, 'waiters': waiters(), 'running': running(returned), 't': loop.time()}
        return None

    def all_fired():
        return S['t_ctp'] is None or all(ev.fired_at is not None for ev in events)

    while True:
        if cancel == 'step' and not task.done() and cancel_here(st['steps']):
            inject()
        if st['passed']:
            c.reach('cancel_window_passed')
            return
        if loop.step():
            st['steps'] += 1
            continue
        # nothing more is ready at this instant
        if cancel == 'idle' and not task.done() and cancel_here(st['idles']):
            st['idles'] += 1
            inject()
            continue
        if st['passed']:
            c.reach('cancel_window_passed')
            return
        st['idles'] += 1
        for ev in events:
            if ev.fired_at is not None and ev.after is None:
                ev.after = (task.done() or not any(not f.done() for f in net._expected_connection_futures.values()),
                            ev.writer.closed if ev.writer is not None else None)
        if task.done() and not st['observed']:
            if cancel and st['cancelled_at'] is None:
                c.reach('cancel_point_beyond_end')
                return
            st['clean_at_return'] = observe_return()
        elif st['cancelled_at'] is not None and not st['observed']:
            c.check(False, 'cancelled_request_ends_cancelled', sig=situation(),
                    info='request still pending when the loop went idle after the cancellation')
            st['observed'], st['clean_at_return'] = True, False
        elif st['observed'] and st.get('late') is None:
            st['late'] = leftover()
        if st['observed'] and all_fired():
            break
        if loop.tick(T_END) is None:
            break
    harness_errors(world, tap)

    # ---- the end: everything scripted has happened --------------------------------------------------------------------
    csig = situation()
    c.reach('scenario_end')
    c.note('loop steps', st['steps'], 'idle instants', st['idles'], 'end', loop.time())
    if not c.check(task.done(), 'request_terminates', sig=csig,
                   info={'direct_phase_indirect_phase': phase(), 'waiters': waiters(), 't': loop.time()}):
        return
    if st.get('clean_at_return'):
        # (when something was left behind at the return, what it turns into later is a consequence, not a new finding)
        c.check(st.get('late') is None, 'late_arrival_leaves_nothing', sig=csig, info=st.get('late'))
    died = world.dead_tasks(ignore=(task, 'Network._make_direct_connection', 'Network._make_indirect_connection'))
    what = ([q + ':' + e.split('(')[0] for q, e in died] + [type(x.get('exception')).__name__ for x in loop.errors]
            + [type(x).__name__ for x in tap.swallowed])[:1]
    c.check(not died and not loop.errors and not tap.swallowed, 'no_task_died', sig=[mode] + what,
            info=repr((died[:2], loop.errors[:1], tap.swallowed[:1])))

    if any(a.outcome == 'overflow' for a in wr.attempts[1:]):
        c.reach('port_beyond_65535_rejected')      # asyncio refused the arguments with OverflowError (not an OSError)
    # ---- what went over the wire -----------------------------------------------------------------------------------
    c.check(len(wr.attempts) <= 2 and len(S['ctp']) <= 1, 'one_attempt_of_each_kind', sig=sig,
            info={'direct': len(wr.attempts) - 1, 'connect_to_peer': len(S['ctp'])})
    for a in wr.attempts[1:2]:
        c.reach('direct_attempted')
        host_ok = z_and(*[w_eq(x, y, 8) for x, y in zip(list(reversed(c11env.ip_terms(a.host))), target_ip)])
        port_ok = w_eq(0 if a.port is None else a.port, target_port32)
        c.check(z_and(valid, host_ok, port_ok), 'direct_attempt_goes_to_selected_address', sig=sig + [addr])
        for data in (a.writer.written[:1] if a.writer is not None else []):
            c.reach('peer_init_sent')
            plain = ref_frame('PeerInit.Request', username=ME, typ=typ, ticket=0)
            n = len(terms(data))
            wire_obf = n == len(plain) + 4
            body = ref_plain(terms(data), True) if wire_obf else terms(data)
            # (the ticket field of PeerInit is free: the protocol gives it no meaning on a direct connection)
            c.check(z_and(n in (len(plain), len(plain) + 4), z_iff(wire_obf, use_obf), bytes_equal(body[:-4], plain[:-4])),
                    'peer_init_carries_name_and_type', sig=sig + [addr])
    for data in S['ctp'][:1]:
        c.reach('connect_to_peer_sent')
        ref = ref_frame('ConnectToPeer.Request', ticket=0, username=PEER, typ=typ)
        got = list(terms(data))
        c.check(z_and(len(got) == len(ref), bytes_equal(got[:8], ref[:8]), bytes_equal(got[12:], ref[12:])),
                'connect_to_peer_carries_name_and_type', sig=sig)
    c.check(not S['cc_sent'], 'no_cannot_connect_report_for_own_request', sig=sig)
    # ---- notices that were not for us (the converse direction is part of returns_iff_a_path_works) --------------------
    for ev in events:
        if ev.ticket is OURS or not ev.waiting or ev.after is None or ev.after[0] or pin:
            continue        # (only notices that arrived while we were waiting and after which we went on waiting)
        if ev.kind == 'ppf' and ev.after[1]:
            c.reach('foreign_pierce_firewall_turned_away')
            c.check(z_not(matches_ours(ev)), 'pierce_firewall_turned_away_only_with_foreign_ticket', sig=sig)
        elif ev.kind == 'cc':
            c.reach('foreign_cannot_connect_ignored')
            c.check(z_not(matches_ours(ev)), 'cannot_connect_ignored_only_with_foreign_ticket', sig=sig)


# ----------------------------------------------------------------------------------------------------------------------
# H2: a peer asks us (through the server) to connect back
# ----------------------------------------------------------------------------------------------------------------------

BACK = {
    # outcome of the TCP attempt, delay, drain of the PeerPierceFirewall write
    'ok': ('ok', D_FAST, 'ok'), 'ok_slow': ('ok', D_SLOW, 'ok'), 'refused': ('refused', D_FAST, 'ok'), 'hang': ('hang', 0, 'ok'),
    'pierce_send_fails': ('ok', D_FAST, 'error'), 'pierce_send_hangs': ('ok', D_FAST, 'hang'),
}


PRE_USER, PRE_TYPE = 'ab', 'P'
PRE_STATES = ('none', 'same_user_same_type', 'same_user_other_type', 'other_user_same_type')


def h_connect_back(c, outcome, shape='full', pre='none', via='accepted'):
    loop = SLoop()
    try:
        with environment(c, loop) as (g, wr, tap):
            _connect_back(c, loop, g, wr, tap, outcome, shape, pre, via)
    finally:
        loop.cleanup()


def _connect_back(c, loop, g, wr, tap, outcome, shape, pre, via):
    sig = [outcome, shape] + ([pre, via] if pre != 'none' else [])
    o_kind, o_delay, o_drain = BACK[outcome]
    prefer = bool(c.fresh_bool('prefer_obfuscated'))
    m = {'username': g.text('ctp.username', 2), 'typ': g.text('ctp.typ', 1), 'ip': g.ip('ctp.ip'), 'port': g.word('ctp.port', 32),
         'ticket': g.word('ctp.ticket', 32), 'privileged': g.boolean('ctp.privileged')}
    if shape == 'full':
        m.update(obfuscated_port_amount=g.word('ctp.obfuscated_port_amount', 32), obfuscated_port=g.word('ctp.obfuscated_port', 32))
    g.commit()
    # pre-state: we already hold an ESTABLISHED connection (PRE_USER, PRE_TYPE); how the symbolic user / type of the new request
    # relate to it is the discriminant.  The ticket (and everything else) of the request is independent of that connection.
    if pre == 'same_user_same_type':
        c.assume(m['username'] == PRE_USER)
        c.assume(m['typ'] == PRE_TYPE)
    elif pre == 'same_user_other_type':
        c.assume(m['username'] == PRE_USER)
        c.assume(m['typ'] != PRE_TYPE)
    elif pre == 'other_user_same_type':
        c.assume(m['username'] != PRE_USER)
        c.assume(m['typ'] == PRE_TYPE)
    obf = m.get('obfuscated_port', 0)
    target_port, use_obf = ref_select(m['port'], obf, prefer)
    target_port32 = target_port if isinstance(target_port, int) else bv(target_port, 32)
    can_connect = z_and(port_usable(target_port32), o_kind == 'ok', o_drain == 'ok')

    world = World(c, loop, wr, 'fallback' if via == 'requested' else 'race', prefer)
    world.start()
    net = world.net
    earlier = None
    if pre != 'none':
        # built through the real code: either a peer connected to us and sent PeerInit (accept -> on_peer_accepted), or we opened
        # it ourselves with a completed create_peer_connection (direct attempt, address given by the caller)
        if via == 'accepted':
            r0, w0, _ = world.incoming(False, peer=('6.6.6.6', 6000))
            r0.feed_data(ref_frame('PeerInit.Request', username=PRE_USER, typ=PRE_TYPE, ticket=0))
            loop.run_ready()
            earlier = world.conn_of(r0)
        else:
            wr.script = lambda a: ('ok', 0)
            earlier = loop.run_until_complete(net.create_peer_connection(PRE_USER, PRE_TYPE, ip='6.6.6.6', port=6000))
            loop.run_ready()
        pre_ok = (earlier is not None and net.peer_connections == [earlier] and earlier.state == ConnectionState.CONNECTED
                  and earlier.connection_state == PeerConnectionState.ESTABLISHED and earlier.username == PRE_USER
                  and earlier.connection_type == PRE_TYPE and world.reader_alive(earlier)
                  and net.get_active_peer_connections(PRE_USER, PRE_TYPE) == [earlier])
        if not c.check(pre_ok, 'earlier_connection_established', sig=sig):
            return
        c.reach('earlier_connection_' + pre)
    n_att0, n_srv0, n_init0 = len(wr.attempts), len(world.server_writer.written), len(world.inits)
    w_earlier = earlier._writer if earlier is not None else None
    n_w0 = len(w_earlier.written) if w_earlier is not None else 0

    def attempt_script(a):
        return o_kind, o_delay

    def writer_setup(a, w):
        if o_drain != 'ok':
            w.fault = lambda w_, d_: o_drain
    wr.script, wr.writer_setup = attempt_script, writer_setup
    n_tasks0 = len(world.tasks)
    world.server_reader.feed_data(ref_frame('ConnectToPeer.Response', **m))
    while loop.tick(40.0) is not None:
        pass
    harness_errors(world, tap)
    c.reach('connect_back_end')
    if earlier is not None:
        c.check(net.peer_connections.count(earlier) == 1 and earlier.state == ConnectionState.CONNECTED
                and earlier.connection_state == PeerConnectionState.ESTABLISHED and not w_earlier.closed and world.reader_alive(earlier)
                and len(w_earlier.written) == n_w0, 'earlier_connection_left_alone', sig=sig,
                info={'state': earlier.state.name, 'registered': net.peer_connections.count(earlier), 'written': len(w_earlier.written) - n_w0})
    attempts = wr.attempts[n_att0:]
    if any(a.outcome == 'overflow' for a in attempts):
        c.reach('port_beyond_65535_rejected')
    if not c.check(len(attempts) == 1, 'connect_back_attempted_once', sig=sig, info=len(attempts)):
        if not attempts:
            # nothing was attempted: then the peer got no pierce-firewall message, so the server must have been told
            n_rep = len([d for d in world.server_writer.written[n_srv0:] if frame_code(d) == 1001])
            c.reach('connect_back_judged')
            c.check(z_and(z_not(can_connect), n_rep == 1), 'peer_gets_pierce_firewall_or_server_gets_cannot_connect', sig=sig,
                    info={'pierce_frames': 0, 'cannot_connect_reports': n_rep})
        return
    a = attempts[0]
    host_ok = z_and(*[w_eq(x, y, 8) for x, y in zip(c11env.ip_terms(a.host), c11env.ip_terms(m['ip']))])
    c.check(z_and(host_ok, w_eq(0 if a.port is None else a.port, target_port32)), 'connect_back_goes_to_selected_address', sig=sig)
    # exactly one of: pierce-firewall message to the peer / cannot-connect report to the server
    reports = [d for d in world.server_writer.written[n_srv0:] if frame_code(d) == 1001]
    others = [d for d in world.server_writer.written[n_srv0:] if frame_code(d) != 1001]
    delivered = [d for d in (a.writer.written if a.writer is not None else []) if o_drain == 'ok']
    c.check(not others, 'connect_back_sends_nothing_else', sig=sig)
    c.reach('connect_back_judged')
    c.check(z_and(can_connect if delivered else z_not(can_connect), len(delivered) + len(reports) == 1),
            'peer_gets_pierce_firewall_or_server_gets_cannot_connect', sig=sig,
            info={'pierce_frames': len(delivered), 'cannot_connect_reports': len(reports)})
    conns = [cn for cn in net.peer_connections if cn is not earlier]
    if delivered:
        c.reach('pierced')
        plain = ref_frame('PeerPierceFirewall.Request', ticket=m['ticket'])
        data = delivered[0]
        n = len(terms(data))
        wire_obf = n == len(plain) + 4
        body = ref_plain(terms(data), True) if wire_obf else terms(data)
        c.check(z_and(n in (len(plain), len(plain) + 4), z_iff(wire_obf, use_obf), bytes_equal(body, plain)),
                'pierce_firewall_echoes_ticket', sig=sig)
        ok = len(conns) == 1 and conns[0]._writer is a.writer and not a.writer.closed
        c.check(ok, 'connect_back_connection_registered', sig=sig)
        if ok:
            cn = conns[0]
            is_f, is_p = zb(m['typ'] == 'F'), zb(m['typ'] == 'P')
            exp_neg = cn.connection_state == PeerConnectionState.NEGOTIATING_TRANSFER
            facts = z_and(cn.state == ConnectionState.CONNECTED, zb(cn.username == m['username']), zb(cn.connection_type == m['typ']),
                          z_iff(exp_neg, is_f), exp_neg or cn.connection_state == PeerConnectionState.ESTABLISHED,
                          z_iff(world.reader_alive(cn), z_not(is_f)), z_iff(bool(cn.obfuscated), z_and(is_p, use_obf)),
                          [r for x, r in world.inits if x is cn] == [False])
            c.check(facts, 'connect_back_connection_usable', sig=sig)
    else:
        c.reach('reported')
        if reports:
            c.check(bytes_equal(reports[0], ref_frame('CannotConnect.Request', ticket=m['ticket'], username=m['username'])),
                    'cannot_connect_echoes_ticket_and_name', sig=sig)
        c.check(not conns and (a.writer is None or a.writer.closed) and not world.inits[n_init0:], 'failed_connect_back_leaves_nothing', sig=sig,
                info={'registered': len(conns), 'socket_open': a.writer is not None and not a.writer.closed})
    left = [q for q, s, t in world.tasks[n_tasks0:] if not t.done() and not (q.endswith('_message_reader_loop') and s in conns)]
    c.check(not net._create_peer_connection_tasks and not left and waiters_of(net) == (0, 0), 'connect_back_leaves_no_task', sig=sig,
            info=left)
    died = world.dead_tasks(ignore=('Network._handle_connect_to_peer',))
    c.check(not died and not loop.errors and not tap.swallowed, 'no_task_died', sig=sig, info=repr((died[:2], loop.errors[:1], tap.swallowed[:1])))


def waiters_of(net):
    return len(net._expected_connection_futures), len(net._expected_response_futures)


# ----------------------------------------------------------------------------------------------------------------------
# H3: select_port on its own (all port pairs, both preferences)
# ----------------------------------------------------------------------------------------------------------------------

def h_select_port(c):
    import types
    prefer = bool(c.fresh_bool('prefer_obfuscated'))
    g = codec.Gen(c)
    clear, obf = g.word('clear_port', 32), g.word('obfuscated_port', 32)
    net = types.SimpleNamespace(_settings=types.SimpleNamespace(network=types.SimpleNamespace(peer=types.SimpleNamespace(obfuscate=prefer))))
    c.reach('select_port_called')
    try:
        port, flag = Network.select_port(net, clear, obf)
    except Exception as e:  # noqa
        # the callers use the result outside any try block (connect-back: before CannotConnect can be reported)
        c.check(False, 'select_port_returns_a_choice', sig=[type(e).__name__], info=repr(e))
        return
    c.check(True, 'select_port_returns_a_choice')
    c.reach('selected')
    ref_port, ref_flag = ref_select(clear, obf, prefer)
    either = z_or(w_nonzero(clear), w_nonzero(obf))
    c.check(z_or(z_not(either), z_and(w_eq(port, ref_port if isinstance(ref_port, int) else bv(ref_port, 32)), z_iff(bool(flag), ref_flag))),
            'select_port_matches_reference')
    c.check(z_or(z_not(either), w_nonzero(port)), 'select_port_picks_an_available_port')
    # the flag says which of the two ports it is (when they differ)
    c.check(z_or(z_not(either), w_eq(clear, obf), z_iff(bool(flag), w_eq(port, obf))), 'select_port_flag_says_which_port')


# ----------------------------------------------------------------------------------------------------------------------
# META / jobs / prelude
# ----------------------------------------------------------------------------------------------------------------------

META = {
    'level': 'other',
    'technique': 'MIXED (stated honestly, see docs/C11.md): symbolic execution of the real connect code on z3 proxies for the DATA - '
                 'tickets, peer address, ports, names, connection type on the wire, obfuscation keys flow through the real codec, the '
                 'real waiter tables and select_port; every obligation is a z3 validity query over all their values on the path - '
                 'combined with ENUMERATION, on a deterministic virtual-time loop, of how and when each I/O attempt ends, of the order '
                 'of the two attempts and of the step at which the request is cancelled',
    'explanation': 'Real Network (real constructor, Settings, EventBus) with real Server/Listening/PeerConnection objects over byte-accurate '
                   'fake streams.  create_peer_connection runs in FALLBACK and RACE mode against a simulated server and peer that react '
                   'to the bytes they receive: GetPeerAddress is answered with a symbolic address (optionally preceded by an answer for a '
                   'symbolic other user), ConnectToPeer triggers a scripted sequence of PeerPierceFirewall connections / CannotConnect '
                   'notices whose tickets are symbolic 32-bit values or an echo of the ticket the server was given.  A short reference '
                   '(address valid & selected port usable & TCP/PeerInit outcome ok) OR (first scripted notice with our ticket is a pierce) '
                   'decides whether a path works; z3 decides on every path that the request returned iff that holds, that the returned '
                   'connection is one of the working paths, and byte-level facts about what the peer and the server saw.  At the '
                   'return (after the callbacks scheduled for that instant) and after every later scripted arrival nothing but the '
                   'returned connection may be registered / open, no ticket or CannotConnect waiter and no attempt task may be left.  '
                   'The second harness feeds a fully symbolic ConnectToPeer request and checks the connect-back (selected port, '
                   'PeerPierceFirewall echoing the ticket XOR CannotConnect(ticket, user) to the server).  The ordering / cancellation '
                   'part of the verdict is bounded-exhaustive enumeration of schedules on the real code, not a solver result; all '
                   'findings so far are in that part.',
    'functions': [Network.create_peer_connection, Network._create_peer_connection_fallback, Network._create_peer_connection_race,
                  Network._make_direct_connection, Network._get_peer_address, Network.select_port, Network._make_indirect_connection,
                  Network._remove_connection_future, Network._remove_response_future, Network.create_server_response_future,
                  Network.on_peer_accepted, Network._on_connect_to_peer, Network._handle_connect_to_peer,
                  Network._handle_connect_to_peer_callback, Network._finalize_peer_connection, Network.on_message_received,
                  Network.on_state_changed, Network.remove_peer_connection, N.ExpectedResponse.matches, DataConnection.connect,
                  DataConnection.disconnect, DataConnection.send_message, DataConnection._send, DataConnection.receive_message_object,
                  DataConnection._read, DataConnection._read_message, PeerConnection.set_connection_state, ListeningConnection.accept,
                  ticket_generator],
    'stubs': c11env.STUBS + codec.STUBS + [
        'aioslsk.network.connection.adapter (module-level logger adapter) -> recorder of the exceptions the code logs and swallows '
        '(otherwise inert, like disabled logging)',
        'Network._ticket_generator -> a fresh instance of the real aioslsk.utils.ticket_generator started at a symbolic position '
        '(so that the request ticket is an arbitrary value 1..2^32-1)',
        'simulated server / peer (harness): answers GetPeerAddress after 0.25 s, reacts to ConnectToPeer with the scripted notices; frames '
        'are built by reference encoders from spec/wire_layout.json, never by aioslsk classes'],
    'data_variables': [
        'request ticket (ticket generator position, 32 bit)', 'ticket of every scripted PeerPierceFirewall / CannotConnect notice (32 bit)',
        'GetPeerAddress answer: ip (4 octets), clear port (uint32), obfuscated port amount, obfuscated port (uint16); user name of the '
        'preceding foreign answer (2 UTF-8 bytes) and its address', 'caller-supplied ip / port (32 bit: e.g. the uint32 port of a PotentialParents entry)', 'obfuscation keys (4 bytes per frame)',
        'ConnectToPeer request from the server: user name (2 bytes), type (1 byte), ip, port, ticket, privileged, obfuscated port amount / port',
        'select_port: both ports (32 bit)'],
    'discriminants': [
        'connect mode (fallback / race)', 'direct attempt: connected fast / slowly / connected or refused in the instant of the indirect event, '
        '0..11 loop iterations into that instant (tie_alignment: direct first, indirect first, both finished in one wake-up of the race) / refused fast / slowly / '
        'no answer until the time-out / PeerInit write error / PeerInit write hangs', 'indirect attempt: pierce fast / slowly, CannotConnect '
        'fast (then pierce) / slowly, silence, ConnectToPeer write error / hangs, stranger then pierce, pierce then CannotConnect, pierce in '
        'the instant of the time-out (before / after its handling; pierce_around_timeout: alignment pre = ready ahead of the time-out '
        'callback, 0 = right behind it, 1..8 loop iterations behind it)', 'listening port (clear / obfuscated) of every incoming connection',
        'connection type P / F / D', 'address given by the caller or fetched from the server; answer with or without the optional '
        'obfuscated-port fields; with or without a preceding foreign answer', 'obfuscation preference and caller obfuscate flag (booleans)',
        'cancellation: none / at each idle instant / before each loop step (one fork per step)',
        'connect-back: TCP ok fast / slowly / refused / hangs / pierce write error / hangs; pre-state: no connection / an ESTABLISHED '
        'connection to the same user with the same type / same user other type / other user same type, built by the real accept path '
        '(PeerInit) or by a completed create_peer_connection (the relation is imposed on the symbolic user / type of the request by '
        'assumptions; its ticket stays independent)'],
    'bounds': {
        'quick': {'direct outcomes': '5 (+ 3 race jobs with the tie outcomes, all 12 alignments)', 'indirect outcomes': 6, 'both modes': True, 'caller-given address grid': 'all 60 pairs, type rotating',
                  'server-address grid': '3 x 4 pairs x 2 modes, foreign answer alternating', 'cancellation': 'every idle instant on all 60 pairs; '
                  'every loop step on 3 x 2 pairs x 2 modes (<= 48 steps; the longest scenario has 26)',
                  'text leaves': 'user names 2 bytes, type 1 byte', 'virtual horizon': '180 s'},
        'thorough': {'direct outcomes': '9 (tie alignments: 12 on the caller-given grid, 4 on the server grid, 2 on the cancellation grids)', 'indirect outcomes': 11, 'both modes': True, 'caller-given address grid': 'all pairs x 3 types',
                     'server-address grid': 'all pairs x {with, without foreign answer}', 'cancellation': 'every idle instant on all pairs; every '
                     'loop step on all pairs x {given, server address}', 'text leaves': 'user names 2 bytes, type 1 byte', 'virtual horizon': '180 s'}},
    'outside': [
        'relative timing other than the enumerated classes (delays are fixed representatives: 1 / 8 s direct, 2 / 30 s indirect, derived from the '
        'code\'s two time-outs); more than two scripted notices per request; several concurrent requests (ticket collisions between requests)',
        'a GetPeerAddress answer that never comes while the server connection stays up (not in the property\'s fault list); write errors on '
        'GetPeerAddress itself', 'CannotConnect and pierce-firewall for our ticket handled in the same loop iteration (`done.pop()` on a two-element '
        'set: outcome depends on object addresses - observed by reading, not enumerable deterministically)',
        'listeners of PeerInitializedEvent that suspend (cancellation inside the event emission)', 'second cancellation during clean-up',
        'real sockets / OS behaviour (half-open connections, RST timing); the fake transport delivers EOF to the reader on close',
        'ip overrides (debug setting) other than the empty table', 'get_peer_connection / send_peer_messages (connection re-use)',
        'what the ticket in PeerInit is (free by protocol)', 'the ordering clause is decided by enumeration, see technique'],
    'assumptions': ['asyncio Task / Future / wait / gather semantics of CPython 3.12', 'async_timeout == asyncio.timeout semantics',
                    'a peer / the server echo the ticket of the ConnectToPeer request they were given (that value, read back from the bytes on '
                    'the wire, is what "our ticket" means in the reference)',
                    'observation point of "when it returns or raises": after the callbacks already scheduled for that virtual instant have run '
                    '(done-callbacks that unregister cancelled waiters run one loop iteration later by construction of asyncio)'],
}

QD = ['fast', 'slow', 'refused', 'hang', 'init_fail']
QI = ['pierce_fast', 'pierce_slow', 'cannot_fast', 'cannot_slow', 'silence', 'send_fails']
PIERCING = ('pierce_fast', 'pierce_slow', 'cannot_fast', 'stranger_then_pierce', 'pierce_then_cannot')


def _requires(mode, d, i, addr):
    """vacuity guard: what this scenario must have exercised"""
    req = ['request_started', 'scenario_end', 'direct_attempted'] + (['port_beyond_65535_rejected'] if addr == 'given' else [])
    hangs = (mode, i, addr) == ('race', 'send_fails', 'server')      # (unrepaired tree: the request never ends there)
    if d == 'tie' or i in TIES:
        # deliberate ties: either outcome is fine
        return req + ([] if hangs else ['request_ended']) + (
            ['pierce_ready_ahead_of_the_timeout_callback'] if i == 'pierce_around_timeout' and d not in DIRECT_OK and not hangs else [])
    if d == 'tie_refused':
        return req + ['request_ended'] + (['returned_indirect'] if i in PIERCING and not hangs else [])
    if not hangs:
        req.append('request_ended')
    if d in DIRECT_OK and not hangs:
        req += ['returned_direct', 'peer_init_sent']
    if i in PIERCING and (d not in DIRECT_OK or addr == 'given' or mode == 'race'):
        req += ['returned_indirect', 'connect_to_peer_sent'] if (d not in DIRECT_OK or (mode == 'race' and d == 'slow' and i in (
            'pierce_fast', 'stranger_then_pierce', 'pierce_then_cannot'))) else []
    if d not in DIRECT_OK and (i not in PIERCING or i in ('pierce_fast', 'pierce_slow', 'cannot_fast', 'pierce_then_cannot')) and not hangs:
        req.append('request_raised')
    if i in ('pierce_fast', 'pierce_slow', 'stranger_then_pierce', 'pierce_then_cannot') and d not in DIRECT_OK:
        req.append('foreign_pierce_firewall_turned_away')
    if i in ('cannot_fast',) and d not in DIRECT_OK:
        req.append('foreign_cannot_connect_ignored')
    return req


def jobs(tier):
    out = []
    q = tier == 'quick'

    def job(h, fn, req, **p):
        out.append({'harness': h, 'fn': fn, 'params': p, 'requires': req})

    def few(d, span=(0, 1, 2, 3), i=None, tspan=('pre', 0, 1, 2)):
        # the full range of tie / time-out alignments is explored in grid (1); the other grids use the ones around the hand-over
        out = {'hops': list(span)} if d in ('tie', 'tie_refused') else {}
        if i == 'pierce_around_timeout':
            out['talign'] = list(tspan)
        return out
    job('select_port', h_select_port, ['select_port_called', 'selected'])
    for o in BACK:
        for shape in ('full', 'short'):
            job('connect_back', h_connect_back, ['connect_back_end', 'reported', 'port_beyond_65535_rejected'] + (
                ['pierced'] if o in ('ok', 'ok_slow') else []),
                outcome=o, shape=shape)
    # ... while we already hold an ESTABLISHED connection to that user / of that type (accepted earlier, or opened by a request)
    for pre in PRE_STATES[1:]:
        for via in ('accepted', 'requested'):
            for o in (('ok', 'refused') if q else BACK):
                for shape in (('full',) if q else ('full', 'short')):
                    if q and via == 'requested' and (pre, o) != ('same_user_same_type', 'ok'):
                        continue
                    # (pierced / reported are required of the jobs without pre-state; here the guard is that the pre-state was built
                    # and the pierce-or-report obligation was evaluated)
                    job('connect_back', h_connect_back, ['connect_back_end', 'connect_back_judged', 'earlier_connection_' + pre],
                        outcome=o, shape=shape, pre=pre, via=via)
    directs = QD + ([] if q else ['tie', 'tie_refused', 'refused_slow', 'init_hang'])
    indirects = QI + ([] if q else ['send_hangs', 'stranger_then_pierce', 'pierce_then_cannot', 'pierce_at_timeout', 'pierce_after_timeout',
                                    'pierce_around_timeout'])
    typs = ['P', 'F', 'D']
    n = 0
    # (1) every outcome pair in both modes, address given by the caller (symbolic ip / port / obfuscate flag)
    for mode in ('fallback', 'race'):
        for d in directs:
            for i in indirects:
                for typ in ([typs[n % 3]] if q else typs):
                    job('connect', h_connect, _requires(mode, d, i, 'given'), mode=mode, direct=d, indirect=i, addr='given', typ=typ)
                n += 1
    if q:
        for mode in ('fallback', 'race'):
            job('connect', h_connect, _requires(mode, 'refused', 'pierce_after_timeout', 'given'), mode=mode, direct='refused',
                indirect='pierce_after_timeout', addr='given', typ='P')
            # the pierce arrives in the instant of the indirect time-out, every alignment (ready ahead of the time-out callback ..
            # 8 loop iterations behind it); either outcome is fine there, an error WITH a connection left is not
            for d, typ in (('refused', 'D'), ('init_fail', 'F')):
                job('connect', h_connect, _requires(mode, d, 'pierce_around_timeout', 'given'), mode=mode, direct=d,
                    indirect='pierce_around_timeout', addr='given', typ=typ)
        # both attempts end in one instant of the race, every alignment of the two within that instant (direct first, indirect
        # first, both finished in ONE wake-up of the race): two successes; success + CannotConnect; refusal + pierce
        for d, i, typ in (('tie', 'pierce_fast', 'P'), ('tie', 'cannot_fast', 'F'), ('tie_refused', 'pierce_fast', 'D')):
            job('connect', h_connect, _requires('race', d, i, 'given') + (['returned_indirect', 'returned_direct'] if d == 'tie' else []),
                mode='race', direct=d, indirect=i, addr='given', typ=typ)
    # (2) address from the server (symbolic GetPeerAddress answer, optionally preceded by an answer for a symbolic other user)
    sd = ['fast', 'refused', 'hang'] if q else directs
    si = ['pierce_fast', 'cannot_fast', 'silence', 'send_fails'] if q else indirects
    for mode in ('fallback', 'race'):
        for d in sd:
            for i in si:
                for decoy in ([bool(n % 2)] if q else [False, True]):
                    job('connect', h_connect, [r for r in _requires(mode, d, i, 'server') if r != 'direct_attempted' or i != 'send_fails' or mode != 'race']
                        + ([] if (mode, i) == ('race', 'send_fails') else ['port_beyond_65535_rejected']),
                        mode=mode, direct=d, indirect=i, addr='server', typ=typs[n % 3], decoy=decoy, **few(d, i=i))
                n += 1
    # (3) cancellation of the request: at every instant at which the loop goes idle ...
    creq = ['request_started', 'cancel_injected', 'scenario_end']
    cindirects = [i for i in indirects if i != 'pierce_around_timeout']     # (pierce_at / pierce_after_timeout stay in these grids)
    for mode in ('fallback', 'race'):
        for d in directs:
            for i in cindirects:
                job('connect', h_connect, creq, mode=mode, direct=d, indirect=i, addr='given', typ=typs[n % 3], cancel='idle', k_lo=0, k_hi=16,
                    pin=True, **few(d, (1, 2), i, ('pre', 0, 1)))
                n += 1
    # ... and before every single loop step
    cd = ['fast', 'hang', 'init_hang'] if q else [d for d in directs if d != 'tie_refused']
    ci = ['pierce_fast', 'silence'] if q else cindirects
    for mode in ('fallback', 'race'):
        for d in cd:
            for i in ci:
                for a in (['given'] if q else ['given', 'server']):
                    job('connect', h_connect, creq, mode=mode, direct=d, indirect=i, addr=a, typ=typs[n % 3], cancel='step', k_lo=0,
                        k_hi=48, pin=True, **few(d, (1, 2), i, ('pre', 0, 1)))
                n += 1
    return out


def prelude(tier):
    notes = list(codec.validate(deep=False) or [])
    # ---- scenario times keep their meaning -------------------------------------------------------------------------------
    order = [0, GPA_DECOY, GPA_REPLY, GPA_REPLY + D_FAST, I_FAST, D_SLOW, GPA_REPLY + D_SLOW, CONNECT_TIMEOUT, CONNECT_TIMEOUT + GPA_REPLY + 10,
             I_SLOW, INDIRECT_TIMEOUT, T_END]
    if any(a >= b for a, b in zip(order, order[1:])):
        raise symex.HarnessError(f'scenario times are not ordered any more (time-outs of the code changed?): {order}')
    notes.append(f'scenario times derived from PEER_CONNECT_TIMEOUT={CONNECT_TIMEOUT} / PEER_INDIRECT_CONNECT_TIMEOUT={INDIRECT_TIMEOUT}: '
                 f'address {GPA_REPLY}, direct {D_FAST}/{D_SLOW}, indirect {I_FAST}/{I_SLOW}')
    # ---- the fake open_connection treats its arguments like the real one ---------------------------------------------------------
    async def real(port):
        try:
            _, w = await asyncio.wait_for(asyncio.open_connection('127.0.0.1', port), 5)
            w.close()
            return 'connected'
        except OSError:
            return 'OSError'
        except Exception as e:  # noqa
            return type(e).__name__

    async def fake(port):
        lp = asyncio.get_running_loop()
        wr_ = c11env.Wire(False, lp)
        wr_.script = lambda a: ('refused', 0)
        try:
            await wr_.open_connection('127.0.0.1', port)
            return 'connected'
        except OSError:
            return 'OSError'
        except Exception as e:  # noqa
            return type(e).__name__
    for port in (65536, 67770, 2 ** 32 - 1, 0, 1, 65535):
        r, f = asyncio.run(real(port)), asyncio.run(fake(port))
        if f != r and not (f == 'OSError' and r == 'connected'):
            raise symex.HarnessError(f'fake open_connection disagrees with asyncio.open_connection on port {port}: fake={f} real={r}')
    notes.append('fake open_connection == real asyncio.open_connection on ports 65536, 67770, 2^32-1 (OverflowError, not an OSError) and 0, 1, '
                 '65535 (OSError when nothing listens)')
    # ---- reference encoders == the real codec on concrete values ---------------------------------------------------------------
    import aioslsk.protocol.messages as M
    cases = [
        ('PeerInit.Request', dict(username='me', typ='P', ticket=0xDEADBEEF)),
        ('PeerPierceFirewall.Request', dict(ticket=4294967295)),
        ('ConnectToPeer.Request', dict(ticket=77, username='pé', typ='F')),
        ('ConnectToPeer.Response', dict(username='ab', typ='D', ip='1.2.3.4', port=2234, ticket=5, privileged=True)),
        ('ConnectToPeer.Response', dict(username='ab', typ='P', ip='10.0.0.255', port=0, ticket=0, privileged=False, obfuscated_port_amount=1,
                                        obfuscated_port=2235)),
        ('CannotConnect.Request', dict(ticket=12345, username='xy')),
        ('CannotConnect.Response', dict(ticket=1)),
        ('GetPeerAddress.Request', dict(username='pe')),
        ('GetPeerAddress.Response', dict(username='pe', ip='0.0.0.0', port=0)),
        ('GetPeerAddress.Response', dict(username='pe', ip='192.168.1.7', port=65536, obfuscated_port_amount=1, obfuscated_port=65535)),
    ]
    for name, kw in cases:
        a, b = name.split('.')
        real = getattr(getattr(M, a), b)(**kw).serialize()
        if bytes(ref_frame(name, **kw)) != real:
            raise symex.HarnessError(f'reference encoder disagrees with the real codec on {name} {kw}')
    notes.append(f'reference encoders == real serialize() on {len(cases)} concrete messages')
    # ---- SymMap == dict on concrete keys ---------------------------------------------------------------------------------------
    import random
    rnd = random.Random(11)
    d, m = {}, SymMap()
    for _ in range(400):
        k, op = rnd.randrange(6), rnd.randrange(7)
        if op == 0:
            d[k] = m[k] = rnd.random()
        elif op == 1:
            ra = d.pop(k, None), m.pop(k, None)
            if ra[0] != ra[1]:
                raise symex.HarnessError('SymMap.pop')
        elif op == 2 and (d.get(k) != m.get(k) or (k in d) != (k in m)):
            raise symex.HarnessError('SymMap.get/contains')
        elif op == 3:
            try:
                x = d[k]
            except KeyError:
                x = KeyError
            try:
                y = m[k]
            except KeyError:
                y = KeyError
            if x != y:
                raise symex.HarnessError('SymMap.getitem')
        elif op == 4 and k in d:
            del d[k]
            del m[k]
        if list(d) != list(m) or len(d) != len(m) or list(d.items()) != m.items() or bool(d) != bool(m) or list(d.values()) != m.values():
            raise symex.HarnessError('SymMap order/len')
    notes.append('SymMap == dict on 400 random concrete operations (insertion order, pop, get, del, contains, len)')
    # ---- reference keystream == real obfuscation ----------------------------------------------------------------------------------
    import aioslsk.protocol.obfuscation as O
    for plain in (b'', b'\x05\x00\x00\x00\x00\x01\x02\x03\x04', bytes(range(40))):
        enc = O.encode(plain)
        if bytes(ref_plain(list(enc), True)) != plain or bytes(ref_obfuscate(list(plain), list(enc[:4]))) != enc:
            raise symex.HarnessError('reference keystream disagrees with aioslsk.protocol.obfuscation')
    notes.append('reference keystream == obfuscation.encode/decode on 3 cases')
    return notes
