"""C04: COMPLETE means the whole file arrived intact; resuming never corrupts it.

The real TransferManager._initialize_download / _calculate_offset / _download_file /
_initialize_upload / _upload_file, PeerConnection.receive_file / receive_data / _read /
send_file / send_data / _send / send_message / receive_transfer_offset / receive_until_eof /
disconnect, Transfer._transfer_progress_callback / is_transfered and the real transfer state
classes run on the virtual loop.  Positions and counts are z3 values: the announced file size,
the size of the local file before the attempt, the offset on the wire, the length of every
chunk a read returns, the number of tokens the limiter grants, the actual size of the uploaded
file.  A run of file bytes is a `Chunk(src, n)` ("bytes [src, src+n) of the remote file"); the
local file is an append-only list of (position, Chunk).  `len` is shimmed in the two modules
that count bytes so that chunk lengths stay symbolic.
"""
from __future__ import annotations

import asyncio
import errno
import logging
import struct
import types

import z3

from engine import codec, symex
from engine.symex import And, Not, SInt, sym_int, sym_min
from engine.vloop import VLoop

import aioslsk.network.connection as conn_mod
import aioslsk.network.rate_limiter as rl_mod
import aioslsk.transfer.manager as mgr_mod
import aioslsk.transfer.model as model_mod
import aioslsk.transfer.state as state_mod
from aioslsk.events import EventBus
from aioslsk.network.connection import (
    CloseReason, ConnectionState, PeerConnection, PeerConnectionState, PeerConnectionType,
)
from aioslsk.network.rate_limiter import RateLimiter, LimitedRateLimiter, UnlimitedRateLimiter
from aioslsk.protocol import primitives
from aioslsk.protocol.messages import PeerTransferQueue, PeerTransferReply, PeerTransferRequest, PeerUploadFailed
from aioslsk.transfer.manager import TransferManager, _RequestFlag
from aioslsk.transfer.model import FailReason, Transfer, TransferDirection
from aioslsk.user.model import UserStatus
from aioslsk.transfer.state import TransferState
from aioslsk.utils import ticket_generator

PROPERTY = 'C04'
U64 = 2 ** 64 - 1
ANY_TOKENS_MAX = 2 ** 62          # 'anysize' limiter: every grant 1..2^62 (so that replay objects keep a legal __len__)
HORIZON = 100000.0                # virtual seconds after which a still pending task counts as "never finishes"
_MISSING = object()
DL_PATH = '/dl/file.bin'
UL_PATH = '/share/file.bin'
REMOTE = 'share\\file.bin'

S = TransferState.State


# ------------------------------------------------------------------------------------------
# data model: chunks, wire tokens, codec stubs
# ------------------------------------------------------------------------------------------

class Chunk:
    """a run of `n` file bytes whose content is "bytes [src, src+n) of the file the sender reads".
    Symbolic run: src/n are SInt, the builtin len() must never see it (the `len` shim does).
    Concrete replay: src/n are ints and the object behaves like a bytes object of that length for
    the only three things the code under test does with file data: truth value, len(), pass on."""
    __slots__ = ('src', 'n')

    def __init__(self, src, n):
        self.src = src
        self.n = n

    def __bool__(self):
        return bool(self.n > 0)

    def __len__(self):
        if isinstance(self.n, SInt):
            raise symex.HarnessError('builtin len() reached a symbolic chunk (a byte count escaped the len shim)')
        return self.n

    def __getitem__(self, k):
        # data[a:b] keeps the identity of the bytes (so a code change that trims a chunk is still judged by content)
        if not isinstance(k, slice) or k.step not in (None, 1):
            raise symex.HarnessError(f'unsupported indexing of file data: {k!r}')
        n = self.n

        def clamp(v, default):
            if v is None:
                return default
            if v < 0:
                v = symex.sym_max(n + v, 0)
            return sym_min(v, n)
        a, b = clamp(k.start, 0), clamp(k.stop, n)
        return Chunk(self.src + a, symex.sym_max(b - a, 0))

    def __repr__(self):
        return f'<Chunk {self.src!r}+{self.n!r}>'


def xlen(x):
    """`len` shim injected into connection.py / model.py"""
    if isinstance(x, Chunk):
        return x.n
    return len(x)


# --- the 8-byte offset and the 4-byte ticket travel as real bytes (engine/codec.py: SBytes of BV8 terms) through the
# --- real uint64 / uint32 serialize / deserialize; only struct.Struct is the pure-Python StructStub

def _low_bytes_of(terms):
    """if the byte terms are bytes 0..k-1 (little endian) of int_to_bv(v) for one Int term v, return v"""
    base = None
    for i, t in enumerate(terms):
        if isinstance(t, int) or not z3.is_app_of(t, z3.Z3_OP_EXTRACT) or t.params() != [8 * i + 7, 8 * i]:
            return None
        a = t.arg(0)
        if not z3.is_app_of(a, z3.Z3_OP_INT2BV) or (base is not None and not a.eq(base)):
            return None
        base = a
    return None if base is None else base.arg(0)


def bytes_to_int(terms, signed=False):
    """little-endian value of byte terms, in the Int theory (python int when all bytes are concrete).
    bv2int(extract[8k-1:0](int2bv(v))) == v mod 2^(8k) is applied as a rewrite (exact for every integer v; validated in
    the prelude): the solver then works in linear arithmetic instead of converting 64-bit vectors."""
    terms = list(terms)
    if not terms:
        return 0
    if all(isinstance(t, int) for t in terms):
        return int.from_bytes(bytes(terms), 'little', signed=signed)
    k = len(terms)
    v = _low_bytes_of(terms)
    if v is not None:
        u = z3.simplify(v % (1 << (8 * k)))
    else:
        bv = [z3.BitVecVal(t, 8) if isinstance(t, int) else t for t in reversed(terms)]
        u = z3.BV2Int(z3.Concat(*bv) if len(bv) > 1 else bv[0], False)
    if signed:
        u = z3.If(u >= (1 << (8 * k - 1)), u - (1 << (8 * k)), u)
    return SInt(u)


class IntStruct(codec.StructStub):
    """engine.codec.StructStub (pack: CPython's range check, value -> BV8 byte terms) whose unpack hands integers
    back as Int-theory values (SInt) instead of bit-vector words, because everything C04 does with them is counting"""

    def _unpack_terms(self, terms):
        out, p = [], 0
        for code, n in self.items:
            if code not in codec._INT_CODES:
                raise symex.HarnessError(f'IntStruct: format code {code!r} not modelled')
            nb, signed = codec._INT_CODES[code]
            out.append(bytes_to_int(terms[p:p + nb], signed))
            p += nb
        return tuple(out)


def int_primitives():
    """the integer primitives of aioslsk.protocol.primitives (uint8, uint16, uint32, uint64, int32)"""
    return [cls for cls in vars(primitives).values()
            if isinstance(cls, type) and issubclass(cls, int) and cls.__module__ == primitives.__name__
            and isinstance(cls.__dict__.get('STRUCT'), struct.Struct)
            and cls.__dict__['STRUCT'].format.lstrip('<') in codec._INT_CODES]


def wire_value(c, data, width=8):
    """reference decoding (harness side): which integer is on the wire; None when it is not `width` bytes"""
    if isinstance(data, codec.SBytes):
        return bytes_to_int(data.b) if len(data) == width else None
    if isinstance(data, (bytes, bytearray)):
        return int.from_bytes(data, 'little') if len(data) == width else None
    raise symex.HarnessError(f'unexpected object on the wire where a {width}-byte integer was expected: {data!r}')


def wire_token(c, value, width=8):
    """reference encoding (harness side) of an integer a scripted peer sends: `width` little-endian bytes"""
    if c.symbolic:
        return codec.SBytes(codec.int_terms(value, width, False))
    return int(value).to_bytes(width, 'little')


class TicketMap:
    """stands in for the dict TransferManager._file_connection_futures (ticket -> future) so that a symbolic ticket
    can be a key: lookup compares with every stored key (the comparison forks when both outcomes are feasible)"""

    def __init__(self):
        self.items = []

    def _find(self, k):
        for i, (sk, _) in enumerate(self.items):
            if bool(sk == k):
                return i
        return None

    def __setitem__(self, k, v):
        i = self._find(k)
        if i is None:
            self.items.append((k, v))
        else:
            self.items[i] = (self.items[i][0], v)

    def __getitem__(self, k):
        i = self._find(k)
        if i is None:
            raise KeyError(k)
        return self.items[i][1]

    def get(self, k, default=None):
        i = self._find(k)
        return default if i is None else self.items[i][1]

    def __contains__(self, k):
        return self._find(k) is not None

    def __len__(self):
        return len(self.items)


def symbolic_tickets(c, tag):
    """stands in for utils.ticket_generator(): any ticket in 1..2^32-1, distinct from the ones handed out before"""
    seen = []
    while True:
        t = c.fresh_int(f'{tag}_ticket{len(seen)}', 1, 2 ** 32 - 1)
        for o in seen:
            c.assume(t != o)
        seen.append(t)
        yield t


# ------------------------------------------------------------------------------------------
# in-memory file system (environment fake, used in both modes)
# ------------------------------------------------------------------------------------------

class LocalFile:
    """download target: `base` bytes were there before the scenario, then append-only"""

    def __init__(self, base):
        self.base = base
        self.size = base
        self.appended = []     # [(position, Chunk)]


class SourceFile:
    """upload source of `size` bytes; read(n) returns min(n, size - pos) bytes like a regular file"""

    def __init__(self, size, max_reads):
        self.size = size
        self.max_reads = max_reads
        self.reads = 0


class _Handle:
    def __init__(self, fs, path, mode):
        self.fs, self.path, self.mode = fs, path, mode
        self.pos = 0

    async def write(self, data):
        if self.mode != 'ab':
            raise symex.HarnessError(f'write on a handle opened with mode {self.mode}')
        f = self.fs.files[self.path]
        n = xlen(data)
        f.appended.append((f.size, data))
        f.size = f.size + n
        return n

    async def seek(self, pos, whence=0):
        if whence != 0:
            raise symex.HarnessError('seek with whence != 0 is not modelled')
        self.pos = pos
        return pos

    async def read(self, n=-1):
        f = self.fs.files[self.path]
        if not isinstance(f, SourceFile):
            raise symex.HarnessError('read from a download target')
        if self.pos >= f.size:         # forks on symbolic positions
            return b''
        f.reads += 1
        if f.reads > f.max_reads:
            raise symex.BoundHit('more file reads than the stated bound')
        m = sym_min(n, f.size - self.pos)
        ch = Chunk(self.pos, m)
        self.pos = self.pos + m
        return ch


class _OpenCM:
    def __init__(self, fs, path, mode):
        self.fs, self.path, self.mode = fs, path, mode

    async def __aenter__(self):
        fs = self.fs
        fs.opens.append((self.path, self.mode))
        if self.mode == 'ab':
            if self.path not in fs.files:
                fs.files[self.path] = LocalFile(0)
            fs.appenders[self.path] = fs.appenders.get(self.path, 0) + 1
            self.counted = True
            if fs.appenders[self.path] > 1:
                fs.concurrent.append(self.path)       # two handles write the same file at the same time
        elif self.mode == 'rb':
            if self.path not in fs.files:
                raise FileNotFoundError(2, 'No such file or directory', self.path)
        elif self.mode in ('wb', 'w+b', 'wb+'):
            fs.truncated.append(self.path)
            fs.files[self.path] = LocalFile(0)
            self.mode = 'ab'
        else:
            raise symex.HarnessError(f'file mode {self.mode!r} is not modelled')
        return _Handle(fs, self.path, self.mode)

    async def __aexit__(self, *a):
        if getattr(self, 'counted', False):
            self.fs.appenders[self.path] -= 1
        return False


class FS:
    def __init__(self):
        self.files = {}
        self.opens = []
        self.removed = []
        self.truncated = []
        self.appenders = {}        # path -> number of open append handles
        self.concurrent = []       # paths that had two append handles open at once
        self.handed_log = []       # every chunk a scripted uploader handed to the downloader, in global order
        # what gets injected in place of the `aiofiles` / `aiofiles.os` modules
        self.aiofiles = types.SimpleNamespace(open=self._open)
        self.asyncos = types.SimpleNamespace(
            path=types.SimpleNamespace(getsize=self._getsize, exists=self._exists),
            remove=self._remove)

    def _open(self, path, mode='r', **kw):
        return _OpenCM(self, path, mode)

    async def _getsize(self, path):
        if path is None:
            raise TypeError('path is None')
        if path not in self.files:
            raise FileNotFoundError(2, 'No such file or directory', path)
        return self.files[path].size

    async def _exists(self, path):
        return path in self.files

    async def _remove(self, path):
        if path not in self.files:
            raise FileNotFoundError(2, 'No such file or directory', path)
        self.removed.append(path)
        del self.files[path]

    def size(self, path):
        f = self.files.get(path)
        return 0 if f is None else f.size


# ------------------------------------------------------------------------------------------
# environment: stubs injected into module globals (restored on exit)
# ------------------------------------------------------------------------------------------

class Env:
    def __init__(self, c):
        self.c = c
        self.saved = []
        self.fs = FS()
        self.loop = VLoop()

    def _set(self, mod, name, value):
        self.saved.append((mod, name, mod.__dict__.get(name, _MISSING)))
        mod.__dict__[name] = value

    def _setc(self, cls, name, value):
        self.saved.append((cls, name, cls.__dict__.get(name, _MISSING)))
        setattr(cls, name, value)

    def __enter__(self):
        clock = types.SimpleNamespace(time=self.loop.time, monotonic=self.loop.time)
        self._set(mgr_mod, 'aiofiles', self.fs.aiofiles)
        self._set(mgr_mod, 'asyncos', self.fs.asyncos)
        self._set(state_mod, 'asyncos', self.fs.asyncos)
        self._set(model_mod, 'time', clock)
        self._set(rl_mod, 'time', clock)
        if self.c.symbolic:
            self._set(conn_mod, 'len', xlen)
            self._set(model_mod, 'len', xlen)
            self._set(mgr_mod, 'int', sym_int)
            for cls in int_primitives():
                # engine/codec.py's stubs for the integer primitives: uint64(v) with a symbolic v is a box whose
                # methods are the real functions of the class; STRUCT packs to / unpacks from BV8 byte terms
                self._setc(cls, 'STRUCT', IntStruct(cls.STRUCT.format))
                self._setc(cls, '__new__', codec._boxed_new(int))
        self._log_disabled = logging.root.manager.disable
        logging.disable(logging.CRITICAL)
        return self

    def __exit__(self, *a):
        logging.disable(self._log_disabled)
        for tgt, name, old in reversed(self.saved):
            if isinstance(tgt, type):
                if old is _MISSING:
                    delattr(tgt, name)
                else:
                    setattr(tgt, name, old)
            elif old is _MISSING:
                tgt.__dict__.pop(name, None)
            else:
                tgt.__dict__[name] = old
        try:
            self.loop.cleanup()
        except Exception:  # noqa
            pass
        return False


class AnyLimiter:
    """limiter stand-in granting an arbitrary positive number of tokens per call: a superset of
    what UnlimitedRateLimiter (8192) and LimitedRateLimiter (128) grant"""

    def __init__(self, c, tag):
        self.c, self.tag = c, tag

    async def take_tokens(self):
        return self.c.fresh_int(f'{self.tag}_tokens', 1, ANY_TOKENS_MAX)


def make_limiter(c, kind, tag):
    if kind == 'unlimited':
        return RateLimiter.create_limiter(0)
    if kind == 'limited':
        return RateLimiter.create_limiter(1)     # 1 KiB/s: grants of 128 bytes, sleeps in between (virtual time)
    if kind == 'anysize':
        return AnyLimiter(c, tag)
    raise symex.HarnessError(kind)


class FakeNet:
    """what PeerConnection / TransferManager need from Network"""

    def __init__(self):
        self.state_log = []
        self.peer_msgs = []
        self.server_msgs = []
        self.reply = None          # (connection, message) answering create_peer_response_future
        self.file_conn = None
        self.loop = None

    async def on_state_changed(self, state, connection, close_reason=CloseReason.UNKNOWN):
        self.state_log.append((state, close_reason))

    async def send_peer_messages(self, username, *msgs):
        self.peer_msgs.extend(msgs)

    def queue_server_messages(self, *msgs):
        self.server_msgs.extend(msgs)
        return []

    def create_peer_response_future(self, peer, message_class, fields=None):
        fut = self.loop.create_future()
        if self.reply is not None:
            fut.set_result(self.reply(fields))
        return fut

    async def create_peer_connection(self, username, typ, **kw):
        return self.file_conn()


class _Shares:
    def calculate_download_path(self, remote_path):
        return '/dl', 'file.bin'

    async def create_directory(self, path):
        return None

    async def find_shared_item(self, remote_path, username=None):
        return object()


class _Ctrl:
    """the peer (P) connection on which the transfer request arrived"""

    def __init__(self):
        self.sent = []
        self.username = 'peer'

    async def send_message(self, m):
        self.sent.append(m)


def make_manager(env, net):
    m = object.__new__(TransferManager)
    m._network = net
    m._shares_manager = _Shares()
    m._event_bus = EventBus()
    m._ticket_generator = ticket_generator()
    m._transfers = []
    m._file_connection_futures = TicketMap()
    m._management_queue = env.loop.call(asyncio.Queue, 1)
    m._management_flags = _RequestFlag(0)
    # nobody is blocked, every user is online (C05/C08 cover what these decide)
    m._settings = types.SimpleNamespace(users=types.SimpleNamespace(is_blocked=lambda u, f: False, friends=set()))
    m._user_manager = types.SimpleNamespace(
        get_user_object=lambda name: types.SimpleNamespace(name=name, status=UserStatus.ONLINE, privileged=False))
    return m


def make_file_conn(env, net, reader, writer, dl_lim=None, ul_lim=None):
    pc = PeerConnection('10.0.0.2', 2234, net, connection_type=PeerConnectionType.FILE, username='peer')
    pc.state = ConnectionState.CONNECTED
    pc.connection_state = PeerConnectionState.AWAITING_INIT
    pc.set_connection_state(PeerConnectionState.NEGOTIATING_TRANSFER)
    pc._reader, pc._writer = reader, writer
    if dl_lim is not None:
        pc.download_rate_limiter = dl_lim
    if ul_lim is not None:
        pc.upload_rate_limiter = ul_lim
    return pc


def set_state(transfer, value):
    transfer.state = TransferState.init_from_state(value, transfer)


def settle(env, task):
    """run the virtual loop until nothing is scheduled any more; True when the task finished"""
    env.loop.run_until_quiet(max_time=HORIZON)
    return task.done()


def task_error(task):
    if not task.done() or task.cancelled():
        return None
    return task.exception()


# ------------------------------------------------------------------------------------------
# scripted remote uploader (the peer of a download)
# ------------------------------------------------------------------------------------------

# how a socket operation fails: the exception classes real sockets / asyncio streams raise, enumerated per fault
SOCKET_ERRORS = {
    'reset': lambda: ConnectionResetError(errno.ECONNRESET, 'Connection reset by peer'),
    'aborted': lambda: ConnectionAbortedError(errno.ECONNABORTED, 'Software caused connection abort'),
    'pipe': lambda: BrokenPipeError(errno.EPIPE, 'Broken pipe'),
    'oserror': lambda: OSError(errno.EHOSTUNREACH, 'No route to host'),
    'timedout': lambda: TimeoutError(errno.ETIMEDOUT, 'Connection timed out'),     # is asyncio.TimeoutError on 3.11+
}
READ_FAULTS = {'basic': ['eof', 'reset', 'hang'],
               'all': ['eof', 'reset', 'aborted', 'pipe', 'oserror', 'timedout', 'hang'],
               'instant': ['eof', 'reset']}
WRITE_FAULTS = {'basic': ['reset', 'hang'], 'all': ['reset', 'aborted', 'pipe', 'oserror', 'timedout', 'hang']}


class Sender:
    """remote uploader seen through the file connection's reader/writer.  Honest about content
    (the i-th byte it sends is byte offset+i of the remote file, offset = what it was told), free
    in everything the property quantifies over: how many bytes each read returns (1..asked),
    when the stream ends (EOF / reset / silence) and whether it sends more than was announced."""

    def __init__(self, c, env, tag, max_data_reads, offset_fault, faults='basic', gate_after=None):
        self.c, self.env, self.tag = c, env, tag
        self.max_data_reads = max_data_reads
        self.offset_fault = offset_fault      # 'ok' | one of WRITE_FAULTS['all'] : what happens to the write of the offset
        self.faults = READ_FAULTS[faults]
        self.gate_after = gate_after          # after that many data reads the next read waits until the harness opens the gate
        self.gate = None
        self.written = []
        self.offset = None                    # integer decoded from the wire
        self.src = None
        self.handed = []                      # chunks handed to the downloader, in order
        self.fault = None                     # which fault ended the stream (None: the downloader stopped reading)
        self.closed = False
        self.reads = 0

    # --- writer side -------------------------------------------------------------------
    def write(self, data):
        self.written.append(data)

    async def drain(self):
        if self.offset_fault == 'ok':
            return
        self.fault = 'offset_' + self.offset_fault
        if self.offset_fault == 'hang':
            await self.env.loop.create_future()
        raise SOCKET_ERRORS[self.offset_fault]()

    def is_closing(self):
        return self.closed

    def close(self):
        self.closed = True

    async def wait_closed(self):
        return None

    def get_extra_info(self, name, default=None):
        return ('10.0.0.1', 1) if name in ('sockname', 'peername') else default

    # --- reader side -------------------------------------------------------------------
    async def read(self, n=-1):
        c = self.c
        if self.offset is None:
            if len(self.written) != 1:
                raise symex.HarnessError(f'expected exactly the offset on the wire, got {self.written!r}')
            self.offset = wire_value(c, self.written[0])
            self.src = self.offset
        if self.offset is None:
            self.fault = 'eof'        # what arrived is not an 8-byte offset: this uploader gives up and closes
            return b''
        if self.gate_after is not None and self.gate is None and len(self.handed) == self.gate_after:
            self.gate = self.env.loop.create_future()      # nothing arrives until the harness says so
            await self.gate
        i = self.reads
        self.reads += 1
        kinds = (['data'] if len(self.handed) < self.max_data_reads else []) + self.faults
        kind = kinds[c.choose(len(kinds), f'{self.tag}_read{i}')]
        if kind == 'data':
            m = c.fresh_int(f'{self.tag}_n{i}', 1, None)
            c.assume(m <= n)
            ch = Chunk(self.src, m)
            self.src = self.src + m
            self.handed.append(ch)
            self.env.fs.handed_log.append(ch)
            return ch
        self.fault = kind
        if kind == 'eof':
            return b''
        if kind == 'hang':
            await self.env.loop.create_future()       # silence: only the read time-out ends this
        raise SOCKET_ERRORS[kind]()

    async def readexactly(self, n):
        raise symex.HarnessError('readexactly on the download side of a file connection')


def break_state_ok(fault, st, reason):
    """what the state of a download may be after the connection broke (statement + _download_file / _initialize_download
    docstrings): a read/write error or time-out gives INCOMPLETE (the retryable state); a clean close by the uploader before
    the announced size is the documented explicit case 'not all bytes transfered: FAIL' -> FAILED('Cancelled') (or INCOMPLETE).
    COMPLETE is accepted here only because complete_size_is_announced_size polices it."""
    if st in (S.INCOMPLETE, S.COMPLETE):
        return True
    if fault == 'eof':
        return st == S.FAILED and reason == FailReason.CANCELLED
    return False


def chunks_total(chunks):
    t = 0
    for ch in chunks:
        t = t + ch.n
    return t


def download_prestate(c, fs, transfer, pre, F):
    """the download before the first attempt.  The progress counter is whatever the cache restored: any value, the file
    system need not agree with it.
    'fresh'      QUEUED, no local path yet, no file
    'incomplete' INCOMPLETE, local path set, local file of any size
    'requeued'   QUEUED (after FAILED/PAUSED), local path set, local file of any size
    'missing'    QUEUED, local path set, the file is gone
    'lost'       INCOMPLETE, local path set, the file is gone (cleaned download directory / restored from cache)"""
    transfer.bytes_transfered = c.fresh_int('counter', 0, U64)
    if pre == 'fresh':
        set_state(transfer, S.QUEUED)
        return
    transfer.local_path = DL_PATH
    if pre in ('incomplete', 'requeued'):
        fs.files[DL_PATH] = LocalFile(c.fresh_int('local_size', 0, U64))
    elif pre not in ('missing', 'lost'):
        raise symex.HarnessError(pre)
    set_state(transfer, S.INCOMPLETE if pre in ('incomplete', 'lost') else S.QUEUED)
    transfer.filesize = F


def local_file_event(c, fs, kind, tag):
    """what happens to the partial file between two attempts, behind the back of the client: nothing / it is removed /
    it is replaced by a file of any other size (shorter or longer than what the transfer counted)"""
    c.reach('local_file_' + kind)
    if kind == 'kept':
        return
    if kind == 'removed':
        fs.files.pop(DL_PATH, None)
    elif kind == 'resized':
        fs.files[DL_PATH] = LocalFile(c.fresh_int(f'{tag}_resized_to', 0, U64))
    else:
        raise symex.HarnessError(kind)


def h_download(c, lim='unlimited', reads=2, attempts=1, pre='fresh', offset_fault='ok', faults='basic', fs_event='kept'):
    """`attempts` consecutive download attempts of one transfer against a scripted uploader.
    pre: see download_prestate; fs_event: see local_file_event (applied before every attempt but the first)"""
    with Env(c) as env:
        loop, fs = env.loop, env.fs
        net = FakeNet()
        net.loop = loop
        mgr = make_manager(env, net)
        transfer = Transfer('peer', REMOTE, TransferDirection.DOWNLOAD)
        transfer.state_listeners.append(mgr)
        mgr._transfers.append(transfer)
        F = c.fresh_int('filesize', 0, U64)
        download_prestate(c, fs, transfer, pre, F)
        for a in range(attempts):
            tag = f'a{a}'
            if a > 0:
                local_file_event(c, fs, fs_event, tag)
            size_before = fs.size(DL_PATH)       # the oracle: book-kept from the file system, not from the transfer
            appended_before = list(fs.files[DL_PATH].appended) if DL_PATH in fs.files else []
            of = offset_fault if a == 0 else 'ok'
            sender = Sender(c, env, tag, reads, of, faults)
            conn = make_file_conn(env, net, sender, sender, dl_lim=make_limiter(c, lim, tag))
            ticket = 1000 + a
            req = PeerTransferRequest.Request(TransferDirection.DOWNLOAD.value, ticket, REMOTE, filesize=F)
            ctrl = _Ctrl()
            task = loop.spawn(mgr._initialize_download(transfer, ctrl, req))
            loop.run_ready()
            fut = mgr._file_connection_futures.get(ticket)
            if fut is None or fut.done():
                raise symex.HarnessError('download did not wait for the file connection')
            loop.call(fut.set_result, conn)
            finished = settle(env, task)
            st = transfer.state.VALUE
            sig = [lim, pre if a == 0 else ('retry' if fs_event == 'kept' else 'retry_file_' + fs_event), sender.fault or 'none']
            c.note('attempt', a, 'fault', sender.fault, 'state', st.name, 'reason', transfer.fail_reason,
                   'finished', finished, 'error', repr(task_error(task)))

            # -- COMPLETE means intact ------------------------------------------------------
            f = fs.files.get(DL_PATH)
            if st == S.COMPLETE:
                c.reach('download_complete')
                c.check(f is not None and not fs.removed and not fs.truncated, 'complete_file_present', sig=sig)
                if f is not None:
                    c.check(f.size == F, 'complete_size_is_announced_size', sig=sig,
                            info='COMPLETE but the local file size differs from the announced size')
                    c.check(And(*[pos == ch.src for pos, ch in f.appended]) if f.appended else True,
                            'complete_content_by_position', sig=sig,
                            info='COMPLETE but a chunk was stored at a file position different from its source offset')
                    c.check(Not(size_before > F) if c.symbolic else not (size_before > F),
                            'no_complete_beyond_size', sig=sig)
            # -- the offset on the wire is the size of the local file (after the COMPLETE clauses, so that both decide) --
            if sender.written:
                c.reach('offset_sent')
                off = wire_value(c, sender.written[0])
                c.check(False if off is None else off == size_before, 'offset_is_local_size', sig=sig[:2],
                        info='offset sent to the uploader differs from the size of the local file' if off is not None
                        else f'what was sent is not an 8-byte offset: {sender.written[0]!r}')
            # -- a break leaves INCOMPLETE / FAILED(reason) and keeps the received prefix -------
            if sender.fault is not None:
                c.reach('break_' + sender.fault)
                c.check(break_state_ok(sender.fault, st, transfer.fail_reason), 'break_gives_incomplete_or_failed', sig=sig,
                        info=f'state after the break: {st.name}, fail_reason={transfer.fail_reason!r}, '
                             f'task finished={finished}, error={task_error(task)!r}')
            c.check(not fs.concurrent, 'single_writer', sig=sig)
            if sender.fault is not None or st != S.COMPLETE:
                now = [ch for _, ch in f.appended] if f is not None else []
                want = [ch for _, ch in appended_before] + sender.handed
                kept = (not fs.removed and not fs.truncated and len(now) == len(want)
                        and all(x is y for x, y in zip(now, want)))
                c.check(kept, 'received_prefix_kept', sig=sig,
                        info='bytes handed to the downloader are not (exactly once, in order) in the local file')
                if f is not None:
                    c.check(f.size == size_before + chunks_total(sender.handed), 'received_prefix_kept', sig=sig)
            if st == S.COMPLETE:
                break
            # -- next attempt: what _on_peer_transfer_request does before starting it ------------
            if st == S.FAILED:
                loop.run_until_complete(transfer.state.queue(remotely=True))
            elif not finished:
                task.cancel()
                loop.run_ready()
        c.reach('download_end')


# ------------------------------------------------------------------------------------------
# scripted remote downloader (the peer of an upload)
# ------------------------------------------------------------------------------------------

class Receiver:
    def __init__(self, c, env, offset, offset_read='ok', write_faults='basic'):
        self.c, self.env = c, env
        self.offset = offset
        self.offset_read = offset_read
        self.write_faults = write_faults
        self.written = []            # everything written, in order (ticket first)
        self.sent = []               # file chunks whose drain() succeeded
        self.fault = None
        self.end = None              # how the final read-until-EOF ended
        self.closed = False
        self.drains = 0
        self.ticket_wire = None

    def write(self, data):
        self.written.append(data)

    async def drain(self):
        i = self.drains
        self.drains += 1
        if i == 0:
            self.ticket_wire = wire_value(self.c, self.written[0], 4)     # the ticket comes first
            return
        data = self.written[-1]
        if not isinstance(data, Chunk):
            raise symex.HarnessError(f'unexpected write on the file connection: {data!r}')
        kinds = ['ok'] + (WRITE_FAULTS[self.write_faults] if self.write_faults else [])
        kind = kinds[self.c.choose(len(kinds), f'drain{i}')]
        if kind == 'ok':
            self.sent.append(data)
            return
        self.fault = 'write_' + kind
        if kind == 'hang':
            await self.env.loop.create_future()
        raise SOCKET_ERRORS[kind]()

    def is_closing(self):
        return self.closed

    def close(self):
        self.closed = True

    async def wait_closed(self):
        return None

    def get_extra_info(self, name, default=None):
        return ('10.0.0.1', 1) if name in ('sockname', 'peername') else default

    async def readexactly(self, n):
        if n != 8:
            raise symex.HarnessError(f'readexactly({n}) on the upload side')
        if self.offset_read == 'eof':
            self.fault = 'offset_eof'
            raise asyncio.IncompleteReadError(b'', 8)
        if self.offset_read == 'partial':
            self.fault = 'offset_partial'
            raise asyncio.IncompleteReadError(b'\x00\x00', 8)
        if self.offset_read in SOCKET_ERRORS:
            self.fault = 'offset_' + self.offset_read
            raise SOCKET_ERRORS[self.offset_read]()
        return wire_token(self.c, self.offset)

    async def read(self, n=-1):
        if n != -1:
            raise symex.HarnessError('the uploader reads file data?')
        kinds = ['eof', 'reset', 'data_then_eof', 'hang'] + (['aborted', 'oserror', 'timedout'] if self.write_faults == 'all' else [])
        kind = kinds[self.c.choose(len(kinds), 'final_read')]
        self.end = kind
        if kind == 'eof':
            return b''
        if kind == 'data_then_eof':
            return b'\x01\x02\x03'
        if kind == 'hang':
            await self.env.loop.create_future()
        raise SOCKET_ERRORS[kind]()


def h_upload(c, lim='unlimited', reads=2, offset_read='ok', write_faults='basic'):
    """one upload attempt through the real _initialize_upload / _upload_file against a scripted
    downloader.  Symbolic: announced size, actual size of the file on disk, negotiated offset,
    tokens per grant (anysize)."""
    with Env(c) as env:
        loop, fs = env.loop, env.fs
        net = FakeNet()
        net.loop = loop
        mgr = make_manager(env, net)
        mgr._ticket_generator = symbolic_tickets(c, 'u')
        transfer = Transfer('peer', REMOTE, TransferDirection.UPLOAD)
        transfer.state_listeners.append(mgr)
        mgr._transfers.append(transfer)
        F = c.fresh_int('filesize', 0, U64)
        A = c.fresh_int('actual_size', 0, U64)
        O = c.fresh_int('offset', 0, U64)
        transfer.local_path = UL_PATH
        transfer.filesize = F
        fs.files[UL_PATH] = SourceFile(A, reads)
        set_state(transfer, S.QUEUED)
        recv = Receiver(c, env, O, offset_read, write_faults)
        conn = make_file_conn(env, net, recv, recv, ul_lim=make_limiter(c, lim, 'u'))
        ctrl = _Ctrl()
        net.reply = lambda fields: (ctrl, PeerTransferReply.Request(fields['ticket'], True))
        net.file_conn = lambda: conn
        task = loop.spawn(mgr._initialize_upload(transfer))
        finished = settle(env, task)
        st = transfer.state.VALUE
        sig = [lim, recv.fault or 'none', recv.end or 'none']
        c.note('fault', recv.fault, 'end', recv.end, 'state', st.name, 'finished', finished, 'error', repr(task_error(task)))
        reqs = [m for m in net.peer_msgs if isinstance(m, PeerTransferRequest.Request)]
        if len(reqs) != 1:
            raise symex.HarnessError('upload did not announce itself with exactly one PeerTransferRequest')
        announced = reqs[0].filesize
        if recv.drains > 0:
            c.reach('ticket_sent')
            c.check(False if recv.ticket_wire is None else recv.ticket_wire == reqs[0].ticket,
                    'ticket_on_wire_is_announced_ticket', sig=[lim],
                    info='the 4 bytes that open the file connection do not decode to the ticket of the PeerTransferRequest')
        if st == S.COMPLETE:
            c.reach('upload_complete')
            c.check(Not(O > announced) if c.symbolic else not (O > announced), 'no_complete_beyond_size', sig=sig,
                    info='COMPLETE although the offset the downloader sent lies beyond the announced size')
            chunks = [d for d in recv.written[1:]]
            c.check(all(isinstance(d, Chunk) for d in chunks) and len(recv.sent) == len(chunks) and recv.fault is None,
                    'upload_complete_every_write_succeeded', sig=sig)
            pos = O
            contiguous = []
            for ch in recv.sent:
                contiguous.append(ch.src == pos)
                pos = pos + ch.n
            c.check(And(*contiguous) if contiguous else True, 'upload_complete_sent_from_offset', sig=sig,
                    info='COMPLETE but the bytes sent do not start at the negotiated offset / are not contiguous')
            c.check(pos == announced, 'upload_complete_sent_up_to_announced_size', sig=sig,
                    info='COMPLETE but offset + bytes sent differs from the announced file size')
            c.check(recv.end is not None and recv.end != 'hang', 'upload_complete_peer_closed', sig=sig,
                    info='COMPLETE although the peer never closed the connection')
        if recv.fault is not None:
            c.reach('upload_break')
            c.check(st != S.COMPLETE, 'upload_break_not_complete', sig=sig)
        if not finished:
            task.cancel()
            loop.run_ready()
        c.reach('upload_end')


# ------------------------------------------------------------------------------------------
# two real clients back to back: real downloader code against real uploader code through a pipe
# ------------------------------------------------------------------------------------------

class Wire:
    """one direction of the file connection"""

    def __init__(self, env):
        self.env = env
        self.buf = []
        self.eof = False
        self.waiters = []

    def feed(self, data):
        self.buf.append(data)
        self.wake()

    def close(self):
        self.eof = True
        self.wake()

    def wake(self):
        ws, self.waiters = self.waiters, []
        for w in ws:
            if not w.done():
                w.set_result(None)

    async def wait(self):
        fut = self.env.loop.create_future()
        self.waiters.append(fut)
        await fut


class Link:
    """the file connection between the two clients: symbolic TCP segmentation of the file stream and
    (optionally) a symbolic cut point: after `cut` file bytes reached the downloader the connection
    is reset for both ends"""

    def __init__(self, c, env, tag, cut, max_segments, backpressure, cut_kind='reset'):
        self.c, self.env, self.tag = c, env, tag
        self.cut_kind = cut_kind
        self.backpressure = backpressure
        self.cut = c.fresh_int(f'{tag}_cut_after', 0, U64) if cut else None
        self.max_segments = max_segments
        self.segments = 0
        self.delivered = 0
        self.dead = False
        self.to_down = Wire(env)
        self.to_up = Wire(env)
        self.offset_wire = None       # the integer the downloader put on the wire
        self.up_written = []          # file chunks the uploader wrote
        self.down_closed = False

    def kill(self):
        self.dead = True
        self.to_down.wake()
        self.to_up.wake()

    def deliver(self, wire, n):
        c = self.c
        head = wire.buf[0]
        if not isinstance(head, Chunk):
            # left-over hand-shake bytes in front of the file data (only after a code change): the downloader
            # receives them as file content that is no byte of the remote file
            wire.buf.pop(0)
            wire.wake()
            self.delivered = self.delivered + len(head)
            return Chunk(-(1 << 80), len(head))
        if self.cut is not None and self.delivered >= self.cut:          # forks on the symbolic cut point
            self.kill()
            raise SOCKET_ERRORS[self.cut_kind]()
        i = self.segments
        self.segments += 1
        if i >= self.max_segments:
            raise symex.BoundHit('more TCP segments than the stated bound')
        m = c.fresh_int(f'{self.tag}_seg{i}', 1, None)
        c.assume(m <= n)
        c.assume(m <= head.n)
        if self.cut is not None:
            c.assume(self.delivered + m <= self.cut)
        if head.n == m:                                                   # forks: whole write / a piece of it
            wire.buf.pop(0)
            wire.wake()
        else:
            wire.buf[0] = Chunk(head.src + m, head.n - m)
        self.delivered = self.delivered + m
        return Chunk(head.src, m)


class End:
    """StreamReader + StreamWriter of one endpoint of a Link"""

    def __init__(self, link, rx, tx, is_down):
        self.link, self.rx, self.tx, self.is_down = link, rx, tx, is_down
        self.closed = False
        self.write_lost = False

    # --- writer ---------------------------------------------------------------------------
    def write(self, data):
        link = self.link
        if self.closed:
            return
        if link.dead or (not self.is_down and link.down_closed):
            self.write_lost = True
            return
        if self.is_down:
            if link.offset_wire is not None:
                raise symex.HarnessError(f'downloader wrote more than the offset: {data!r}')
            link.offset_wire = wire_value(link.c, data)
            if link.offset_wire is None:
                link.offset_wire = 'not 8 bytes'
        elif isinstance(data, Chunk):
            link.up_written.append(data)
        self.tx.feed(data)

    async def drain(self):
        link = self.link
        while True:
            if self.write_lost:
                raise ConnectionResetError('connection reset by peer')
            if not link.backpressure or not self.tx.buf:
                return                    # everything written so far was read by the peer (or is buffered)
            if link.dead or (not self.is_down and link.down_closed):
                raise ConnectionResetError('connection reset by peer')
            await self.tx.wait()          # window of one write: wait until the peer has read it

    def is_closing(self):
        return self.closed

    def close(self):
        if not self.closed:
            self.closed = True
            if self.is_down:
                self.link.down_closed = True
            self.tx.close()
            self.rx.wake()

    async def wait_closed(self):
        return None

    def get_extra_info(self, name, default=None):
        return ('10.0.0.1', 1) if name in ('sockname', 'peername') else default

    # --- reader ---------------------------------------------------------------------------
    async def readexactly(self, n):
        got = []
        while True:
            if self.link.dead:
                raise ConnectionResetError('connection reset by peer')
            while self.rx.buf and len(got) < n:
                d = self.rx.buf[0]
                if isinstance(d, Chunk):
                    raise symex.HarnessError(f'readexactly({n}) met file data')
                t = list(d.b) if isinstance(d, codec.SBytes) else list(bytes(d))
                take = t[:n - len(got)]
                got.extend(take)
                if len(take) == len(t):
                    self.rx.buf.pop(0)
                else:
                    self.rx.buf[0] = type(d)(t[len(take):]) if isinstance(d, codec.SBytes) else bytes(t[len(take):])
                self.rx.wake()
            if len(got) == n:
                return bytes(got) if all(isinstance(x, int) for x in got) and not self.link.c.symbolic else codec.SBytes(got)
            if self.rx.eof:
                raise asyncio.IncompleteReadError(bytes(x for x in got if isinstance(x, int)), n)
            await self.rx.wait()

    async def read(self, n=-1):
        while True:
            if self.link.dead:
                raise ConnectionResetError('connection reset by peer')
            if n == -1:
                self.rx.buf.clear()
                if self.rx.eof:
                    return b''
            elif self.rx.buf:
                return self.link.deliver(self.rx, n)
            elif self.rx.eof:
                return b''
            await self.rx.wait()


class PairNet(FakeNet):
    """Network of one client in the pair: peer messages are handed to the other client's real handlers"""

    def __init__(self, env):
        super().__init__()
        self.env = env
        self.loop = env.loop
        self.other_mgr = None
        self.ctrl_at_other = None      # the P connection object the other client sees
        self.waiting = []              # response futures waiting for a PeerTransferReply
        self.on_file_conn = None

    async def send_peer_messages(self, username, *msgs):
        self.peer_msgs.extend(msgs)
        for m in msgs:
            if isinstance(m, PeerTransferRequest.Request):
                await self.other_mgr._on_peer_transfer_request(m, self.ctrl_at_other)
            elif isinstance(m, PeerUploadFailed.Request):
                await self.other_mgr._on_peer_upload_failed(m, self.ctrl_at_other)
            elif isinstance(m, PeerTransferQueue.Request):
                await self.other_mgr._on_peer_transfer_queue(m, self.ctrl_at_other)
            else:
                raise symex.HarnessError(f'unexpected peer message {m!r}')

    def create_peer_response_future(self, peer, message_class, fields=None):
        fut = self.loop.create_future()
        self.waiting.append((fields, fut))
        return fut

    def incoming_reply(self, conn, msg):
        for fields, fut in self.waiting:
            if not fut.done() and all(getattr(msg, k) == v for k, v in (fields or {}).items()):
                fut.set_result((conn, msg))

    async def create_peer_connection(self, username, typ, **kw):
        return self.on_file_conn()


class _PairCtrl(_Ctrl):
    """P connection between the two clients as the downloader sees it; replies go to the uploader's waiters"""

    def __init__(self, username, peer_net):
        super().__init__()
        self.username = username
        self.peer_net = peer_net

    async def send_message(self, m):
        self.sent.append(m)
        if isinstance(m, PeerTransferReply.Request):
            self.peer_net.incoming_reply(self, m)

    def queue_message(self, m):
        self.sent.append(m)
        if isinstance(m, PeerTransferReply.Request):
            self.peer_net.incoming_reply(self, m)


def h_pair(c, lim='anysize', reads=2, segments=3, cuts=0, pre='fresh', attempts=1, backpressure=True, cut_kind='reset',
           fs_event='kept'):
    """the real downloader against the real uploader.  Control messages are handed to the real
    handlers (_on_peer_transfer_request, _on_peer_upload_failed) directly; the file connection is a
    pipe with symbolic segmentation and (in the first `cuts` attempts) a symbolic cut point; the ticket goes
    through the real _on_peer_initialized / receive_transfer_ticket.  Between attempts the downloader's real
    _get_queued_transfers decides whether it tries again, the real _queue_remotely / _on_peer_transfer_queue
    round trip re-queues the upload, and the harness starts the upload (what manage_transfers does)."""
    from aioslsk.events import PeerInitializedEvent
    with Env(c) as env:
        loop, fs = env.loop, env.fs
        F = c.fresh_int('filesize', 0, U64)
        unet, dnet = PairNet(env), PairNet(env)
        umgr, dmgr = make_manager(env, unet), make_manager(env, dnet)
        umgr._ticket_generator = symbolic_tickets(c, 'u')
        unet.other_mgr, dnet.other_mgr = dmgr, umgr
        dctrl = _PairCtrl('uploader', unet)        # what the downloader sees; its replies go to the uploader
        unet.ctrl_at_other = dctrl
        dnet.ctrl_at_other = _PairCtrl('downloader', dnet)
        up = Transfer('downloader', REMOTE, TransferDirection.UPLOAD)
        up.state_listeners.append(umgr)
        umgr._transfers.append(up)
        up.local_path = UL_PATH
        up.filesize = F
        set_state(up, S.QUEUED)
        down = Transfer('uploader', REMOTE, TransferDirection.DOWNLOAD)
        down.state_listeners.append(dmgr)
        dmgr._transfers.append(down)
        download_prestate(c, fs, down, pre, F)
        for a in range(attempts):
            tag = f'a{a}'
            if a > 0:
                local_file_event(c, fs, fs_event, tag)
            fs.files[UL_PATH] = SourceFile(F, reads)
            link = Link(c, env, tag, a < cuts, segments, backpressure, cut_kind)
            uend = End(link, link.to_up, link.to_down, False)
            dend = End(link, link.to_down, link.to_up, True)
            uconn = make_file_conn(env, unet, uend, uend, ul_lim=make_limiter(c, lim, f'u{a}'))
            dconn = make_file_conn(env, dnet, dend, dend, dl_lim=make_limiter(c, lim, f'd{a}'))
            dconn.connection_state = PeerConnectionState.AWAITING_INIT
            size_before = fs.size(DL_PATH)
            side = []

            def on_file_conn(dconn=dconn, uconn=uconn, side=side):
                # the uploader's F connection reaches the downloader, which waits for the ticket on it
                dconn.connection_state = PeerConnectionState.NEGOTIATING_TRANSFER
                side.append(loop.create_task(dmgr._on_peer_initialized(PeerInitializedEvent(dconn, False))))
                return uconn
            unet.on_file_conn = on_file_conn
            utask = loop.spawn(umgr._initialize_upload(up))
            loop.run_until_quiet(max_time=HORIZON)
            dtask = down._transfer_task
            ds, us = down.state.VALUE, up.state.VALUE
            sig = [lim, ('cut_' + cut_kind) if link.cut is not None else 'nocut', pre if a == 0 else ('retry' if fs_event == 'kept' else 'retry_file_' + fs_event), 'window1' if backpressure else 'buffered']
            c.note('attempt', a, 'down', ds.name, down.fail_reason, 'up', us.name, up.fail_reason, 'dead', link.dead,
                   'errors', repr(task_error(utask)), [repr(task_error(t)) for t in side])
            f = fs.files.get(DL_PATH)
            if ds == S.COMPLETE:
                c.reach('pair_download_complete')
                c.check(f is not None and not fs.removed and not fs.truncated, 'complete_file_present', sig=sig)
                if f is not None:
                    c.check(f.size == F, 'complete_size_is_announced_size', sig=sig)
                    c.check(And(*[pos == ch.src for pos, ch in f.appended]) if f.appended else True,
                            'complete_content_by_position', sig=sig,
                            info='COMPLETE but a chunk read at source offset s by the uploader is stored at another position')
            if link.offset_wire is not None:
                c.reach('pair_offset_sent')
                c.check(link.offset_wire == size_before, 'offset_is_local_size', sig=sig)
            if us == S.COMPLETE:
                c.reach('pair_upload_complete')
                ow = None if isinstance(link.offset_wire, str) else link.offset_wire
                pos = ow if ow is not None else 0
                cont = []
                for ch in link.up_written:
                    cont.append(ch.src == pos)
                    pos = pos + ch.n
                c.check(ow is not None and (And(*cont) if cont else True),
                        'upload_complete_sent_from_offset', sig=sig)
                c.check(pos == F, 'upload_complete_sent_up_to_announced_size', sig=sig)
                c.check(link.down_closed or link.dead, 'upload_complete_peer_closed', sig=sig)
            if link.dead:
                c.reach('pair_cut')
                c.check(break_state_ok(cut_kind, ds, down.fail_reason), 'break_gives_incomplete_or_failed', sig=sig,
                        info=f'download state after the cut: {ds.name}, fail_reason={down.fail_reason!r}')
            if f is not None:
                c.check(f.size == size_before + link.delivered and not fs.removed and not fs.truncated,
                        'received_prefix_kept', sig=sig)
            if ds == S.COMPLETE and us == S.COMPLETE:
                c.reach('pair_both_complete')
            if link.cut is None:
                # no fault in this attempt (and neither bound was hit, or this line is not reached): unless the local
                # file is already larger than the announced size the two clients finish, whatever the sizes are
                c.reach('pair_faultfree_attempt')
                c.check(True if ds == S.COMPLETE else (Not(size_before <= F) if c.symbolic else not (size_before <= F)),
                        'faultfree_attempt_completes_download', sig=sig + [ds.name],
                        info=f'no fault, local size <= announced size, yet the download ended {ds.name} (upload {us.name})')
                c.check(True if us == S.COMPLETE else (Not(size_before <= F) if c.symbolic else not (size_before <= F)),
                        'faultfree_attempt_completes_upload', sig=sig + [us.name],
                        info=f'no fault, local size <= announced size, yet the upload ended {us.name} (download {ds.name})')
            for t in [utask, dtask] + side:
                if t is not None and not t.done():
                    t.cancel()
            loop.run_ready()
            c.check(not fs.concurrent, 'single_writer', sig=sig)
            if ds == S.COMPLETE:
                break
            # -- does the pair try again by itself?  The downloader's real queue selection decides; then the real
            # -- PeerTransferQueue round trip (_queue_remotely -> _on_peer_transfer_queue) re-queues the upload and the
            # -- harness starts it (what manage_transfers does with a free slot)
            again = any(t is down for t in dmgr._get_queued_transfers()[0])
            if link.dead:
                c.check(again, 'download_retried_after_break', sig=sig,
                        info=f'after the connection broke the download is {ds.name} (fail_reason={down.fail_reason!r}, '
                             f'remotely_queued={down.remotely_queued}): it is not picked up again without user action')
            if not again:
                break
            loop.run_until_complete(dmgr._queue_remotely(down))
            if up.state.VALUE != S.QUEUED:
                break
        c.reach('pair_end')


# ------------------------------------------------------------------------------------------
# control messages arriving while an attempt is running
# ------------------------------------------------------------------------------------------

def h_interleave(c, lim='unlimited', pre='fresh', inject_at=0, reoffer=True, reads=2, release='all'):
    """a download attempt A is started through the real _on_peer_transfer_request.  While it is running -- waiting for
    the file connection (inject_at=-1) or after `inject_at` data reads, with the next read still pending on a connection
    that has not failed -- a PeerUploadFailed for the file arrives (real _on_peer_upload_failed) and, with reoffer, the
    uploader offers the file again (real _on_peer_transfer_request, new ticket).  If that starts a second download task it
    gets its own file connection (uploader B) and runs; then the pending read of A is released (more data / EOF / an
    error / silence) and everything runs to quiescence."""
    with Env(c) as env:
        loop, fs = env.loop, env.fs
        net = FakeNet()
        net.loop = loop
        mgr = make_manager(env, net)
        transfer = Transfer('peer', REMOTE, TransferDirection.DOWNLOAD)
        transfer.state_listeners.append(mgr)
        mgr._transfers.append(transfer)
        F = c.fresh_int('filesize', 0, U64)
        download_prestate(c, fs, transfer, pre, F)
        ctrl = _Ctrl()
        started = []                      # download tasks, in the order they were created
        real_init = mgr._initialize_download

        def spy(*a, **kw):
            coro = real_init(*a, **kw)
            started.append(coro)
            return coro
        mgr._initialize_download = spy    # only counts the calls; the real coroutine runs

        def offer(ticket):
            req = PeerTransferRequest.Request(TransferDirection.DOWNLOAD.value, ticket, REMOTE, filesize=F)
            before = len(started)
            loop.run_until_complete(mgr._on_peer_transfer_request(req, ctrl))
            loop.run_ready()
            return transfer._transfer_task if len(started) > before else None

        def inject():
            loop.run_until_complete(mgr._on_peer_upload_failed(PeerUploadFailed.Request(REMOTE), ctrl))
            loop.run_ready()
            c.reach('upload_failed_injected')
            return offer(1001) if reoffer else None

        task_a = offer(1000)
        if task_a is None:
            raise symex.HarnessError('the first offer did not start a download')
        fut_a = mgr._file_connection_futures.get(1000)
        sender_a = Sender(c, env, 'a', reads, 'ok', release, gate_after=inject_at if inject_at >= 0 else None)
        conn_a = make_file_conn(env, net, sender_a, sender_a, dl_lim=make_limiter(c, lim, 'a'))
        task_b = None
        state_at_injection = None
        if inject_at < 0:
            state_at_injection = transfer.state.VALUE
            task_b = inject()
        loop.call(fut_a.set_result, conn_a)
        loop.run_ready()
        if inject_at >= 0 and sender_a.gate is not None and not sender_a.gate.done():
            state_at_injection = transfer.state.VALUE
            task_b = inject()
        sig = [lim, pre, inject_at, 'reoffer' if reoffer else 'no_reoffer']
        sender_b = None
        if task_b is not None:
            # a second download of the same transfer was started
            c.reach('second_task_started')
            c.check(task_a.done(), 'at_most_one_download_task', sig=sig,
                    info=f'a second download task was started (state at injection {state_at_injection.name}) while the first one '
                         f'is still running on its file connection')
            fut_b = mgr._file_connection_futures.get(1001)
            if fut_b is not None and not fut_b.done():
                sender_b = Sender(c, env, 'b', reads, 'ok', 'instant')
                conn_b = make_file_conn(env, net, sender_b, sender_b, dl_lim=make_limiter(c, lim, 'b'))
                loop.call(fut_b.set_result, conn_b)
                loop.run_ready()              # B runs at this instant; A's connection is still silent
        if sender_a.gate is not None and not sender_a.gate.done():
            loop.call(sender_a.gate.set_result, None)
        loop.run_until_quiet(max_time=HORIZON)
        st = transfer.state.VALUE
        sig = sig + [sender_a.fault or 'none']
        c.note('inject_at', inject_at, 'state at injection', state_at_injection and state_at_injection.name, 'second task', task_b is not None,
               'A fault', sender_a.fault, 'B fault', sender_b and sender_b.fault, 'final', st.name, transfer.fail_reason)
        if state_at_injection is not None:
            c.reach('injected_' + state_at_injection.name)
        f = fs.files.get(DL_PATH)
        c.check(not fs.concurrent, 'single_writer', sig=sig,
                info='two tasks had the local file open for appending at the same time')
        now = [ch for _, ch in f.appended] if f is not None else []
        c.check(not fs.removed and not fs.truncated and len(now) == len(fs.handed_log)
                and all(x is y for x, y in zip(now, fs.handed_log)), 'received_prefix_kept', sig=sig,
                info='the local file is not what was there before plus the chunks handed over, once each, in order')
        if st == S.COMPLETE:
            c.reach('interleave_complete')
            c.check(f is not None and not fs.removed and not fs.truncated, 'complete_file_present', sig=sig)
            c.check(fs.size(DL_PATH) == F, 'complete_size_is_announced_size', sig=sig,
                    info='COMPLETE but the local file size differs from the announced size')
            if f is not None:
                c.check(And(*[pos == ch.src for pos, ch in f.appended]) if f.appended else True,
                        'complete_content_by_position', sig=sig,
                        info='COMPLETE but a chunk was stored at a file position different from its source offset')
        else:
            # nothing broke on A (the downloader itself stopped reading) and there was no second attempt: if the whole file
            # is there, the transfer must say so -- a PeerUploadFailed for a healthy attempt must not strand it
            if sender_a.fault is None and sender_b is None and sender_a.offset is not None:
                c.reach('healthy_attempt_not_complete')
                whole = fs.size(DL_PATH) == F
                c.check(Not(whole) if c.symbolic else not whole, 'intact_download_is_complete', sig=sig,
                        info=f'every byte arrived and nothing broke, yet the download is {st.name}')
        if sender_a.fault is not None and sender_b is None:
            c.reach('interleave_break')
            c.check(break_state_ok(sender_a.fault, st, transfer.fail_reason), 'break_gives_incomplete_or_failed', sig=sig,
                    info=f'state after the break: {st.name}, fail_reason={transfer.fail_reason!r}')
        c.reach('interleave_end')


# ------------------------------------------------------------------------------------------
# prelude: the stubs agree with the real thing on concrete inputs
# ------------------------------------------------------------------------------------------

def prelude(tier):
    notes = []
    # 1. IntStruct (engine.codec.StructStub + Int-valued unpack) against struct on boundary values, errors included,
    #    and the exact case of the offset read: a 4-byte format applied to an 8-byte buffer
    import random
    rng = random.Random(4)
    cases = 0
    for fmt in ('<Q', '<I'):
        real, stub = struct.Struct(fmt), IntStruct(fmt)
        hi = 2 ** (8 * real.size) - 1
        for v in [0, 1, 255, 256, 65535, 65536, 2 ** 31, 2 ** 32 - 1, 2 ** 32, 2 ** 32 + 5, 2 ** 63, hi - 1, hi, hi + 1, -1] + \
                 [rng.randrange(hi + 1) for _ in range(50)]:
            cases += 1
            try:
                want = real.pack(v)
            except struct.error:
                want = 'struct.error'
            try:
                got = stub.pack(v).concrete()
            except struct.error:
                got = 'struct.error'
            if want != got:
                raise RuntimeError(f'IntStruct.pack {fmt} {v}: real {want!r} stub {got!r}')
            if want != 'struct.error':
                for buf in (want, want + b'\x07\x00\x00\x01', b'\x00' * 8 if fmt == '<I' else want):
                    if real.unpack_from(buf, 0) != stub.unpack_from(codec.SBytes(list(buf)), 0):
                        raise RuntimeError(f'IntStruct.unpack_from {fmt} {buf!r}')
    for v in [0, 5, 2 ** 32 - 1, 2 ** 32, 2 ** 32 + 5, U64] + [rng.randrange(U64 + 1) for _ in range(50)]:
        cases += 1
        if struct.Struct('<I').unpack_from(struct.pack('<Q', v), 0)[0] != v % 2 ** 32:
            raise RuntimeError('struct semantics changed?')
    notes.append(f'IntStruct == struct.Struct on {cases} pack/unpack cases for <Q and <I (range errors, long buffers included)')
    # 2. the rewrite in bytes_to_int: bv2int(low k bytes of int2bv(v)) == v mod 2^(8k): on concrete values by evaluation,
    #    and for all v by z3 for k = 4 and k = 8
    x = z3.Int('_c04_x')
    terms = [z3.simplify(z3.Extract(8 * i + 7, 8 * i, z3.Int2BV(x, 64))) for i in range(8)]
    for k in (1, 2, 4, 7, 8):
        if _low_bytes_of(terms[:k]) is None:
            raise RuntimeError('byte terms of int2bv not recognised')
        e = bytes_to_int(terms[:k]).e
        for v in [0, 1, 255, 256, 2 ** 32 - 1, 2 ** 32, 2 ** 32 + 5, U64, U64 + 1, -1] + [rng.randrange(U64 + 1) for _ in range(40)]:
            got = z3.simplify(z3.substitute(e, (x, z3.IntVal(v)))).as_long()
            want = int.from_bytes((v % 2 ** 64).to_bytes(8, 'little')[:k], 'little')
            if got != want:
                raise RuntimeError(f'bytes_to_int rewrite wrong for v={v} k={k}: {got} != {want}')
    if _low_bytes_of(terms[1:3]) is not None or _low_bytes_of([terms[1], terms[0]]) is not None:
        raise RuntimeError('byte-term matcher accepts bytes that are not the low bytes in order')
    sol = z3.Solver()
    sol.set('timeout', 30000)
    if sol.check(z3.BV2Int(z3.Concat(*reversed(terms)), False) != x % (1 << 64)) != z3.unsat:
        raise RuntimeError('bv2int(int2bv(v)) == v mod 2^64 not confirmed by z3')
    notes.append('bytes_to_int rewrite bv2int(low k bytes of int2bv(v)) == v mod 2^(8k): exact on 250 values (k=1,2,4,7,8, negative '
                 'and > 2^64 included); k=8 also proved by z3 (z3 cannot decide k<8 within 30 s, which is why the rewrite exists)')
    # 3. with the stubs installed the real uint64 / uint32 code runs on boxes and symbolic bytes
    class _C:
        symbolic = True
    env = Env(_C())
    with env:
        b = primitives.uint64(SInt(x))
        if not isinstance(b, codec.Box) or not isinstance(primitives.uint64(7), primitives.uint64):
            raise RuntimeError('boxed __new__ not in effect')
        if primitives.uint64(2 ** 32 + 5).serialize().concrete() != struct.pack('<Q', 2 ** 32 + 5):
            raise RuntimeError('stubbed uint64.serialize differs from struct')
        if primitives.uint64.deserialize(0, codec.SBytes(list(struct.pack('<Q', 2 ** 32 + 5)))) != (8, 2 ** 32 + 5):
            raise RuntimeError('stubbed uint64.deserialize differs from struct')
        if primitives.uint32.deserialize(0, codec.SBytes(list(struct.pack('<I', 77)))) != (4, 77):
            raise RuntimeError('stubbed uint32.deserialize differs from struct')
    if primitives.uint64.STRUCT.__class__ is not struct.Struct or '__new__' in primitives.uint64.__dict__:
        raise RuntimeError('codec stubs were not removed')
    notes.append('uint64/uint32 with IntStruct + boxed __new__: real serialize/deserialize agree with struct; stubs removed afterwards')
    # in-memory file model against real aiofiles on a scratch directory
    import os
    import tempfile
    import aiofiles
    from aiofiles import os as real_asyncos
    loop = VLoop()

    async def real_fs(d):
        p = os.path.join(d, 'f.bin')
        out = []
        try:
            out.append(await real_asyncos.path.getsize(p))
        except OSError:
            out.append('OSError')
        async with aiofiles.open(p, mode='ab') as h:
            await h.write(b'abc')
        async with aiofiles.open(p, mode='ab') as h:
            await h.write(b'de')
        out.append(await real_asyncos.path.getsize(p))
        async with aiofiles.open(p, mode='rb') as h:
            await h.seek(3)
            out.append(len(await h.read(8192)))
            out.append(len(await h.read(8192)))
            await h.seek(9)
            out.append(len(await h.read(128)))
        try:
            async with aiofiles.open(os.path.join(d, 'nope'), mode='rb') as h:
                pass
        except OSError:
            out.append('OSError')
        return out

    async def model_fs():
        fs = FS()
        p = DL_PATH
        out = []
        try:
            out.append(await fs.asyncos.path.getsize(p))
        except OSError:
            out.append('OSError')
        async with fs.aiofiles.open(p, mode='ab') as h:
            await h.write(Chunk(0, 3))
        async with fs.aiofiles.open(p, mode='ab') as h:
            await h.write(Chunk(3, 2))
        out.append(await fs.asyncos.path.getsize(p))
        fs.files['src'] = SourceFile(5, 10)
        async with fs.aiofiles.open('src', mode='rb') as h:
            await h.seek(3)
            out.append(len(await h.read(8192)))
            out.append(len(await h.read(8192)))
            await h.seek(9)
            out.append(len(await h.read(128)))
        try:
            async with fs.aiofiles.open('nope', mode='rb') as h:
                pass
        except OSError:
            out.append('OSError')
        return out

    with tempfile.TemporaryDirectory() as d:
        a = loop.run_until_complete(real_fs(d))
    b = loop.run_until_complete(model_fs())
    if a != b:
        raise RuntimeError(f'file model disagrees with aiofiles: real {a} model {b}')
    notes.append(f'file model == aiofiles on append/getsize/seek/read/missing: {a}')
    return notes


# ------------------------------------------------------------------------------------------

META = {
    'level': 'other',
    'technique': 'symbolic execution of the real download/upload kernels on z3 Int proxies (sizes, offsets, chunk lengths, cut '
                 'point); file content tracked by position (Chunk(src, n)); obligations decided by z3 per path; fault kinds and '
                 'number of reads enumerated on a virtual event loop',
    'explanation': 'TransferManager._initialize_download/_calculate_offset/_download_file/_initialize_upload/_upload_file, '
                   'PeerConnection.receive_file/receive_data/_read/send_file/send_data/_send/send_message/receive_transfer_offset/'
                   'receive_until_eof/disconnect, Transfer._transfer_progress_callback/is_transfered and the real state classes run on '
                   'a virtual-time loop against a scripted remote peer (and, in the pair harness, against each other). The announced '
                   'file size (0..2^64-1), the size of the local file before each attempt, the offset that goes over the wire through '
                   'the real uint64 serialize/deserialize, the number of bytes every read returns, the tokens per limiter grant, the '
                   'actual size of the uploaded file and the cut point are z3 integers: a path covers every combination of values '
                   'with the same branch pattern and z3 decides "COMPLETE => local size == announced size and every chunk sits at its '
                   'source offset", "offset on the wire == local size", "received prefix kept", "upload COMPLETE => bytes sent are '
                   'exactly [offset, announced size)". How a read/write ends (data/EOF/reset/silence), the number of reads, the '
                   'limiter kind and the pre-state of the transfer are enumerated.',
    'functions': [TransferManager._initialize_download, TransferManager._calculate_offset, TransferManager._download_file,
                  TransferManager._prepare_download_path, TransferManager._initialize_upload, TransferManager._upload_file,
                  PeerConnection.receive_file, PeerConnection.receive_data, PeerConnection._read, PeerConnection.send_file,
                  PeerConnection.send_data, PeerConnection._send, PeerConnection.send_message, PeerConnection.receive_transfer_offset,
                  PeerConnection.receive_until_eof, PeerConnection.disconnect, PeerConnection.set_connection_state,
                  Transfer._transfer_progress_callback, Transfer.is_transfered, Transfer.add_speed_log_entry,
                  primitives.uint64.serialize, primitives.uint64.deserialize, primitives.uint32.serialize, primitives.uint32.deserialize,
                  PeerConnection.receive_transfer_ticket, TransferManager._on_peer_initialized, TransferManager._on_peer_transfer_request,
                  TransferManager._on_peer_upload_failed, TransferManager._on_peer_transfer_queue, TransferManager._queue_remotely,
                  TransferManager._get_queued_transfers,
                  state_mod.InitializingState.start_transferring, state_mod.DownloadingState.complete,
                  state_mod.DownloadingState.incomplete, state_mod.DownloadingState.fail, state_mod.UploadingState.complete,
                  state_mod.UploadingState.fail, state_mod.IncompleteState.initialize, state_mod.FailedState.queue,
                  UnlimitedRateLimiter.take_tokens, LimitedRateLimiter.take_tokens],
    'stubs': ['connection.len / model.len -> xlen (length of a Chunk is its symbolic n; builtin len otherwise)',
              'uint8/uint16/uint32/uint64/int32 of aioslsk.protocol.primitives (engine/codec.py): STRUCT -> IntStruct, a subclass of '
              'engine.codec.StructStub (pure-Python little-endian pack with CPython range errors to BV8 byte terms; unpack returns the '
              'integer as an Int-theory value), __new__ -> engine.codec boxed constructor (uint64(v) with symbolic v is a box whose '
              'serialize/deserialize are the real functions of the class). The offset and the ticket are SBytes of 8 / 4 BV8 terms on '
              'the fake wire; validated against struct in the prelude',
              'bytes_to_int rewrite: bv2int(low k bytes of int2bv(v)) == v mod 2^(8k) (validated in the prelude)',
              'TransferManager._file_connection_futures (dict) -> TicketMap (lookup by forking equality, so the ticket may be symbolic); '
              'TransferManager._ticket_generator -> any ticket 1..2^32-1, pairwise distinct (upload / pair)',
              'manager.int -> symex.sym_int (upload speed report only)',
              'manager.aiofiles / manager.asyncos / state.asyncos -> in-memory file system (download target: append-only list of '
              '(position, Chunk); upload source: size, read(n) = min(n, size-pos)); validated against aiofiles in the prelude',
              'model.time / rate_limiter.time -> virtual loop clock',
              'asyncio streams -> scripted reader/writer (Sender / Receiver / Link)',
              'Network -> FakeNet / PairNet (records messages, hands out the scripted reply and file connection)',
              'SharesManager -> calculate_download_path returns a fixed non-existing path, create_directory no-op, find_shared_item finds it',
              'Settings -> nobody blocked, no friends; UserManager.get_user_object -> every user ONLINE',
              'TransferManager built with object.__new__ and the attributes the kernels touch',
              'limiter kind "anysize": take_tokens returns a fresh symbolic 1..2^62 (superset of the two real limiters, which are '
              'also run)'],
    'data_variables': ['announced filesize 0..2^64-1', 'local file size before the attempt 0..2^64-1',
                       'progress counter Transfer.bytes_transfered before the first attempt 0..2^64-1 (as restored from the cache; '
                       'independent of the file system)', 'size of the file that replaces the partial file between attempts 0..2^64-1',
                       'the 8 offset bytes on the wire (BV8 terms; real uint64.serialize on the download side, real '
                       'receive_transfer_offset / uint64.deserialize on the upload side)',
                       'transfer ticket 1..2^32-1 and its 4 bytes on the wire (real uint32.serialize / receive_transfer_ticket)', 'length of every chunk returned by a read (1..asked)',
                       'tokens per limiter grant (anysize: 1..2^62)', 'actual size of the uploaded file on disk 0..2^64-1',
                       'negotiated offset received by the uploader 0..2^64-1', 'cut point of the file stream (pair harness) 0..2^64-1',
                       'TCP segment lengths (pair harness)'],
    'discriminants': ['how each read ends: data / EOF / ConnectionResetError / ConnectionAbortedError / BrokenPipeError / OSError(EHOSTUNREACH) '
                      '/ TimeoutError(ETIMEDOUT) / silence (aioslsk read time-out)',
                      'how the offset write and each file write end: ok / the same five exception classes / hang (write time-out)',
                      'interleave: point at which PeerUploadFailed arrives (waiting for the file connection, after 0..3 data reads with the '
                      'next read pending), whether the uploader offers again, how the pending read of the old connection ends',
                      'pair: exception class both ends see at the cut', 'how the uploader\'s wait-for-close ends: EOF / reset / junk then EOF / never',
                      'how the read of the offset ends on the uploader: ok / EOF / partial', 'number of data reads per attempt',
                      'number of attempts (1..3)', 'limiter: unlimited / limited(1 KiB/s) / anysize',
                      'pre-state: fresh / incomplete / requeued / local path set but file gone (QUEUED: missing, INCOMPLETE: lost)',
                      'what happens to the partial file between two attempts: kept / removed / replaced by a file of another (symbolic) size',
                      'pair: number of attempts that are cut (0..2), window of one write vs. unbounded buffering, whole write / piece per segment'],
    'bounds': {'quick': {'download': 'data reads per attempt <= 3 (1 attempt), <= 2 (2 attempts)', 'upload': 'file reads <= 3',
                         'pair': 'uploader file reads <= 2, TCP segments <= 3 per attempt, 1 attempt or cut + retry'},
               'thorough': {'download': 'data reads per attempt <= 6 (1 attempt), <= 4 (2 attempts), <= 2 (3 attempts)',
                            'upload': 'file reads <= 6',
                            'pair': 'uploader file reads <= 3, TCP segments <= 4 per attempt, 1 attempt or cut + retry; '
                                    'reads <= 2, segments <= 2 for cut + cut + retry'},
               'note': 'chunk and segment lengths are unbounded under the anysize limiter, so these bounds limit loop iterations, '
                       'not file sizes; paths that need more iterations are cut and counted in bound_hits'},
    'outside': ['the liveness sentence ("once faults stop the pair finishes without user action") beyond one bounded clause: a '
                'fault-free attempt within the iteration bounds with local size <= announced size ends COMPLETE on both clients '
                '(pair harness, labels faultfree_attempt_completes_*); queue management, PeerTransferQueue round trips and retry '
                'timing are not run',
                'delivery orders of control messages other than: request, reply, file connection, ticket, offset (pair) and a '
                'PeerUploadFailed (+ new PeerTransferRequest) arriving at enumerated points of a running attempt (interleave)',
                'real sockets / aiofiles threads / a concurrently modified local file / disk errors',
                'content dishonesty (a sender that sends other bytes than the file has at that offset cannot be detected by the protocol)',
                'a remote file that changes between two attempts', 'a PeerTransferRequest without filesize',
                'abort / pause / removal during the transfer (C03, C06)', 'choice of the download path (C09)'],
    'assumptions': ['bytes already in the local file before the first attempt (or in a file that replaced it) are a prefix of the remote '
                    'file (induction hypothesis); the oracle for the offset is the file system at the moment of the attempt, never the transfer object',
                    'the local file is only written by this transfer', 'asyncio / async_timeout semantics of CPython 3.12'],
}


def jobs(tier):
    q = tier == 'quick'
    out = []
    K = 3 if q else 6
    dl_req = ['offset_sent', 'download_complete', 'break_eof', 'break_reset', 'break_hang', 'download_end']
    all_req = dl_req + ['break_aborted', 'break_pipe', 'break_oserror', 'break_timedout']
    # one download attempt from every pre-state, every limiter; every way a socket read can fail
    for lim in ('unlimited', 'limited', 'anysize'):
        for pre in ('fresh', 'incomplete', 'requeued', 'missing', 'lost'):
            full = (not q) or lim == 'unlimited' or pre == 'incomplete'
            out.append({'harness': 'download', 'fn': h_download,
                        'params': {'lim': lim, 'reads': K if not full else min(K, 4), 'attempts': 1, 'pre': pre,
                                   'faults': 'all' if full else 'basic'},
                        'requires': all_req if full else dl_req})
    # the connection breaks while the offset is being sent (every error class), then a retry
    for of in WRITE_FAULTS['all']:
        for pre in ('fresh', 'incomplete'):
            if q and pre == 'incomplete' and of not in ('reset', 'hang'):
                continue
            out.append({'harness': 'download', 'fn': h_download,
                        'params': {'lim': 'unlimited', 'reads': 1, 'attempts': 2, 'pre': pre, 'offset_fault': of},
                        'requires': ['break_offset_' + of, 'download_end']})
    # repeated faults before success: resume after resume
    for lim in (('anysize',) if q else ('anysize', 'unlimited', 'limited')):
        for pre in ('fresh', 'incomplete'):
            out.append({'harness': 'download', 'fn': h_download,
                        'params': {'lim': lim, 'reads': 2 if q else 4, 'attempts': 2, 'pre': pre}, 'requires': dl_req})
            if not q:
                out.append({'harness': 'download', 'fn': h_download,
                            'params': {'lim': lim, 'reads': 2, 'attempts': 2, 'pre': pre, 'faults': 'all'}, 'requires': all_req})
                out.append({'harness': 'download', 'fn': h_download,
                            'params': {'lim': lim, 'reads': 2, 'attempts': 3, 'pre': pre}, 'requires': dl_req})
    # the partial file is removed / replaced by one of another size behind the client's back between two attempts
    for ev in ('removed', 'resized'):
        for pre in ('fresh', 'incomplete'):
            for lim in (('anysize',) if q else ('anysize', 'unlimited')):
                out.append({'harness': 'download', 'fn': h_download,
                            'params': {'lim': lim, 'reads': 2 if q else 3, 'attempts': 2, 'pre': pre, 'fs_event': ev},
                            'requires': dl_req + ['local_file_' + ev]})
    # one upload attempt against a scripted downloader
    for lim in ('unlimited', 'limited', 'anysize'):
        wf = 'all' if (lim == 'unlimited' or not q) else 'basic'
        out.append({'harness': 'upload', 'fn': h_upload, 'params': {'lim': lim, 'reads': K if wf == 'basic' else min(K, 4), 'write_faults': wf},
                    'requires': ['ticket_sent', 'upload_complete', 'upload_break', 'upload_end']})
    for orr in ('eof', 'partial', 'reset', 'oserror', 'timedout'):
        out.append({'harness': 'upload', 'fn': h_upload, 'params': {'lim': 'unlimited', 'reads': 1, 'offset_read': orr},
                    'requires': ['upload_break', 'upload_end']})
    # the two real clients against each other
    R, SEG = (2, 3) if q else (3, 4)
    cut_req = ['pair_offset_sent', 'pair_cut', 'pair_download_complete', 'pair_end']
    for lim in ('anysize', 'unlimited', 'limited'):
        for pre in ('fresh', 'incomplete'):
            for bp in (True, False):
                if q and lim != 'anysize' and (not bp or pre != 'fresh'):
                    continue
                out.append({'harness': 'pair', 'fn': h_pair,
                            'params': {'lim': lim, 'reads': R, 'segments': SEG, 'cuts': 0, 'pre': pre, 'attempts': 1,
                                       'backpressure': bp},
                            'requires': ['pair_offset_sent', 'pair_both_complete', 'pair_faultfree_attempt', 'pair_end']})
                out.append({'harness': 'pair', 'fn': h_pair,
                            'params': {'lim': lim, 'reads': R, 'segments': SEG, 'cuts': 1, 'pre': pre, 'attempts': 2,
                                       'backpressure': bp}, 'requires': cut_req})
    # the local file is gone although the transfer counted bytes (first attempt), or disappears / changes size between attempts
    for lim in (('anysize',) if q else ('anysize', 'unlimited')):
        for bp in ((True,) if q else (True, False)):
            out.append({'harness': 'pair', 'fn': h_pair,
                        'params': {'lim': lim, 'reads': R, 'segments': SEG, 'cuts': 0, 'pre': 'lost', 'attempts': 1, 'backpressure': bp},
                        'requires': ['pair_offset_sent', 'pair_both_complete', 'pair_faultfree_attempt', 'pair_end']})
            for ev in ('removed', 'resized'):
                out.append({'harness': 'pair', 'fn': h_pair,
                            'params': {'lim': lim, 'reads': 2, 'segments': 2 if q else 3, 'cuts': 1, 'pre': 'fresh' if ev == 'removed' else 'incomplete',
                                       'attempts': 2, 'backpressure': bp, 'fs_event': ev},
                            'requires': cut_req + ['local_file_' + ev]})
    # the cut seen as each of the other error classes (then the retry)
    for kind in ('aborted', 'pipe', 'oserror', 'timedout'):
        for bp in ((True,) if q else (True, False)):
            out.append({'harness': 'pair', 'fn': h_pair,
                        'params': {'lim': 'anysize' if not q else 'unlimited', 'reads': 2, 'segments': 2 if q else 3, 'cuts': 1,
                                   'pre': 'fresh', 'attempts': 2, 'backpressure': bp, 'cut_kind': kind}, 'requires': cut_req})
    if not q:
        for bp in (True, False):
            out.append({'harness': 'pair', 'fn': h_pair,
                        'params': {'lim': 'anysize', 'reads': 2, 'segments': 2, 'cuts': 2, 'pre': 'fresh', 'attempts': 3,
                                   'backpressure': bp}, 'requires': cut_req})
    # PeerUploadFailed (and a new offer) arriving while an attempt is running
    for inject_at in ((-1, 0, 1, 2) if q else (-1, 0, 1, 2, 3)):
        for reoffer in (True, False):
            for pre in ('fresh', 'incomplete'):
                for lim in (('unlimited',) if q else ('unlimited', 'anysize')):
                    out.append({'harness': 'interleave', 'fn': h_interleave,
                                'params': {'lim': lim, 'pre': pre, 'inject_at': inject_at, 'reoffer': reoffer,
                                           'reads': max(2, inject_at + 1) if q else max(3, inject_at + 1),
                                           'release': 'basic' if q else 'all'},
                                'requires': ['upload_failed_injected', 'interleave_complete', 'interleave_end']
                                + ([] if reoffer else ['interleave_break'])
                                + (['injected_INITIALIZING'] if inject_at < 0 else ['injected_DOWNLOADING'])})
    return out
