"""C07 (matching half): a search over the shares returns exactly the files that match the query.

The real SearchQuery.parse / matchers_iter, create_term_pattern, normalize_remote_path,
SharedItem.get_query_path, SharesManager.rebuild_term_map / _build_term_map / _add_item_to_term_map /
_cleanup_term_map / query run natively on file names (and, in some jobs, query terms) whose characters
are z3 bit-vectors over a finite alphabet (engine/sstr.py), with `re` replaced by the formula compiler
of engine/reshim.py (the real pattern text, parsed by CPython's own regex parser) and max_results a
symbolic integer.  On every path the returned item list is compared, by z3 over ALL characters of the
path, with a short whole-word reference written here; a refuting model is replayed with plain strings
against the unstubbed code (real `re`, real dict hashing).

Second sentence of the property, as far as names decide it: is_parent_of / is_child_of / _get_parent_directories /
_get_child_directories against a component-wise reference on symbolic paths (h_contains), and the real
add_shared_directory / scan_directory / scan_directory_files / remove_shared_directory / get_stats over an in-memory
directory tree (engine/symos.py: os.walk, commonpath, relpath on symbolic strings) whose directory names are
symbolic: every file is held by exactly one shared directory, the innermost one, and the reported counts equal the
index (h_index).  Replays build the tree in a real temporary directory and use the real os.walk."""
from __future__ import annotations

import itertools
import re

from engine import symex, sstr, reshim, symos
from engine.sstr import SStr

import aioslsk.constants as CONST
import aioslsk.search.model as QM
import aioslsk.shares.manager as SM
import aioslsk.shares.model as MD
import aioslsk.shares.utils as SU
from aioslsk.events import EventBus
from aioslsk.settings import Settings

PROPERTY = 'C07'

# Σ: the classes named by the property -- cased ASCII letters, a cased accented pair, a digit, one CJK
# character (8 word characters) and the separators  _ - . blank ( ) [ ] ' &  (10 non-word characters).
# Closed under lower()/upper(), every case mapping is 1:1 (validated in prelude).
SIGMA = ['a', 'A', 'b', 'B', 'é', 'É', '1', '中', '_', '-', '.', ' ', '(', ')', '[', ']', "'", '&']
WORD_CHARS = ''.join(ch for ch in SIGMA if ch.isalnum())
_MISSING = object()

# shared directories of the fixture: (directory, absolute path, alias).  Their own names are not part of
# the searchable path.
DIRS = [('/srv/share0', '/srv/share0', 'al0'), ('/srv/share1', '/srv/share1', 'al1')]

# layouts: for every file (shared directory index, sub-directory below it).  Sub-directory words take
# part in the term map and in the query path.
LAYOUTS = {
    'flat': [(0, ''), (0, ''), (0, ''), (0, '')],
    'sub': [(0, 'ab'), (0, ''), (0, 'ab'), (0, 'b')],
    'deep': [(0, 'b/1 a'), (0, 'b'), (0, 'a-b'), (0, '')],
    'two': [(0, ''), (1, ''), (1, 'a'), (0, 'a')],
}


# ------------------------------------------------------------------------------
# environment
# ------------------------------------------------------------------------------

# Module-level mutable state of the modules under test (a memo dict, an lru_cache a refactoring may add): every
# path must start from the state of a freshly started process, otherwise values (and proxies) of one path leak
# into the next one and re-execution is no longer deterministic.  Pristine copies are taken at import time.
def modules_under_test():
    """every loaded module of aioslsk.shares.* plus aioslsk.search.model"""
    import sys
    return [m for n, m in sorted(sys.modules.items())
            if m is not None and (n == 'aioslsk.shares' or n.startswith('aioslsk.shares.') or n == 'aioslsk.search.model')]


_PRISTINE = {}
for _m in modules_under_test():
    for _n, _v in list(_m.__dict__.items()):
        if not _n.startswith('__') and type(_v) in (dict, list, set):
            _PRISTINE[(_m.__name__, _n)] = (_v, type(_v)(_v))


def _caches_of(owner_dict):
    """objects with cache_clear() (functools.cache / lru_cache wrappers) among the values of a module or class
    dict, looking through staticmethod / classmethod / property / cached-function attributes"""
    for v in list(owner_dict.values()):
        cands = [v, getattr(v, '__func__', None), getattr(v, 'fget', None), getattr(v, 'fset', None), getattr(v, 'func', None),
                 getattr(v, '__wrapped__', None)]
        for f in cands:
            if f is not None and callable(getattr(f, 'cache_clear', None)) and not isinstance(f, type):
                yield f


def reset_module_state():
    """every path (and replay) starts like a freshly started process: module-level containers back to their
    import-time content, every functools cache reachable from the module dicts and the class dicts of the modules
    under test emptied.  A memo introduced by a change would otherwise keep objects (and proxies) of one path alive
    in the next one: its keys have constant hashes and forking ==, which breaks deterministic re-execution."""
    for obj, snap in _PRISTINE.values():
        obj.clear()                 # no comparison with the old content: it may hold proxies of the previous path
        (obj.update if type(obj) in (dict, set) else obj.extend)(snap)
    n = 0
    for m in modules_under_test():
        for name, v in list(m.__dict__.items()):
            if type(v) in (dict, list, set) and not name.startswith('__') and (m.__name__, name) not in _PRISTINE:
                v.clear()           # a container created after import (by a function of the module)
        for f in _caches_of(m.__dict__):
            f.cache_clear()
            n += 1
        for v in list(m.__dict__.values()):
            if isinstance(v, type) and getattr(v, '__module__', None) == m.__name__:
                for f in _caches_of(vars(v)):
                    f.cache_clear()
                    n += 1
    return n


def _isinstance(obj, cls):
    """builtins.isinstance for which a symbolic string is a str"""
    if isinstance(obj, SStr) and (cls is str or (isinstance(cls, tuple) and str in cls)):
        return True
    return isinstance(obj, cls)


def S(x):
    """a concrete string as an SStr (same characters): every path-like string the code can compare or combine with a
    symbolic one must be an SStr as well -- a method of a plain `str` called with an SStr argument ('' .startswith(sym))
    is C code and cannot be intercepted"""
    return reshim.const(x) if isinstance(x, str) else x


def _lost(c):
    return c.__dict__.get('_c07_lost_error')


def _wide_index(v):
    """SInt.__index__ / __int__ while Env is active: sound concretisation by forking over every feasible value, for up
    to 128 values (max_results has 100; symex's default is 64).  C callers such as itertools.islice or slice.indices
    replace ANY exception of __index__ by their own ValueError / TypeError: an engine error raised here is remembered
    on the context so that it cannot come back disguised as an exception of the code under test."""
    c = symex.ctx()
    try:
        return c.concretize(v, limit=128)
    except symex.HarnessError as e:
        c.__dict__['_c07_lost_error'] = e
        raise


def sym_islice(iterable, *args):
    """itertools.islice whose stop may be symbolic: like the C implementation it asks `taken < stop` before it fetches
    the next element -- one fork per element instead of one path per value of stop"""
    import itertools as _it
    if not any(isinstance(a, symex.SInt) for a in args):
        return _it.islice(iterable, *args)
    if len(args) == 1:
        start, stop, step = 0, args[0], 1
    else:
        start, stop, step = (list(args) + [1])[:3]
        start, step = (0 if start is None else start), (1 if step is None else step)
    if isinstance(start, symex.SInt) or isinstance(step, symex.SInt) or stop is None:
        return _it.islice(iterable, *args)          # concretises through __index__

    def gen():
        it = iter(iterable)
        i, nxt = 0, start
        while True:
            if not bool(nxt < stop):                # forks
                return
            try:
                x = next(it)
            except StopIteration:
                return
            if i == nxt:
                yield x
                nxt += step
            i += 1
    return gen()


class _ItertoolsShim:
    def __getattr__(self, name):
        import itertools as _it
        return getattr(_it, name)

    islice = staticmethod(sym_islice)


class Env:
    """symbolic runs only: `re` -> reshim.ReShim and `os` -> symos.OsShim (os.path.* and os.walk on symbolic
    strings over an in-memory tree) in the globals of the four modules under test; engine/sstr.py keeps every
    derived string an SStr."""

    def __init__(self, c, fs=None):
        self.c = c
        self.fs = fs
        self.saved = []
        self.keep = None

    def _set(self, mod, name, value):
        self.saved.append((mod, name, mod.__dict__.get(name, _MISSING)))
        mod.__dict__[name] = value

    def __enter__(self):
        reset_module_state()
        if self.c.symbolic:
            import os as real_os
            shim_re = reshim.ReShim()
            shim_os = symos.OsShim(self.fs if self.fs is not None else sstr.SymFS())
            for mod in (SM, SU, MD, QM):
                if mod.__dict__.get('re') is re:
                    self._set(mod, 're', shim_re)
                if mod.__dict__.get('os') is real_os:
                    self._set(mod, 'os', shim_os)
            # os.sep & co. as SStr: `subdir + os.sep`, `os.sep.join(parts)` with symbolic operands
            for holder in (shim_os, shim_os.path):
                holder.sep, holder.curdir, holder.pardir, holder.extsep = S('/'), S('.'), S('..'), S('.')
            import itertools as real_itertools
            for mod in modules_under_test():
                if mod.__dict__.get('islice') is real_itertools.islice:
                    self._set(mod, 'islice', sym_islice)
                if mod.__dict__.get('itertools') is real_itertools:
                    self._set(mod, 'itertools', _ItertoolsShim())
            for mod in (SM, MD):
                self._set(mod, 'isinstance', _isinstance)        # SStr is not a subclass of str
            self.keep = reshim.keep_sstr().__enter__()
            self.saved_sint = (symex.SInt.__index__, symex.SInt.__int__)
            symex.SInt.__index__ = _wide_index
            symex.SInt.__int__ = _wide_index
        return self

    def __exit__(self, exc_type, exc, tb):
        if self.keep is not None:
            self.keep.__exit__()
            self.keep = None
            symex.SInt.__index__, symex.SInt.__int__ = self.saved_sint
        for mod, name, old in reversed(self.saved):
            if old is _MISSING:
                mod.__dict__.pop(name, None)
            else:
                mod.__dict__[name] = old
        if self.c.symbolic and _lost(self.c) is not None and (exc_type is None or not issubclass(exc_type, (symex.EngineSignal, symex.HarnessError))):
            raise symex.HarnessError(f'an engine error was swallowed by C code of the code under test: {_lost(self.c)}')


# ------------------------------------------------------------------------------
# inputs
# ------------------------------------------------------------------------------

def build(c, base: str, tpl: str):
    """template -> string.  '~' any character of Σ, '#' any word character of Σ, '?' any non-blank character
    of Σ, everything else a literal.  Symbolic run: always an SStr (also when every character is a literal);
    concrete replay: the plain str given by the model."""
    parts = []
    for i, t in enumerate(tpl):
        if t == '~':
            parts.append(sstr.fresh_str(c, f'{base}{i}', 1))
        elif t == '#':
            parts.append(sstr.fresh_str(c, f'{base}{i}', 1, only=WORD_CHARS))
        elif t == '?':
            parts.append(sstr.fresh_str(c, f'{base}{i}', 1, exclude=' '))
        else:
            parts.append(t)
    if not c.symbolic:
        return ''.join(parts)
    cs = []
    for p in parts:
        cs.extend(p.cs if isinstance(p, SStr) else tuple(p))
    return SStr(tuple(cs))


def chars_of(x):
    return tuple(x) if isinstance(x, str) else x.cs


# ------------------------------------------------------------------------------
# the reference: whole-word matching, written directly over characters.  Runs on plain characters
# (Python bools) and on symbolic ones (z3 Bools); never forks.
# ------------------------------------------------------------------------------

_and, _or, _not = sstr._and, sstr._or, sstr._not


def r_alnum(ch):
    """a letter or a digit (what a word is made of; '_' and punctuation delimit words)"""
    return sstr.ch_in(ch, 'c07-alnum', str.isalnum)


def r_is(ch, lit):
    return sstr.ch_eq(ch, lit)


def r_ci_eq(a, b):
    """the two characters are equal up to case"""
    if isinstance(a, str) and isinstance(b, str):
        return a.lower() == b.lower()
    if isinstance(a, str):
        a, b = b, a
    if isinstance(b, str):
        lo = b.lower()
        return sstr.ch_in(a, ('c07-ci', lo), lambda ch: ch.lower() == lo)
    return sstr.ch_eq(reshim._ch_case_cached(a, 'lower'), reshim._ch_case_cached(b, 'lower'))


def r_contains(path, term, wildcard=False):
    """`term` occurs in `path` case-insensitively as whole word(s): not preceded and not followed by a letter
    or digit.  wildcard: the occurrence may be preceded by letters/digits, and that run is not preceded by
    a letter or digit (the term is the end of a word)."""
    n, m = len(path), len(term)
    alts = []
    for i in range(n - m + 1):
        occ = _and(r_ci_eq(path[i + k], term[k]) for k in range(m))
        if occ is False:
            continue
        right = True if i + m == n else _not(r_alnum(path[i + m]))
        if not wildcard:
            left = True if i == 0 else _not(r_alnum(path[i - 1]))
        else:
            starts = []
            for j in range(i, -1, -1):
                run = _and(r_alnum(path[k]) for k in range(j, i))
                if run is False:
                    break
                starts.append(_and([run, True if j == 0 else _not(r_alnum(path[j - 1]))]))
            left = _or(starts)
        alts.append(_and([occ, left, right]))
    return _or(alts)


def r_query(tokens, path):
    """-> (matches, has_inclusion_term).  tokens: whitespace separated terms of the query (character
    tuples).  A term without any letter/digit is ignored; '*x' = wildcard term x, '-x' = exclude term x."""
    conds, incl = [], []
    for t in tokens:
        valid = _or(r_alnum(ch) for ch in t)
        if valid is False:
            continue
        is_w, is_x = r_is(t[0], '*'), r_is(t[0], '-')
        rest = t[1:]
        as_w = r_contains(path, rest, True) if is_w is not False else False
        as_x = _not(r_contains(path, rest, False)) if is_x is not False else False
        as_i = r_contains(path, t, False) if (is_w is not True and is_x is not True) else False
        if is_w is True:
            m = as_w
        elif is_x is True:
            m = as_x
        else:
            m = _or([_and([is_w, as_w]), _and([is_x, as_x]), _and([_not(is_w), _not(is_x), as_i])])
        conds.append(_or([_not(valid), m]))
        incl.append(_and([valid, _not(is_x)]))
    return _and(conds), _or(incl)


_REF_CACHE: dict = {}


def r_query_cached(tokens, path):
    """r_query; the formula for the same z3 characters (same variable names on every path of a job) is built
    once per process.  The cached value keeps the characters alive, so the AST ids in the key stay valid."""
    def key(cs):
        return tuple(ch if isinstance(ch, str) else ch.get_id() for ch in cs)
    if all(isinstance(ch, str) for t in tokens for ch in t) and all(isinstance(ch, str) for ch in path):
        return r_query(tokens, path)
    k = (tuple(key(t) for t in tokens), key(path))
    hit = _REF_CACHE.get(k)
    if hit is None:
        if len(_REF_CACHE) > 20000:
            _REF_CACHE.clear()
        hit = _REF_CACHE[k] = (tokens, path, r_query(tokens, path))
    return hit[2]


def ref_path(subdir: str, name):
    """the searchable path of a file: sub-directory components and file name joined by a backslash"""
    pre = tuple('\\'.join(p for p in subdir.split('/') if p))
    return (pre + ('\\',) if pre else ()) + chars_of(name)


def query_tokens(query_tpl: str, query):
    """the whitespace separated terms of the query.  Template placeholders are never blanks, so the shape
    is that of the template."""
    cs = chars_of(query)
    assert len(cs) == len(query_tpl)
    toks, cur = [], []
    for t, ch in zip(query_tpl, cs):
        if t.isspace():
            if cur:
                toks.append(tuple(cur))
            cur = []
        else:
            cur.append(ch)
    if cur:
        toks.append(tuple(cur))
    return toks


def query_kinds(query_tpl: str) -> str:
    """finite discriminant for signatures: which kinds of terms the query template has"""
    kinds = set()
    for t in query_tpl.split():
        kinds.add({'*': 'W', '-': 'X', '?': 'S'}.get(t[0], 'I'))
    return ''.join(sorted(kinds))


# ------------------------------------------------------------------------------
# fixture
# ------------------------------------------------------------------------------

def make_manager(c, names, layout, mx, fill=True, mtimes=None):
    settings = Settings(credentials={'username': 'u', 'password': 'p'})
    if c.symbolic:
        # a pydantic field validates on assignment; the symbolic integer is put where the field lives
        settings.searches.receive.__dict__['max_results'] = mx
    else:
        settings.searches.receive.max_results = mx
    sm = SM.SharesManager(settings, EventBus(), None)
    w = S if c.symbolic else (lambda x: x)
    dirs = [MD.SharedDirectory(*[w(x) for x in d]) for d in DIRS]
    items = []
    if fill:
        for i, name in enumerate(names):
            di, sub = LAYOUTS[layout][i]
            item = MD.SharedItem(dirs[di], w(sub), name, mtimes[i] if mtimes else 1.0)
            dirs[di].items.add(item)
            items.append(item)
    sm._shared_directories = [d for d in dirs]
    return sm, dirs, items


class Disk:
    """what is on disk under the shared directories: the harness's listing.  `scan_directory` (os.walk +
    getmtime) is replaced, in symbolic runs and in replays alike, by a function that returns one SharedItem
    per listed file; everything after it (set reconciliation in scan_directory_files, term map building and
    clean-up) is the real code, run on the virtual loop."""

    def __init__(self, c, sm, dirs, names, layout):
        self.c, self.sm, self.dirs, self.names, self.layout = c, sm, dirs, names, layout
        self.present = {}          # file index -> mtime
        self.saved = _MISSING

    def __enter__(self):
        self.saved = SM.__dict__.get('scan_directory', _MISSING)
        SM.__dict__['scan_directory'] = self.scan_directory
        return self

    def __exit__(self, *a):
        if self.saved is _MISSING:
            SM.__dict__.pop('scan_directory', None)
        else:
            SM.__dict__['scan_directory'] = self.saved

    def scan_directory(self, shared_directory, children=None):
        di = next(k for k, d in enumerate(self.dirs) if d is shared_directory)
        out = set()
        for i, mtime in sorted(self.present.items()):
            if LAYOUTS[self.layout][i][0] == di:
                sub = LAYOUTS[self.layout][i][1]
                out.add(MD.SharedItem(shared_directory, S(sub) if self.c.symbolic else sub, self.names[i], mtime))
        return out

    def scan_all(self):
        from engine.vloop import VLoop
        loop = VLoop()
        try:
            for d in self.dirs:
                loop.run_until_complete(self.sm.scan_directory_files(d))
            if loop.errors:
                raise symex.HarnessError(f'loop errors during scan: {loop.errors!r}')
        finally:
            loop.cleanup()

    def live_items(self):
        """-> [(file index, SharedItem)] for the files on disk, looked up in SharedDirectory.items"""
        out = []
        for i in sorted(self.present):
            di, sub = LAYOUTS[self.layout][i]
            name = self.names[i]
            hits = [it for it in self.dirs[di].items
                    if it.subdir == sub and (it.filename is name if self.c.symbolic else it.filename == name)]
            out.append((i, hits))
        return out


def assume_names(c, names, layout):
    """what a directory listing guarantees: names are not '', '.', '..', and two entries of one directory
    differ"""
    conds = []
    for n in names:
        for bad in ('.', '..'):
            if len(n) == len(bad):
                conds.append(_not(sstr.eq(n, bad)) if c.symbolic else n != bad)
    for i, j in itertools.combinations(range(len(names)), 2):
        if LAYOUTS[layout][i] == LAYOUTS[layout][j] and len(names[i]) == len(names[j]):
            conds.append(_not(sstr.eq(names[i], names[j])) if c.symbolic else names[i] != names[j])
    c.assume(_and(conds))


def term_map_keys_sound(sm):
    """hash-container soundness (DESIGN §2.2): every key of the term map is an SStr"""
    for k in sm._term_map.keys():
        if not isinstance(k, SStr):
            raise symex.HarnessError(f'plain str key {k!r} in the term map: look-ups by symbolic keys would be unsound')


def _proxy_error(e: BaseException) -> bool:
    names = ('SStr', 'SInt', 'SBool', 'SMatch', 'FMatch', 'SPattern', 'FPattern', 'ReShim', 'OsShim', 'PathShim', 'BitVecRef', 'BoolRef')
    return isinstance(e, (TypeError, AttributeError, NotImplementedError)) and any(n in str(e) for n in names)


def run_query(c, sm, query, sig, tag=''):
    """-> list of returned items, or None when the code raised (recorded as a violation)"""
    try:
        visible, locked = sm.query(query)
    except symex.HarnessError:
        raise
    except Exception as e:
        if c.symbolic and _lost(c) is not None:
            raise symex.HarnessError(f'an engine error was swallowed by C code: {_lost(c)} (surfaced as {type(e).__name__}: {e})')
        if c.symbolic and _proxy_error(e):
            raise symex.HarnessError(f'a proxy value reached C code: {type(e).__name__}: {e}')
        c.check(False, 'query_does_not_raise', sig=sig, info=f'{tag}{type(e).__name__}')
        return None
    return list(visible) + list(locked)      # no username is given: the second list is empty; what is returned is both


def judge(c, items, paths, result, tokens, mx, sig, tag=''):
    """the clauses of the property for one query result"""
    k = len(result)
    ids = [id(x) for x in result]
    # no file twice: neither the same object nor two objects for the same file
    rp = [item_path(x) for x in result]
    twice = _or(sstr.eq(a, b) for a, b in itertools.combinations(rp, 2))
    c.check(_and([len(set(ids)) == k, _not(twice)]), 'results_are_distinct_shared_files', sig=sig, info=tag)
    # what is returned is what the index holds for a file that is on disk (`items`: SharedDirectory.items now)
    c.check(all(any(x is it for it in items) for x in result), 'returned_file_is_in_the_index', sig=sig, info=tag)
    c.check(k <= mx, 'capped_at_max_results', sig=sig)
    for i, item in enumerate(items):
        m, _ = r_query_cached(tokens, paths[i])
        if id(item) in ids:
            c.check(m, 'returned_file_matches', sig=sig, info=f'{tag}file {i}')
        else:
            # a matching file may only be missing when the cap is reached
            c.check(_or([_not(m), k >= mx]), 'matching_file_returned', sig=sig, info=f'{tag}file {i}')


# ------------------------------------------------------------------------------
# harnesses
# ------------------------------------------------------------------------------

def h_query(c, query, names, layout='flat', second=None, history='index'):
    """index the files, run `query` (and optionally a `second` query on the same manager)"""
    sstr.use_alphabet(SIGMA)
    fnames = [build(c, f'f{i}', tpl) for i, tpl in enumerate(names)]
    assume_names(c, fnames, layout)
    mx = c.fresh_int('max_results', 1, 100)
    queries = [(query, build(c, 'q', query))]
    if second is not None:
        queries.append((second, build(c, 'r', second)))
    paths = [ref_path(LAYOUTS[layout][i][1], n) for i, n in enumerate(fnames)]
    toks = [query_tokens(tpl, q) for tpl, q in queries]
    for tk in toks:
        _, has_incl = r_query(tk, ())
        c.assume(has_incl)      # a query without include / wildcard term is outside the claim
    if c.symbolic:
        _query_scenario(c, fnames, layout, history, mx, paths, queries, toks, [1.0] * len(fnames))
        return
    # Concrete replay.  Modification times are free inputs as well; they do not occur in any clause, but they are part of
    # SharedItem.__hash__ and so decide the iteration order of the candidate set.  A refutation that depends on that
    # order ("the candidates rejected by the second stage come first") holds for SOME order: the replay looks for modification
    # times that realise it (the symbolic run has its own order: all names hash alike there).
    n = len(fnames)
    attempts = [[1.0] * n] + [[float(x) for x in perm] for perm in itertools.islice(itertools.permutations(range(1, n + 4), n), 40)]
    for k, mt in enumerate(attempts):
        before = len(c.concrete_failures)
        c.note('attempt', k, 'modification times', mt)
        _query_scenario(c, fnames, layout, history, mx, list(paths), queries, toks, mt)
        if len(c.concrete_failures) > before:
            return


def _query_scenario(c, fnames, layout, history, mx, paths, queries, toks, mtimes):
    with Env(c):
        if history in ('index', 'incremental'):
            sm, dirs, items = make_manager(c, fnames, layout, mx, mtimes=mtimes)
            if history == 'index':
                sm.rebuild_term_map()          # as load_from_settings / read_cache do
            else:
                for d in dirs:                 # the way scan_directory_files leaves the map
                    sm._build_term_map(d)
                    sm._cleanup_term_map()
        elif history in ('scan', 'vanished', 'appeared', 'changed'):
            sm, dirs, _ = make_manager(c, fnames, layout, mx, fill=False)
            last = len(fnames) - 1
            with Disk(c, sm, dirs, fnames, layout) as disk:
                disk.present = {i: mtimes[i] for i in range(len(fnames)) if not (history == 'appeared' and i == last)}
                disk.scan_all()
                if history != 'scan':
                    # searches arrive between scans: the same queries BEFORE the change on disk (the items are looked at by
                    # the query code).  Nothing of the harness refers to a SharedItem once _ask has returned.
                    _ask(c, sm, disk, dirs, paths, queries, toks, mx, 'before', history)
                    if history == 'vanished':
                        del disk.present[last]
                    elif history == 'appeared':
                        disk.present[last] = mtimes[last]
                    else:
                        disk.present[last] = mtimes[last] + 0.5
                    disk.scan_all()
                    _collect()              # what CPython does sooner or later: items nobody refers to are gone
                if c.symbolic:
                    term_map_keys_sound(sm)
                c.reach('indexed')
                _ask(c, sm, disk, dirs, paths, queries, toks, mx, 'after' if history != 'scan' else '', history)
            if c.symbolic:
                term_map_keys_sound(sm)
            return
        else:
            raise symex.HarnessError(history)
        if c.symbolic:
            term_map_keys_sound(sm)
        c.reach('indexed')
        if not c.symbolic:
            c.note('searchable files', [''.join(p) for p in paths], 'queries', [q for _, q in queries], 'max_results', mx)
        _run_queries(c, sm, items, paths, queries, toks, mx, '')
        if c.symbolic:
            term_map_keys_sound(sm)


_GC_FROZEN = False


def _collect():
    """full garbage collection.  The first call of a process moves everything that exists by then (imported modules,
    z3 wrappers, harness caches) to the permanent generation (gc.freeze), so that the collections after it only
    look at objects created since: 13 ms -> microseconds per path."""
    import gc
    global _GC_FROZEN
    if not _GC_FROZEN:
        gc.collect()
        gc.freeze()
        _GC_FROZEN = True
    gc.collect()


def _run_queries(c, sm, items, paths, queries, toks, mx, stage):
    for qi, ((tpl, q), tk) in enumerate(zip(queries, toks)):
        sig = [query_kinds(tpl)] + ([stage] if stage else [])
        tag = f'{stage + " " if stage else ""}query {qi}: '
        result = run_query(c, sm, q, sig, tag)
        if result is None:
            continue
        c.reach('queried')
        if result:
            c.reach('some_file_returned')
        if not c.symbolic:
            c.note(tag, 'returned', sorted(it.get_query_path() for it in result))
        judge(c, items, paths, result, tk, mx, sig, tag)


def _ask(c, sm, disk, dirs, all_paths, queries, toks, mx, stage, history):
    """the files on disk now, looked up in SharedDirectory.items, and the queries judged against them.  All references
    to SharedItem objects are locals of this function."""
    found = disk.live_items()
    # indexing half, only as far as the query needs it: every file on disk is in exactly one directory's items
    c.check(all(len(h) == 1 for _, h in found) and sum(len(d.items) for d in dirs) == len(found),
            'scan_leaves_exactly_the_files_on_disk', sig=[history] + ([stage] if stage else []))
    items = [h[0] for _, h in found if h]
    paths = [all_paths[i] for i, h in found if h]
    if not c.symbolic:
        c.note(stage, 'searchable files', [''.join(p) for p in paths], 'queries', [q for _, q in queries], 'max_results', mx)
    _run_queries(c, sm, items, paths, queries, toks, mx, stage)


# ------------------------------------------------------------------------------
# second sentence of the property, as far as names decide it: containment of shared directories and the
# index the scan builds.  Directory names are symbolic; tree shapes and histories are enumerated.
# ------------------------------------------------------------------------------

SIGMA_PATH = SIGMA + ['/']


def r_normalized(cs):
    """the path (first character '/') is what abspath + normpath return: no '//', no trailing '/', no '.' / '..'
    component"""
    n = len(cs)
    sl = [r_is(ch, '/') for ch in cs]
    dot = [r_is(ch, '.') for ch in cs]
    conds = [sl[0]]
    if n > 1:
        conds.append(_not(sl[n - 1]))
    for i in range(n - 1):
        conds.append(_not(_and([sl[i], sl[i + 1]])))
    for i in range(1, n):
        end1 = True if i + 1 == n else sl[i + 1]
        conds.append(_not(_and([sl[i - 1], dot[i], end1])))
        if i + 1 < n:
            end2 = True if i + 2 == n else sl[i + 2]
            conds.append(_not(_and([sl[i - 1], dot[i], dot[i + 1], end2])))
    return _and(conds)


def r_is_parent(p, q):
    """component-wise: the directory p is q or an ancestor of q (both normalised absolute paths)"""
    if len(p) == 1:
        return True                     # the root
    if len(p) > len(q):
        return False
    pre = _and(sstr.ch_eq(p[i], q[i]) for i in range(len(p)))
    if len(p) == len(q):
        return pre
    return _and([pre, r_is(q[len(p)], '/')])


def _agree(c, got, want, label, sig, info=None):
    """`got`: what the code answered on this path (a bool after forking); `want`: the reference formula"""
    c.check(want if got else _not(want), label, sig=sig, info=info)


def bare_manager():
    return SM.SharesManager(Settings(credentials={'username': 'u', 'password': 'p'}), EventBus(), None)


def h_contains(c, p, q):
    """is_parent_of / is_child_of / _get_parent_directories / _get_child_directories against the component-wise
    reference; both paths symbolic over Σ + '/', so where the components are is decided by the solver"""
    sstr.use_alphabet(SIGMA_PATH)
    pp, qq = build(c, 'p', p), build(c, 'q', q)
    pc, qc = chars_of(pp), chars_of(qq)
    c.assume(_and([r_normalized(pc), r_normalized(qc)]))
    if not c.symbolic:
        c.note('p', pp, 'q', qq)
    want_pq, want_qp = r_is_parent(pc, qc), r_is_parent(qc, pc)
    sig = ['kernel']
    with Env(c):
        A = MD.SharedDirectory(pp, pp, 'ala')
        B = MD.SharedDirectory(qq, qq, 'alb')
        _agree(c, bool(A.is_parent_of(B)), want_pq, 'is_parent_of_is_component_wise', sig, 'A.is_parent_of(B)')
        _agree(c, bool(A.is_parent_of(qq)), want_pq, 'is_parent_of_is_component_wise', sig, 'A.is_parent_of(str)')
        _agree(c, bool(B.is_parent_of(A)), want_qp, 'is_parent_of_is_component_wise', sig, 'B.is_parent_of(A)')
        _agree(c, bool(B.is_child_of(A)), want_pq, 'is_child_of_is_component_wise', sig, 'B.is_child_of(A)')
        _agree(c, bool(B.is_child_of(pp)), want_pq, 'is_child_of_is_component_wise', sig, 'B.is_child_of(str)')
        _agree(c, bool(A.is_child_of(B)), want_qp, 'is_child_of_is_component_wise', sig, 'A.is_child_of(B)')
        sm = bare_manager()
        sm._shared_directories = [A, B]
        X = MD.SharedDirectory(qq, qq, 'alx')          # a directory being added at path q
        parents = sm._get_parent_directories(X)
        _agree(c, any(d is A for d in parents), want_pq, 'parent_directories_are_the_ancestors', sig)
        c.check(any(d is B for d in parents) and all(d is A or d is B for d in parents), 'parent_directories_are_the_ancestors', sig=sig)
        # (the ORDER of the returned list is a private contract between the helper and its callers, not checked here)
        Y = MD.SharedDirectory(pp, pp, 'aly')
        children = sm._get_child_directories(Y)
        _agree(c, any(d is B for d in children), want_pq, 'child_directories_are_the_descendants', sig)
    c.reach('containment_decided')


# trees: node = (parent index, name key, number of files); node 0 is the outer shared directory.  A name key that
# occurs twice is the same name.  'child': the nested shared directory.
TREES = {
    'T1': {'nodes': [(None, 'r', 1), (0, 'C', 1), (0, 'S', 1)], 'child': 1},
    'T2': {'nodes': [(None, 'r', 0), (0, 'C', 1), (1, 'D', 1), (0, 'S', 1), (0, 'T', 1)], 'child': 1},
    'T3': {'nodes': [(None, 'r', 1), (0, 'A', 0), (1, 'C', 1), (1, 'S', 2)], 'child': 2},
    'T4': {'nodes': [(None, 'r', 0), (0, 'C', 1), (0, 'S', 1), (2, 'C', 1)], 'child': 1},
    # two nested shared directories side by side: the innermost parent of one must never be the other
    'T5': {'nodes': [(None, 'r', 1), (0, 'C', 1), (0, 'S', 1)], 'child': 1, 'child2': 2},
    # re-nesting: C is shared, scanned and removed again (its items go back to r, keeping a sub-directory relative to
    # C); then a deeper directory C/D or the sibling S becomes a nested share.  C/S has the sibling's name.
    'T6': {'nodes': [(None, 'r', 1), (0, 'C', 1), (1, 'D', 1), (1, 'S', 1), (0, 'S', 1)], 'child': 1,
           'letters': {'D': 2, 'S': 4}},
}
# chains of nested shares (h_nested): every directory of the chain is a share
CHAINS = {
    'N3': {'nodes': [(None, 'r', 1), (0, 'B', 1), (1, 'C', 1)], 'child': 1},
    'N4': {'nodes': [(None, 'r', 1), (0, 'B', 1), (1, 'C', 1), (2, 'D', 1)], 'child': 1},
}
TREES.update(CHAINS)
HISTORIES = {
    # steps: aO/aC add outer / child, s scan every shared directory, rC/rO remove, ! check the index
    'OC_s': ['aO', 'aC', 's', '!'],
    'CO_s': ['aC', 'aO', 's', '!'],
    'O_s_C': ['aO', 's', '!', 'aC', '!', 's', '!'],
    'OC_s_rC': ['aO', 'aC', 's', 'rC', '!', 's', '!'],
    'OC_s_rO': ['aO', 'aC', 's', 'rO', '!', 's', '!'],
}
HISTORIES_TWO_NESTED = {            # tree T5 only; aS / rS: the second nested shared directory
    'O_s_CS': ['aO', 's', 'aC', 'aS', '!', 's', '!'],
    'O_s_SC': ['aO', 's', 'aS', 'aC', '!', 's', '!'],
    'OCS_s_rS': ['aO', 'aC', 'aS', 's', '!', 'rS', '!', 's', '!'],
    'OSC_s_rC': ['aO', 'aS', 'aC', 's', '!', 'rC', '!', 's', '!'],
}
HISTORIES_RENEST = {                # tree T6 only; sD / sS: scan_directory_files of that one directory
    'OC_s_rC_aD': ['aO', 'aC', 's', 'rC', 'aD', '!'],
    'OC_s_rC_aD_sD': ['aO', 'aC', 's', 'rC', 'aD', 'sD', '!'],
    'OC_s_rC_aD_s': ['aO', 'aC', 's', 'rC', 'aD', 's', '!'],
    'OC_s_rC_aS': ['aO', 'aC', 's', 'rC', 'aS', '!'],
    'OC_s_rC_aS_sS': ['aO', 'aC', 's', 'rC', 'aS', 'sS', '!'],
    'OC_s_rC_aS_s': ['aO', 'aC', 's', 'rC', 'aS', 's', '!'],
    'OC_s_rC_aD_aS_sD': ['aO', 'aC', 's', 'rC', 'aD', 'aS', '!', 'sD', '!', 'sS', '!'],
}
ALL_HISTORIES = {**HISTORIES, **HISTORIES_TWO_NESTED, **HISTORIES_RENEST}


def histories_of(tree):
    return HISTORIES_RENEST if tree == 'T6' else (HISTORIES_TWO_NESTED if 'child2' in TREES[tree] else HISTORIES)


class Tree:
    """the directory tree on "disk": sstr.SymFS in symbolic runs, a real temporary directory in replays"""

    def __init__(self, c, tree, lens, symbolic_files=False):
        if c.symbolic:
            with reshim.keep_sstr():        # every path, also a fully concrete one, stays an SStr
                self._build(c, tree, lens, symbolic_files)
        else:
            self._build(c, tree, lens, symbolic_files)

    def _build(self, c, tree, lens, symbolic_files):
        import os
        import tempfile
        self.c = c
        self.spec = TREES[tree]
        nodes = self.spec['nodes']
        keys = sorted({k for _, k, _ in nodes if k != 'r'})
        self.names = {'r': reshim.const('r') if c.symbolic else 'r'}
        for k in keys:
            self.names[k] = build(c, f'n{k}', lens[k] if isinstance(lens[k], str) else '~' * lens[k])
        self.fs = sstr.SymFS() if c.symbolic else None
        self.tmp = None if c.symbolic else tempfile.mkdtemp(prefix='c07-')
        root = reshim.const('/') if c.symbolic else self.tmp + '/'
        self.paths, self.fsnodes, self.files = [], [], []          # files: (node index, name, path)
        conds = []
        for i, (par, key, nfiles) in enumerate(nodes):
            name = self.names[key]
            path = (root + name) if par is None else (self.paths[par] + '/' + name)
            self.paths.append(path)
            if c.symbolic:
                self.fsnodes.append(self.fs.mkdirs('/r') if par is None else self.fs.add(self.fsnodes[par], name, 'd'))
            else:
                os.makedirs(path)
            for j in range(nfiles):
                if isinstance(symbolic_files, dict):        # node index -> file name template
                    fname = build(c, f'f{i}_{j}', symbolic_files[str(i)])
                else:
                    fname = build(c, f'f{i}_{j}', '~~') if symbolic_files else (reshim.const(f'f{i}{j}') if c.symbolic else f'f{i}{j}')
                if symbolic_files is True:
                    conds += [_not(sstr.eq(fname, '..')) if c.symbolic else fname != '..']
                    conds += [(_not(sstr.eq(fname, o)) if c.symbolic else fname != o) for n2, o, _ in self.files if n2 == i]
                    # a file and a sub-directory of one directory have different names
                    conds += [(_not(sstr.eq(fname, self.names[k2])) if c.symbolic else fname != self.names[k2])
                              for p2, k2, _ in nodes if p2 == i and len(self.names[k2]) == 2]
                fpath = path + '/' + fname
                self.files.append((i, fname, fpath))
                if c.symbolic:
                    self.fs.add(self.fsnodes[i], fname, 'f', tag=1.0)
                else:
                    open(fpath, 'w').close()
        # what a directory listing guarantees: no '.', '..'; entries of one directory differ
        for k in keys:
            for bad in ('.', '..'):
                if len(self.names[k]) == len(bad):
                    conds.append(_not(sstr.eq(self.names[k], bad)) if c.symbolic else self.names[k] != bad)
        for (i, (pi, ki, _)), (j, (pj, kj, _)) in itertools.combinations(enumerate(nodes), 2):
            if pi == pj and ki != kj and len(self.names[ki]) == len(self.names[kj]):
                conds.append(_not(sstr.eq(self.names[ki], self.names[kj])) if c.symbolic else self.names[ki] != self.names[kj])
        self.assumption = _and(conds)

    def ancestors(self, i):
        while i is not None:
            yield i
            i = self.spec['nodes'][i][0]

    def cleanup(self):
        if self.tmp:
            import shutil
            shutil.rmtree(self.tmp, ignore_errors=True)


def item_path(item):
    """where the indexed item lives, from its own fields (not through the code's helpers)"""
    base = item.shared_directory.absolute_path
    if len(item.subdir):
        return base + '/' + item.subdir + '/' + item.filename
    return base + '/' + item.filename


def judge_index(c, sm, tree, shared, sig):
    """every file on disk under a shared directory is in exactly one SharedDirectory.items -- the innermost shared
    directory containing it --, nothing else is indexed, and get_stats() equals that index.  `shared`: node index ->
    SharedDirectory.  Which directory contains a file is known from how the tree was built (by position, not by
    name)."""
    held = [(sd, item, item_path(item)) for sd in sm.shared_directories for item in sd.items]
    ref_files, ref_dirs = 0, set()
    for node, fname, fpath in tree.files:
        holder = next((shared[a] for a in tree.ancestors(node) if a in shared), None)
        same = [sstr.eq(ip, fpath) for _, _, ip in held]
        info = f'file of node {node}'
        if holder is None:
            c.check(_not(_or(same)), 'unshared_file_is_not_indexed', sig=sig, info=info)
            continue
        ref_files += 1
        ref_dirs.add(node)
        once = _and([_or(same)] + [_not(_and([a, b])) for a, b in itertools.combinations(same, 2)])
        c.check(once, 'file_indexed_exactly_once', sig=sig, info=info)
        c.check(_or(s for s, (sd, _, _) in zip(same, held) if sd is holder), 'file_indexed_under_innermost_shared_directory',
                sig=sig, info=info)
    for _, _, ip in held:
        c.check(_or(sstr.eq(ip, fpath) for _, _, fpath in tree.files), 'index_holds_only_files_on_disk', sig=sig)
    dir_count, file_count = sm.get_stats()
    c.check(file_count == ref_files, 'reported_file_count_equals_index', sig=sig, info=f'reported {file_count}, on disk {ref_files}')
    c.check(dir_count == len(ref_dirs), 'reported_folder_count_equals_index', sig=sig, info=f'reported {dir_count}, on disk {len(ref_dirs)}')


def h_index(c, tree, lens, history, symbolic_files=False):
    """real add_shared_directory / scan_directory_files (real scan_directory over the tree) / remove_shared_directory"""
    sstr.use_alphabet(SIGMA)
    t = Tree(c, tree, lens, symbolic_files)
    try:
        c.assume(t.assumption)
        names = t.names
        # finite discriminant for signatures, decided here so that both situations are explored as separate paths:
        # is the name of a sibling directory a string-prefix extension of the nested shared directory's name (or
        # the other way round)?
        rel = 'unrelated'
        child_parent, child_key, _ = t.spec['nodes'][t.spec['child']]
        for k in sorted({key for par, key, _ in t.spec['nodes'] if par == child_parent and key != child_key}):
            if rel != 'unrelated':
                continue
            a, b = names[child_key], names[k]
            if len(b) > len(a) and (bool(b.startswith(a)) if c.symbolic else b.startswith(a)):
                rel = 'sibling_extends_child_name'
            elif len(a) > len(b) and (bool(a.startswith(b)) if c.symbolic else a.startswith(b)):
                rel = 'child_extends_sibling_name'
        c.reach(rel)
        if not c.symbolic:
            c.note('directories', [str(x) for x in t.paths], 'files', [str(f[2]) for f in t.files])
        errors = []
        real_scan = SM.scan_directory

        def scan_directory(*a, **kw):
            # scan_directory_files logs and drops every exception of the scan: keep harness errors visible
            try:
                found = real_scan(*a, **kw)
            except Exception as e:
                errors.append(e)
                raise
            if not c.symbolic:
                return found
            # string fields the code filled from its own literals (subdir = '') become SStr with the same characters: a
            # later `item.subdir.startswith(symbolic)` must not end in C code
            out = set()
            for it in found:
                if isinstance(it.subdir, str) or isinstance(it.filename, str):
                    new = MD.SharedItem(it.shared_directory, S(it.subdir), S(it.filename), it.modified)
                    new.attributes = it.attributes
                    it = new
                out.add(it)
            return out
        from engine.vloop import VLoop
        with Env(c, t.fs):
            SM.__dict__['scan_directory'] = scan_directory
            try:
                sm = bare_manager()
                # the term map is the other half of the property (h_query); building it here would only fork over which
                # characters of the directory names are word characters
                sm._build_term_map = lambda shared_directory: None
                if c.symbolic:
                    seq = iter(range(100))
                    sm.generate_alias = lambda path, offset=0: S(f'al{next(seq)}')    # path.encode() is C code
                shared = {}
                which = {'O': 0, 'C': t.spec['child'], 'S': t.spec.get('child2')}
                which.update(t.spec.get('letters', {}))
                prev = None
                for step in ALL_HISTORIES[history]:
                    if step[0] == 'a':
                        shared[which[step[1]]] = sm.add_shared_directory(t.paths[which[step[1]]])
                    elif step[0] == 'r':
                        # the caller keeps what the API returned (the change event carries the same object)
                        sm.__dict__.setdefault('_verif_kept', []).append(sm.remove_shared_directory(shared.pop(which[step[1]])))
                    elif step[0] == 's':
                        loop = VLoop()
                        try:
                            for d in (list(sm.shared_directories) if step == 's' else [shared[which[step[1]]]]):
                                loop.run_until_complete(sm.scan_directory_files(d))
                            if loop.errors:
                                raise symex.HarnessError(f'loop errors during scan: {loop.errors!r}')
                        finally:
                            loop.cleanup()
                        for e in errors:
                            if isinstance(e, symex.HarnessError) or _proxy_error(e):
                                raise symex.HarnessError(f'inside scan_directory: {type(e).__name__}: {e}')
                        c.check(not errors, 'scan_does_not_raise', sig=[tree, history, rel], info=repr(errors[:1]))
                    else:
                        kind = 'after_scan' if prev == 's' else {'a': 'after_add_nested', 's': 'after_scan_of_one_directory',
                                                                 'r': 'after_remove_outer' if prev == 'rO' else 'after_remove_nested'}[prev[0]]
                        judge_index(c, sm, t, shared, [tree, history, kind, rel])
                        c.reach('index_judged')
                    prev = step
            finally:
                SM.__dict__['scan_directory'] = real_scan
    finally:
        t.cleanup()


class _Members:
    """stand-in for settings.users.friends / SharedDirectory.users: whether the asking user is a member is one symbolic
    Bool (`in` forks on it)"""

    def __init__(self, member):
        self.member = member

    def __contains__(self, user):
        return bool(self.member)

    def __iter__(self):
        return iter(())

    def __bool__(self):
        return True             # `users or []` must keep the object


ASKER = 'asker'


def h_nested(c, chain, remove, rescan, order='down', inner='a ~~'):
    """a chain of nested shares (every level shared, each with its own share mode / user list), scanned; one share of
    the chain is removed; then nothing / one directory / everything is rescanned.  Through the public API only: a
    query by a user, get_stats.  Every file is returned exactly once, the counts are those of the files the harness
    created, and a file is visible to the asking user iff the INNERMOST REMAINING share that contains it entitles
    them."""
    sstr.use_alphabet(SIGMA)
    from aioslsk.shares.model import DirectoryShareMode as Mode
    nodes = CHAINS[chain]['nodes']
    depth = len(nodes)
    # every file name contains the word 'a' (the query); the innermost file has two symbolic characters
    tpls = {str(i): (inner if i == depth - 1 else f'a {i}') for i in range(depth)}
    t = Tree(c, chain, {k: k.lower() for _, k, _ in nodes if k != 'r'}, tpls)
    try:
        c.assume(t.assumption)
        modes = [c.pick([Mode.EVERYONE, Mode.FRIENDS, Mode.USERS], f'mode{i}') for i in range(depth)]
        friend = c.fresh_bool('asker_is_friend')
        listed = [c.fresh_bool(f'asker_listed{i}') for i in range(depth)]

        def entitled(i):
            """reference: the share of level i lets the asking user see its files"""
            if modes[i] is Mode.EVERYONE:
                return True
            return friend if modes[i] is Mode.FRIENDS else listed[i]
        if not c.symbolic:
            c.note('shares', [str(p) for p in t.paths], 'modes', [m.name for m in modes], 'friend', friend, 'listed', listed,
                   'files', [str(f[2]) for f in t.files])
        errors = []
        real_scan = SM.scan_directory

        def scan_directory(*a, **kw):
            try:
                found = real_scan(*a, **kw)
            except Exception as e:
                errors.append(e)
                raise
            if not c.symbolic:
                return found
            return {(MD.SharedItem(it.shared_directory, S(it.subdir), S(it.filename), it.modified)
                     if isinstance(it.subdir, str) or isinstance(it.filename, str) else it) for it in found}
        from engine.vloop import VLoop
        with Env(c, t.fs):
            SM.__dict__['scan_directory'] = scan_directory
            try:
                settings = Settings(credentials={'username': 'u', 'password': 'p'})
                settings.users.__dict__['friends'] = _Members(friend)
                sm = SM.SharesManager(settings, EventBus(), None)
                if c.symbolic:
                    seq = iter(range(100))
                    sm.generate_alias = lambda path, offset=0: S(f'al{next(seq)}')
                shared = {}
                for i in (range(depth) if order == 'down' else reversed(range(depth))):
                    shared[i] = sm.add_shared_directory(t.paths[i], share_mode=modes[i], users=_Members(listed[i]))

                def scan(dirs):
                    loop = VLoop()
                    try:
                        for d in dirs:
                            loop.run_until_complete(sm.scan_directory_files(d))
                        if loop.errors:
                            raise symex.HarnessError(f'loop errors during scan: {loop.errors!r}')
                    finally:
                        loop.cleanup()
                    for e in errors:
                        if isinstance(e, symex.HarnessError) or _proxy_error(e):
                            raise symex.HarnessError(f'inside scan_directory: {type(e).__name__}: {e}')
                scan(list(sm.shared_directories))
                # the caller keeps what the API returned (the change event carries the same object)
                sm.__dict__.setdefault('_verif_kept', []).append(sm.remove_shared_directory(shared.pop(remove)))
                if rescan == 'all':
                    scan(list(sm.shared_directories))
                elif rescan != 'none':
                    scan([shared[{'outer': 0, 'enclosing': max(i for i in shared if i < remove),
                                  'inner': min([i for i in shared if i > remove] or [0])}[rescan]]])
                # Until fix 615ddb2 the removed SharedDirectory kept its items and the items refer to it: a caller holding
                # the returned object (as this harness does since wave 4b) kept them alive in the WeakSets of the term map.
                # The collection is kept so that the state judged does not depend on when CPython's cyclic collector runs.
                _collect()
                sig = [chain, f'remove_level_{remove}', f'rescan_{rescan}']
                c.check(not errors, 'scan_does_not_raise', sig=sig, info=repr(errors[:1]))
                # --- observation through the public API ---
                visible, locked = sm.query(S('a') if c.symbolic else 'a', username=ASKER)
                shown = [(item_path(it), True) for it in visible] + [(item_path(it), False) for it in locked]
                for node, fname, fpath in t.files:
                    hits = [(sstr.eq(ip, fpath), vis) for ip, vis in shown]
                    same = [h for h, _ in hits]
                    info = f'file of level {node}'
                    once = _and([_or(same)] + [_not(_and([a, b])) for a, b in itertools.combinations(same, 2)])
                    c.check(once, 'nested_file_returned_exactly_once', sig=sig, info=info)
                    holder = max(i for i in shared if i <= node)            # innermost remaining enclosing share
                    want = entitled(holder)
                    got_visible = _or(h for h, vis in hits if vis)
                    c.check(_or([_and([got_visible, want]), _and([_not(got_visible), _not(want)])]),
                            'nested_file_visible_iff_innermost_share_entitles', sig=sig, info=info)
                dir_count, file_count = sm.get_stats()
                c.check(file_count == len(t.files), 'nested_reported_file_count', sig=sig, info=f'reported {file_count}, created {len(t.files)}')
                c.check(dir_count == len(t.files), 'nested_reported_folder_count', sig=sig, info=f'reported {dir_count}, created {len(t.files)}')
                c.reach('nested_judged')
            finally:
                SM.__dict__['scan_directory'] = real_scan
    finally:
        t.cleanup()


def h_pattern(c, term, wildcard, n):
    """create_term_pattern against the whole-word reference on every string of length n over Σ"""
    sstr.use_alphabet(SIGMA)
    t = build(c, 't', term)
    s = build(c, 's', '~' * n)
    if not c.symbolic:
        c.note('term', t, 'wildcard', wildcard, 'string', s)
    tcs = chars_of(t)
    c.assume(_or(r_alnum(ch) for ch in tcs))      # SearchQuery.parse drops terms without a letter/digit
    with Env(c):
        p = SU.create_term_pattern(t.lower(), wildcard=wildcard)
        got = bool(p.search(s))
    c.reach('pattern_decided')
    want = r_contains(chars_of(s), tcs, wildcard)
    c.check(want if got else _not(want), 'term_pattern_is_whole_word_match', sig=['wildcard' if wildcard else 'plain'],
            info='pattern matched' if got else 'pattern did not match')


def _trie(cs, strings, sg):
    """z3: the symbolic characters cs spell one of `strings` (all of length len(cs))"""
    if not cs:
        return bool(strings)
    groups: dict = {}
    for s in strings:
        groups.setdefault(s[0], []).append(s[1:])
    alts = []
    for ch, rest in groups.items():
        sub = _trie(cs[1:], rest, sg)
        if sub is False:
            continue
        alts.append(_and([cs[0] == sg.val(sg.index[ch]), sub]))
    return _or(alts)


def h_selfcheck(c, what, arg, n):
    """translator validation on symbolic strings: the stand-in decides on a fully symbolic string of length n;
    the set of strings of Σ^n on which CPython's `re` gives the other answer must be unsatisfiable under the
    path condition (search kinds), resp. a witness of every path must split / substitute identically."""
    sstr.use_alphabet(SIGMA)
    s = build(c, 's', '~' * n)
    if not c.symbolic:
        c.reach('selfcheck')
        return
    sg = sstr._st().sigma
    every = [''.join(t) for t in itertools.product(SIGMA, repeat=n)]
    if what in ('term', 'wterm', 'word', 'raw'):
        if what in ('term', 'wterm'):
            real = SU.create_term_pattern(arg, wildcard=(what == 'wterm'))
        elif what == 'word':
            real = re.compile(r'[^\W_]')
        else:
            real = re.compile(arg)
        with Env(c):
            if what in ('term', 'wterm'):
                mine = SU.create_term_pattern(reshim.const(arg), wildcard=(what == 'wterm'))
            else:
                mine = SU.re.compile(real.pattern, real.flags)
            got = bool(mine.search(s))
        other = [x for x in every if bool(real.search(x)) != got]
        c.reach('selfcheck')
        c.check(_not(_trie(list(s.cs), other, sg)), 'shim_agrees_with_cpython', sig=[what])
        return
    # split / sub: fork over separator positions, compare a witness of the path with CPython
    with Env(c):
        if what == 'split':
            mine = SM.re.split(SM._QUERY_CLEAN_PATTERN, s.lower())
        elif what == 'normalize':
            mine = SU.normalize_remote_path(reshim.const(arg) + s)
        elif what == 'parse':
            q = QM.SearchQuery.parse(s)
            mine = (sorted(q.include_terms, key=lambda x: len(x)), sorted(q.wildcard_terms, key=lambda x: len(x)),
                    sorted(q.exclude_terms, key=lambda x: len(x)))
        else:
            raise symex.HarnessError(what)
    c.reach('selfcheck')
    if c._model is None:
        if c._check() != 'sat':
            raise symex.PathAbort('infeasible')
        c._model = c._last_model
    w = sstr.concretize(s, c._model)
    conc = lambda v: sstr.concretize(v, c._model)
    if what == 'split':
        want = SM._QUERY_CLEAN_PATTERN.split(w.lower())
        ok = [conc(p) for p in mine] == want
    elif what == 'normalize':
        ok = conc(mine) == SU.normalize_remote_path(arg + w)
    else:
        rq = QM.SearchQuery.parse(w)
        ok = all(sorted(conc(x) for x in a) == sorted(b) for a, b in
                 zip(mine, (rq.include_terms, rq.wildcard_terms, rq.exclude_terms)))
    c.check(ok, 'shim_agrees_with_cpython', sig=[what], info=f'witness {w!r}')


# ------------------------------------------------------------------------------
# prelude: validation of the stand-ins and of Σ against CPython
# ------------------------------------------------------------------------------

def pinned_terms():
    terms = set()
    for q in QUERIES_THOROUGH:
        for t in q.split():
            if any(ch in '#?' for ch in t):
                continue
            lt = t.lower()
            if not re.search(r'[^\W_]', lt):
                continue
            terms.add((lt[1:], True) if lt[0] == '*' else ((lt[1:], False) if lt[0] == '-' else (lt, False)))
    return sorted(terms)


def prelude(tier):
    notes = []
    # Σ: closed under case mappings, 1:1; case-insensitive equality of the reference == re.IGNORECASE ==
    # casefold on Σ; "letter or digit" of the reference == [^\W_]
    for a in SIGMA:
        if len(a.lower()) != 1 or len(a.upper()) != 1 or a.lower() not in SIGMA or a.upper() not in SIGMA or a in '\n\\/':
            raise symex.HarnessError(f'alphabet: {a!r} is not case-regular')
        if a.isalnum() != bool(re.fullmatch(r'[^\W_]', a)) or (not a.isalnum()) != bool(re.fullmatch(r'[\W_]', a)):
            raise symex.HarnessError(f'alphabet: {a!r}: isalnum differs from [^\\W_]')
        if a.lower().upper() != a.upper() or a.upper().lower() != a.lower():
            raise symex.HarnessError(f'alphabet: {a!r} has no 1:1 case mapping')
        for b in SIGMA:
            r = a.lower() == b.lower()
            if r != (a.casefold() == b.casefold()) or r != bool(re.fullmatch(re.escape(a), b, re.I)) or r != (a.upper() == b.upper()):
                raise symex.HarnessError(f'alphabet: case-insensitive equality of {a!r} and {b!r} is not regular')
    notes.append(f'alphabet of {len(SIGMA)} characters is case-regular; isalnum == [^\\W_] on it')
    # the formula compiler against CPython on the real pattern texts of the code under test and generic ones
    real = [(SU.create_term_pattern(t, wildcard=w).pattern, SU.create_term_pattern(t, wildcard=w).flags) for t, w in pinned_terms()]
    real += [(SM._QUERY_CLEAN_PATTERN.pattern, SM._QUERY_CLEAN_PATTERN.flags),
             (CONST.PATH_SEPERATOR_PATTERN.pattern, CONST.PATH_SEPERATOR_PATTERN.flags), (r'[^\W_]', 0)]
    if tier == 'thorough':
        n = reshim.validate(real, "aAb1_ .é(中", 4, kinds=('search',))
        n += reshim.validate(reshim.GENERIC_PATTERNS, 'ab.c_ 1A\n', 4)
    else:
        n = reshim.validate(real, 'aAb1_.', 4, kinds=('search',))
        n += reshim.validate(reshim.GENERIC_PATTERNS, 'ab._1A\n', 3)
    notes.append(f'reshim formula compiler vs CPython re: {n} comparisons agree ({len(real)} pattern texts produced by the code under test '
                 f'+ {len(reshim.GENERIC_PATTERNS)} generic patterns, all strings of length <= 4 / <= 3 over a sub-alphabet)')
    # split / sub go through the backtracking matcher of engine/sstr.py
    notes += sstr.selftest(alphabet='a_. \\/' if tier == 'quick' else 'aA_. \\/1', maxlen=3)
    notes += symos.selftest('ab./', 4) if tier == 'quick' else symos.selftest('aB./ ', 5)
    # the reference on a few pinned examples (guards against a vacuous reference)
    ex = [('a b.mp3', 'a', False, True), ('ab.mp3', 'a', False, False), ('ab.mp3', 'b', True, True), ('x\\ab', 'b', True, True),
          ('a_b', 'B', False, True), ('aéb', 'é', False, False), ('1 (a)', '(a)', False, True), ('ba.b', 'a.b', True, True),
          ('b a.b', 'a.b', False, True), ('ba.b', 'a.b', False, False), ('', 'a', False, False), ('a', 'a', True, True)]
    for path, term, wc, want in ex:
        if r_contains(tuple(path), tuple(term), wc) is not want:
            raise symex.HarnessError(f'reference: {term!r} in {path!r} wildcard={wc} should be {want}')
    notes.append(f'whole-word reference: {len(ex)} pinned examples')
    return notes


# ------------------------------------------------------------------------------
# META / jobs
# ------------------------------------------------------------------------------

# pinned query family: 1..4 terms; include, -exclude, *wildcard; punctuation inside terms; upper case; terms that
# are suffixes of each other; terms that are ignored (no letter/digit); duplicates
QUERIES_QUICK = ['a', 'ab', '*b', '*ab', 'a.b', '(a)', 'a b', 'a -b', '*a b', '*b -b', 'É *1', 'a b -ab']
QUERIES_THOROUGH = QUERIES_QUICK + [
    'A', 'é', '1', 'B a', 'a1', '*a', '*É', '*B', '*a.b', '*.b', "a'", '[a]', 'a&b', 'a-b', 'a_b', '-a b', 'a *a', 'ab *b', 'a -ab',
    '*a *b', 'b *ab', 'a.b -b', 'a -a.b', 'a & b', '- a', 'a a', 'a A', 'a b 1', '*a b -1', 'a *b -é', 'a b *1 -é', '*a *b -ab 1',
    '-*a b', '**a', '*-a', 'a*b',
]
# queries whose terms are themselves symbolic ('#' letter/digit, '?' any non-blank character incl. '*', '-')
QUERIES_SYMBOLIC_QUICK = ['#', '*#']
QUERIES_SYMBOLIC = ['#', '*#', '##', '*##', '?#', '# -#', '*# #', '#?#', '?# ?#']


_HIT_CACHE: dict = {}


def _expect_hit(query, names, layout='flat'):
    """can some instantiation of one of the name templates satisfy the query?  (then the job must reach a
    non-empty result: vacuity guard).  Brute force with the reference over the characters of the query."""
    key = (query, tuple(names), layout)
    if key in _HIT_CACHE:
        return _HIT_CACHE[key]
    q = query.replace('#', 'a').replace('?', 'a')
    toks = [tuple(t) for t in q.split()]
    cand = sorted({ch.lower() for ch in q if ch.lower() in SIGMA} | {' '})
    hit = False
    for i, tpl in enumerate(names):
        free = [k for k, t in enumerate(tpl) if t in '~#?']
        for fill in itertools.product(cand, repeat=len(free)):
            name = list(tpl)
            for k, ch in zip(free, fill):
                name[k] = ch
            m, incl = r_query(toks, ref_path(LAYOUTS[layout][i][1], ''.join(name)))
            if m and incl:
                hit = True
                break
        if hit:
            break
    _HIT_CACHE[key] = hit
    return hit


def _qjob(query, names, layout='flat', **kw):
    req = ['indexed', 'queried', 'capped_at_max_results']
    live = names[:-1] if kw.get('history') == 'vanished' else names
    if _expect_hit(query, live, layout) and (kw.get('second') is None or _expect_hit(kw['second'], live, layout)):
        req += ['some_file_returned', 'returned_file_matches']
    params = {'query': query, 'names': names, 'layout': layout}
    params.update(kw)
    return {'harness': 'query', 'fn': h_query, 'params': params, 'requires': req,
            'timeout_s': 200 if sum(t.count('~') for t in names) <= 6 else 1300}


PATTERN_TERMS_QUICK = ['a', 'ab', 'a.b', '(a)', 'é', '1a', '#', '?#']
PATTERN_TERMS = PATTERN_TERMS_QUICK + ['a_b', "a'", '[a]', 'a&b', '-a', '*a', '.b', 'a b', '##', '#?', '#?#', '?##']
SELFCHECKS = [('term', 'a'), ('wterm', 'a'), ('term', 'a.b'), ('wterm', 'éb'), ('word', None), ('raw', r'[\W_]'),
              ('split', None), ('normalize', 'ab/'), ('parse', None)]


INDEX_SHAPES = {
    'quick': {'T1': [{'C': 2, 'S': 3}, {'C': 3, 'S': 2}, {'C': 2, 'S': 2}],
              'T2': [{'C': 2, 'D': 1, 'S': 3, 'T': 2}],
              'T3': [{'A': 1, 'C': 2, 'S': 3}],
              'T4': [{'C': 2, 'S': 3}],
              'T5': [{'C': 2, 'S': 3}, {'C': 3, 'S': 2}],
              'T6': [{'C': 2, 'D': 2, 'S': 3}]},
    'thorough': {'T1': [{'C': a, 'S': b} for a in range(1, 5) for b in range(1, 5)],
                 'T2': [{'C': 2, 'D': 1, 'S': 3, 'T': 2}, {'C': 2, 'D': 2, 'S': 3, 'T': 4}, {'C': 3, 'D': 1, 'S': 2, 'T': 4},
                        {'C': 1, 'D': 1, 'S': 2, 'T': 3}, {'C': 3, 'D': 3, 'S': 3, 'T': 3}],
                 'T3': [{'A': 1, 'C': 2, 'S': 3}, {'A': 2, 'C': 3, 'S': 2}, {'A': 2, 'C': 2, 'S': 4}, {'A': 3, 'C': 1, 'S': 3}],
                 'T4': [{'C': 2, 'S': 3}, {'C': 1, 'S': 2}, {'C': 3, 'S': 2}, {'C': 2, 'S': 4}],
                 'T5': [{'C': a, 'S': b} for a in range(1, 5) for b in range(1, 5)],
                 'T6': [{'C': 2, 'D': 2, 'S': 3}, {'C': 3, 'D': 1, 'S': 2}, {'C': 2, 'D': 2, 'S': 2}, {'C': 1, 'D': 3, 'S': 4},
                        {'C': 3, 'D': 3, 'S': 3}]},
}


def _ijob(tree, lens, history, symbolic_files=False):
    spec = TREES[tree]
    par, ckey, _ = spec['nodes'][spec['child']]
    sib = {k for p2, k, _ in spec['nodes'] if p2 == par and k != ckey}
    req = ['index_judged', 'file_indexed_exactly_once', 'file_indexed_under_innermost_shared_directory', 'unrelated']
    if any(lens[k] > lens[ckey] for k in sib):
        req.append('sibling_extends_child_name')        # 'Rock' / 'Rock Live' must be feasible
    elif any(lens[k] < lens[ckey] for k in sib):
        req.append('child_extends_sibling_name')
    params = {'tree': tree, 'lens': lens, 'history': history}
    if symbolic_files:
        params['symbolic_files'] = True
    return {'harness': 'index', 'fn': h_index, 'params': params, 'requires': req, 'timeout_s': 300}


def jobs(tier):
    out = []
    quick = tier == 'quick'
    # --- create_term_pattern against the reference ---
    for t in (PATTERN_TERMS_QUICK if quick else PATTERN_TERMS):
        for wc in (False, True):
            for n in range(0, 5 if quick else 8):
                out.append({'harness': 'pattern', 'fn': h_pattern, 'params': {'term': t, 'wildcard': wc, 'n': n},
                            'requires': ['pattern_decided', 'term_pattern_is_whole_word_match']})
    # --- translator validation on symbolic strings ---
    for n in range(0, 3 if quick else 4):
        for what, arg in SELFCHECKS:
            out.append({'harness': 'selfcheck', 'fn': h_selfcheck, 'params': {'what': what, 'arg': arg, 'n': n},
                        'requires': ['selfcheck', 'shim_agrees_with_cpython']})
    # --- second sentence: containment kernel and the index built by add / scan / remove ---
    top = 5 if quick else 7
    for lp in range(0, top + 1):
        for lq in range(0, top + 1):
            out.append({'harness': 'contains', 'fn': h_contains, 'params': {'p': '/' + '~' * lp, 'q': '/' + '~' * lq},
                        'requires': ['containment_decided', 'is_parent_of_is_component_wise', 'parent_directories_are_the_ancestors']})
    for tree, lens_list in INDEX_SHAPES['quick' if quick else 'thorough'].items():
        for lens in lens_list:
            for hist in histories_of(tree):
                for symf in ((False,) if quick else (False, True)):
                    out.append(_ijob(tree, lens, hist, symf))
    # --- chains of nested shares: removal of one level, observed through query(username) and get_stats ---
    nreq = ['nested_judged', 'nested_file_returned_exactly_once', 'nested_file_visible_iff_innermost_share_entitles']
    if quick:
        for rm, rs in ((2, 'enclosing'), (2, 'none'), (1, 'enclosing')):
            out.append({'harness': 'nested', 'fn': h_nested, 'params': {'chain': 'N3', 'remove': rm, 'rescan': rs, 'inner': 'a ~'},
                        'requires': nreq, 'timeout_s': 300})
    else:
        for chain, depth in (('N3', 3), ('N4', 4)):
            for rm in range(1, depth):
                for rs in ('none', 'enclosing', 'outer', 'inner', 'all'):
                    if (rs == 'inner' and rm == depth - 1) or (rs == 'outer' and rm == 1):
                        continue        # no share below the removed one / same as 'enclosing'
                    for order in (('down', 'up') if chain == 'N3' else ('down',)):
                        out.append({'harness': 'nested', 'fn': h_nested,
                                    'params': {'chain': chain, 'remove': rm, 'rescan': rs, 'order': order,
                                               'inner': 'a ~~' if chain == 'N3' else 'a ~'},
                                    'requires': nreq, 'timeout_s': 1300})
    # --- the query itself ---
    if quick:
        for q in QUERIES_QUICK:
            out.append(_qjob(q, ['~~', '~~~']))
        for q in ('*b', 'a b', '*a b', 'a -b'):
            out.append(_qjob(q, ['~~~', '~~~']))
            out.append(_qjob(q, ['~~', '~~'], 'sub'))
        for q in QUERIES_SYMBOLIC_QUICK:
            out.append(_qjob(q, ['~~', '~~']))
        out.append(_qjob('ab *b', ['~~ ~~', '~~']))
        out.append(_qjob('*b', ['~~', '~~'], second='b'))
        out.append(_qjob('*b', ['~~', '~~', '~'], 'two', history='vanished'))
        out.append(_qjob('a b', ['~', '~', '~~~'], 'two', history='appeared'))
        out.append(_qjob('a', ['~~', '~~'], 'two', history='changed'))
        out.append(_qjob('*a', ['~~', '~~'], 'flat', history='changed'))
        out.append(_qjob('a -b', ['~~', '~~'], 'sub', history='vanished'))
    else:
        for q in QUERIES_THOROUGH:
            for names in (['~~', '~~~'], ['~~~', '~~~'], ['~~~~', '~~'], ['~~', '~~', '~~'], ['~~ ~~', '~~~']):
                out.append(_qjob(q, names))
            if len(q.split()) >= 3:
                out.append(_qjob(q, ['~ ~ ~', '~~~']))
                out.append(_qjob(q, ['~~ ~ ~', '~ ~~']))
            for lay in ('sub', 'deep', 'two'):
                out.append(_qjob(q, ['~~', '~~~'], lay))
        for q in QUERIES_QUICK:
            out.append(_qjob(q, ['~~~~', '~~~']))
            out.append(_qjob(q, ['~~~~', '~~~~']))
            out.append(_qjob(q, ['~~~', '~~', '~~']))
            out.append(_qjob(q, ['~~.~~', '~~-~']))
            out.append(_qjob(q, ['~~', '~~'], 'two', history='incremental'))
            for h in ('scan', 'vanished', 'appeared', 'changed'):
                out.append(_qjob(q, ['~~', '~~', '~~'] if h == 'vanished' else ['~~', '~~', '~'], 'two', history=h))
        for q in ('*b', '*a b', '*b -b', 'ab *b'):
            out.append(_qjob(q, ['~~~', '~~~', '~~']))
            out.append(_qjob(q, ['~~', '~~', '~~', '~']))
        for q in QUERIES_SYMBOLIC:
            out.append(_qjob(q, ['~~', '~~']))
            out.append(_qjob(q, ['~~', '~~~']))
        for a, b in (('*b', 'b'), ('b', '*b'), ('*a', 'a -b'), ('a', 'a b'), ('*ab', 'ab'), ('a -b', '*b')):
            out.append(_qjob(a, ['~~', '~~'], second=b))
            out.append(_qjob(a, ['~~', '~~~'], second=b))
    return out


META = {
    'level': 'other',
    'technique': 'symbolic execution of the real query / term-map / term-pattern code on strings whose characters are z3 bit-vectors over '
                 'an 18-character alphabet; regular expressions compiled from the real pattern text into one Boolean formula per match '
                 '(dynamic programming over positions); per-path obligations decided by z3 against a whole-word reference',
    'explanation': 'Files with symbolic names are put into real SharedDirectory / SharedItem objects of a real SharesManager, indexed by the '
                   'real rebuild_term_map / _add_item_to_term_map (dict keyed by symbolic words: constant hash, == decided by the solver) and '
                   'searched by the real SharesManager.query with the real SearchQuery.parse / matchers_iter / create_term_pattern. Every path '
                   'fixes which characters are separators, which words are equal and which (file, term) pairs match; on it z3 decides, over all '
                   'characters and all max_results 1..100, that each returned file satisfies the reference, that a file satisfying the reference '
                   'is missing only when max_results files were returned, and that at most max_results are returned. create_term_pattern is '
                   'separately proved equivalent to the reference on all strings up to length 4 (quick) / 7 (thorough), also for symbolic terms.',
    'functions': [SM.SharesManager.query, SM.SharesManager.rebuild_term_map, SM.SharesManager._build_term_map,
                  SM.SharesManager._add_item_to_term_map, SM.SharesManager._cleanup_term_map, SM.SharesManager.scan_directory_files,
                  QM.SearchQuery.parse, QM.SearchQuery.matchers_iter, QM.SearchQuery.has_inclusion_terms, SU.create_term_pattern,
                  SU.normalize_remote_path, MD.SharedItem.get_query_path,
                  MD.SharedDirectory.is_parent_of, MD.SharedDirectory.is_child_of, MD.SharedDirectory.get_items_for_directory,
                  SM.SharesManager._get_parent_directories, SM.SharesManager._get_child_directories, SM.scan_directory,
                  SM.SharesManager.add_shared_directory, SM.SharesManager.remove_shared_directory, SM.SharesManager.get_shared_directory,
                  SM.SharesManager.is_directory_shared, SM.SharesManager.get_stats, SM.SharesManager.is_item_locked,
                  SM.SharesManager.is_directory_locked],
    'stubs': ['`re` in shares.manager / shares.utils / shares.model / search.model -> engine.reshim.ReShim: compile/search/match/fullmatch = '
              'formula over positions built from the real pattern text parsed by re._parser (validated against CPython re in prelude and by '
              'the selfcheck harness on all of Σ^n); split/sub/escape = engine.sstr backtracking matcher (forks per separator position)',
              '`os` in shares.model / shares.utils / shares.manager -> engine.sstr.OsShim (os.path.join transcription, commonpath on concrete '
              'directory paths; anything else raises a harness error)',
              'str -> engine.sstr.SStr for file names and the query (shape-concrete, characters over Σ); constant hash so dict / set / WeakSet '
              'look-ups compare with ==, decided by the solver; sstr is kept from collapsing concrete results to str (reshim.keep_sstr) and '
              'the harness verifies that every term-map key is an SStr',
              'settings.searches.receive.max_results: the symbolic integer is stored in the model instance __dict__ (pydantic would reject it)',
              'SharesManager built with its real constructor (real Settings, real EventBus, network=None); SharedDirectory objects are created '
              'directly (no alias generation); history=index/incremental: SharedItem objects are created directly',
              'history=scan/vanished/appeared/changed: shares.manager.scan_directory (os.walk + getmtime) -> the harness listing (also in replays); '
              'scan_directory_files runs on engine.vloop.VLoop (run_in_executor synchronous)',
              'at the start of every path and replay: dict / list / set globals of every loaded aioslsk.shares.* module and aioslsk.search.model '
              'back to their import-time content, and cache_clear() on every functools cache found in their module dicts and in the dicts of '
              'the classes they define (through staticmethod / classmethod / property); each path = a freshly started process; state carried '
              'inside a path (query to query, scan to scan) is what the two-query and rescan jobs cover',
              'rescan jobs: gc.collect() after the rescan (after one gc.freeze() per process so that it only looks at objects created since)',
              'h_contains / h_index: `os` -> engine.symos.OsShim: os.walk over sstr.SymFS (an in-memory tree whose entry names may be symbolic), '
              'os.path.commonpath / relpath / normpath / abspath / join as transcriptions of posixpath that fork on separator positions and '
              'component equalities (validated against posixpath and a real os.walk in prelude), getmtime = the model value',
              '`isinstance` in shares.manager / shares.model: an SStr counts as str (SStr is not a str subclass)',
              'h_nested: settings.users.friends and SharedDirectory.users -> a membership stand-in whose `in` forks on one symbolic Bool (is the '
              'asking user a friend / listed for that share); gc.collect() after the removal / rescan (the removed SharedDirectory and its '
              'moved items form a reference cycle, see docs)',
              'every path-like string is an SStr in symbolic runs, also fully concrete ones: directory paths, aliases, sub-directories and file '
              'names the harness builds; os.sep / curdir / pardir of the os stand-in; the items returned by scan_directory are rebuilt with SStr '
              'fields when the code filled them from its own literals (subdir = ""). A method of a plain str called with an SStr argument is C '
              'code and ends in a harness error (exit 3), never in a verdict',
              'SInt.__index__ / __int__ while the environment is active: forking concretisation for up to 128 values (max_results has 100) that '
              'remembers an engine error on the context -- C callers (islice, slice.indices) replace any exception of __index__ by their own '
              'ValueError, which would otherwise look like an exception of the code under test',
              '`islice` / `itertools` in the modules under test (if imported) -> an islice whose symbolic stop is compared before each fetch '
              '(one fork per element instead of one path per value)',
              'concrete replay of query jobs: modification times (free inputs, part of SharedItem.__hash__, hence of the candidate set order) '
              'are searched over <= 41 assignments for one that realises an order-dependent refutation',
              'h_index: SharesManager.generate_alias -> al0, al1, ... (path.encode() + uuid is C code; symbolic runs only); '
              '_build_term_map -> no-op on the instance (the term map is the other half; building it would only fork over word characters '
              'of directory names); scan_directory is called through a wrapper that records its exceptions (scan_directory_files logs and '
              'drops them: a harness error inside the scan must not be swallowed)',
              'concrete replay: plain str, real re, real os, real hashing; query jobs: only the scan_directory listing remains; index jobs: the '
              'tree is created in a real temporary directory and scanned by the real os.walk'],
    'data_variables': ['every character of every file name (2..4 files, 1..4 free characters each plus pinned separators in some templates, each '
                       'free character over the whole alphabet Σ = ' + ''.join(SIGMA) + ')',
                       'max_results: Int 1..100',
                       'characters of query terms in the symbolic-query jobs (# letter/digit, ? any non-blank character incl. * and -)',
                       'h_pattern: every character of the searched string (length 0..7) and of symbolic terms',
                       'h_contains: every character after the leading / of two absolute paths (0..7 free characters each) over Σ + "/": where the '
                       'components are is the solver\'s choice (assumed normalised as abspath+normpath return them)',
                       'h_nested: asker_is_friend, asker_listed(i) per share: Bool; two (quick: one) characters of the innermost file name',
                       'h_index: every character of every directory name below the outer shared directory (nested shared directory, its siblings, '
                       'an intermediate directory, a sub-directory; 1..4 characters each over Σ), in some jobs 2-character file names'],
    'discriminants': ['number and lengths of file names / name templates', 'layout (shared directory and concrete sub-directory of each file)',
                      'the query template (pinned family of ' + str(len(QUERIES_THOROUGH)) + ' queries + ' + str(len(QUERIES_SYMBOLIC)) + ' symbolic templates)',
                      'how the index came about (rebuild from items / per-directory build + clean-up / scan / scan, the queries, a file vanishes | appears | '
                      'changes, rescan, garbage collection, the queries again)',
                      'a second query on the same manager',
                      'h_nested: chain depth (3; thorough also 4), share mode of every level (3 each, forked), which level is removed, what is rescanned '
                      'afterwards (nothing / the enclosing share / the outer share / the share below / everything), order in which the shares were added',
                      'h_index: tree shape (T1..T6), name lengths, history (order of add outer / add nested / scan / remove nested / remove outer / add a '
                      'deeper or sibling nested directory after the removal / scan of that one directory; 16 histories), whether a sibling name is a string-prefix extension of the nested directory\'s name (decided by a fork, part '
                      'of the signature)',
                      'separator masks, word equalities, match outcomes: decided by forking inside the code under test'],
    'bounds': {
        'quick': {'files': '2 (3 in the rescan jobs)', 'free_name_characters': '2..3 per file (one template ~~ ~~)', 'queries': len(QUERIES_QUICK),
                  'symbolic_query_templates': len(QUERIES_SYMBOLIC_QUICK), 'layouts': ['flat', 'sub', 'two'],
                  'pattern_string_length': '0..4', 'selfcheck_string_length': '0..2',
                  'containment_paths': '0..5 free characters each', 'index_trees': 'T1..T6, 1..3 name-length combinations each, all histories (T6: 7 re-nesting histories)'},
        'thorough': {'files': '2..4', 'free_name_characters': '2..4 per file, <= 8 in total (templates with pinned blanks / . / - up to 6 characters)',
                     'queries': len(QUERIES_THOROUGH), 'symbolic_query_templates': len(QUERIES_SYMBOLIC), 'layouts': sorted(LAYOUTS),
                     'histories': ['index', 'incremental', 'scan', 'vanished', 'appeared', 'changed'], 'query_pairs': 6,
                     'pattern_string_length': '0..7', 'selfcheck_string_length': '0..3',
                     'containment_paths': '0..7 free characters each',
                     'index_trees': 'T1..T6, names 1..4 characters (T1/T5: all 16 length pairs; T6: 5 combinations x 7 re-nesting histories), all histories, with concrete and symbolic file names'}},
    'outside': ['of the indexing half: the real os.walk on a real disk in symbolic runs (replays do use it), symlinks, permission / OSError paths of '
                'the scan, Windows path semantics (ntpath, drive letters, case-insensitive names), file attribute extraction (mutagen), '
                'update_shared_directory, load_from_settings, the shares cache (cache.py re-points item.shared_directory on read), more than one '
                'level of shared nesting, trees / histories other than the enumerated ones, directory names longer than 4 characters',
                'PeerSearchReply construction (C08 covers entitlement); excluded_search_phrases; the username / locked split',
                'characters outside Σ, in particular characters whose case mapping is not 1:1 (İ, ß, ſ, K: str.lower(), re.IGNORECASE and '
                'casefold disagree on them -- a file named "İstanbul.mp3" is not found by the query "İstanbul", seen in a concrete probe) and '
                'newlines; more than 8 free name characters / more than 4 files; sub-directory names other than the pinned ones',
                'queries without any include or wildcard term (the code returns nothing; the statement does not say)',
                'which max_results files are returned when more match (any subset of that size is accepted)'],
    'assumptions': ['names within one directory are pairwise distinct and none is "." or ".."',
                    'a term without a letter or digit is ignored (SearchQuery.parse), as the reference does',
                    'whole word = not adjacent to a letter or digit (underscore and punctuation delimit words)'],
}
