"""C19: the room / user views kept by RoomManager and UserManager equal the fold of what the
server announced; events name the announced room / user; blocked senders are not reported.

Every real handler of RoomManager (room/manager.py) and the status / stats / privilege / chat
handlers of UserManager (user/manager.py) is run, through the real EventBus, on a replica whose
*whole pre-state is symbolic*: per room and user the bits "in user list / member / operator /
has ticker", the joined and private flags, the owner, per user status, stats and privilege, the
privileged-user set and the blocking flags are z3 values held in container proxies
(engine/c19sym.py) inside the real Room / User objects.  One execution of a handler therefore
covers every pre-state; the post-state is compared by z3 with a short reference transition.
Because every such state is a valid pre-state and the property is a fold, one step from an
arbitrary state covers histories of any length; scenarios from the constructor state make the
refuting pre-states reachable through the public path for the replays.
"""
from __future__ import annotations

import functools
import sys
import types

from engine import symex
from engine.symex import SBool, SInt, HarnessError
from engine.c19sym import (SymSet, SymObjList, SymMap, SFlag, SName, SEnum, ProxyGap,
                           plain, b_and, b_or, b_not, b_imp, b_ite, eqv)

import aioslsk.events as ev_mod
import aioslsk.room.manager as room_mod
from aioslsk.events import (
    EventBus, MessageReceivedEvent, RoomListEvent, RoomJoinedEvent, RoomLeftEvent, RoomTickersEvent,
    RoomTickerAddedEvent, RoomTickerRemovedEvent, RoomMembershipGrantedEvent, RoomMembershipRevokedEvent,
    RoomMembersEvent, RoomOperatorsEvent, RoomOperatorGrantedEvent, RoomOperatorRevokedEvent,
    RoomMessageEvent, PublicMessageEvent, PrivateMessageEvent, UserStatusUpdateEvent, UserStatsUpdateEvent,
    PrivilegedUsersEvent, PrivilegedUserAddedEvent, PrivilegesUpdateEvent)
from aioslsk.protocol import messages as M
from aioslsk.protocol.primitives import UserStats, RoomTicker
from aioslsk.room.manager import RoomManager
from aioslsk.room.model import Room
from aioslsk.session import Session
from aioslsk.settings import Settings, UsersSettings
from aioslsk.user.manager import UserManager
from aioslsk.user.model import User, UserStatus, BlockingFlag

PROPERTY = 'C19'

ME = 'me0'
USERS = ['me0', 'u1', 'u2']
ROOMS = ['r0', 'r1']
STATS = ('avg_speed', 'uploads', 'shared_file_count', 'shared_folder_count')
FLAG_BITS = 6
RECORDED = (RoomListEvent, RoomJoinedEvent, RoomLeftEvent, RoomTickersEvent, RoomTickerAddedEvent,
            RoomTickerRemovedEvent, RoomMembershipGrantedEvent, RoomMembershipRevokedEvent, RoomMembersEvent,
            RoomOperatorsEvent, RoomOperatorGrantedEvent, RoomOperatorRevokedEvent, RoomMessageEvent,
            PublicMessageEvent, PrivateMessageEvent, UserStatusUpdateEvent, UserStatsUpdateEvent,
            PrivilegedUsersEvent, PrivilegedUserAddedEvent, PrivilegesUpdateEvent)


def code(name):
    """owner code: 0 = no owner"""
    return 0 if name is None else USERS.index(name) + 1


def tok(c, base):
    """a text (ticker / chat line): only stored and compared by the code.  Symbolic: Int token
    in 0..3; concrete replay: the string 't<k>'"""
    v = c.fresh_int(base, 0, 3)
    return v if c.symbolic else f't{v}'


# ------------------------------------------------------------------------------------------
# abstract state of the reference (plain dicts; leaves are python values or symex proxies)
# ------------------------------------------------------------------------------------------

def new_room():
    return {'exists': False, 'joined': False, 'private': None, 'owner': 0,
            'users': {u: 0 for u in USERS}, 'members': {u: False for u in USERS},
            'operators': {u: False for u in USERS}, 'tick': {u: False for u in USERS},
            'tickval': {u: None for u in USERS}}


def new_user(privileged=False):
    d = {'exists': False, 'status': UserStatus.UNKNOWN.value, 'privileged': privileged}
    d.update({f: None for f in STATS})
    return d


def copy_abs(a):
    return {k: (copy_abs(v) if isinstance(v, dict) else v) for k, v in a.items()}


def _room(st, name, private=False):
    r = st['rooms'][name]
    if r['exists'] is not True:
        if r['exists'] is False:
            r.update(new_room())
            r['private'] = private
        r['exists'] = True
    return r


def _user(st, name):
    u = st['users'][name]
    if not u['exists']:
        u.update(new_user(st['priv'][name]))
        u['exists'] = True
    return u


def ref_step(st, md):
    """THE REFERENCE: what one server notification implies for the views (join adds, leave
    removes, grant adds, revoke removes, lists replace).  Names and rooms are concrete here, the
    values written may be symbolic."""
    k = md['kind']
    rn, un = md.get('room'), md.get('user')
    if k == 'RoomList':
        for r in ROOMS:
            cat = md['cats'][r]
            if cat == 'absent':                      # the list replaces the set of known rooms
                st['rooms'][r] = new_room()
                continue
            rm = _room(st, r, cat != 'public')
            rm['private'] = cat != 'public'
            rm['owner'] = code(ME) if cat == 'owned' else b_ite(eqv(rm['owner'], code(ME)), 0, rm['owner'])
            rm['members'][ME] = cat == 'member'
            rm['operators'][ME] = md['oper'][r]
    elif k == 'JoinRoom':
        rm = _room(st, rn)
        rm['joined'] = True
        rm['private'] = md['owner'] is not None
        for u in USERS:
            rm['users'][u] = 1 if u in md['listed'] else 0
        for i, u in enumerate(md['listed']):
            usr = _user(st, u)
            usr['status'] = md['statuses'][i]
            for f in STATS:
                usr[f] = getattr(md['stats'][i], f)
        rm['owner'] = code(md['owner'])
        for u in USERS:
            rm['operators'][u] = u in (md['operators'] or [])
    elif k == 'LeaveRoom':
        rm = _room(st, rn)
        rm['joined'] = False
        for u in USERS:
            rm['users'][u] = 0
    elif k == 'UserJoinedRoom':
        _room(st, rn)['users'][un] = 1
        usr = _user(st, un)
        usr['status'] = md['status']
        for f in STATS:
            usr[f] = getattr(md['stats'], f)
    elif k == 'UserLeftRoom':
        _room(st, rn)['users'][un] = 0
        _user(st, un)
    elif k == 'RoomTickers':
        rm = _room(st, rn)
        for u in USERS:
            rm['tick'][u] = u in md['listed']
        for u, t in zip(md['listed'], md['texts']):
            rm['tickval'][u] = t
    elif k == 'RoomTickerAdded':
        rm = _room(st, rn)
        rm['tick'][un], rm['tickval'][un] = True, md['text']
        _user(st, un)
    elif k == 'RoomTickerRemoved':
        _room(st, rn)['tick'][un] = False
        _user(st, un)
    elif k in ('PrivateRoomGrantMembership', 'PrivateRoomMembershipGranted'):
        _room(st, rn, True)['members'][un] = True
        _user(st, un)
    elif k in ('PrivateRoomRevokeMembership', 'PrivateRoomMembershipRevoked'):
        rm = _room(st, rn, True)
        rm['members'][un] = False
        rm['operators'][un] = False      # an operator is a member: losing membership ends it
        _user(st, un)
    elif k == 'PrivateRoomMembers':
        rm = _room(st, rn, True)
        for u in USERS:
            rm['members'][u] = u in md['listed']
    elif k == 'PrivateRoomOperators':
        rm = _room(st, rn, True)
        for u in USERS:
            rm['operators'][u] = u in md['listed']
    elif k in ('PrivateRoomGrantOperator', 'PrivateRoomOperatorGranted'):
        _room(st, rn, True)['operators'][un] = True
        _user(st, un)
    elif k in ('PrivateRoomRevokeOperator', 'PrivateRoomOperatorRevoked'):
        _room(st, rn, True)['operators'][un] = False
        _user(st, un)
    elif k == 'GetUserStatus':
        usr = _user(st, un)
        usr['status'], usr['privileged'] = md['status'], md['privileged']
    elif k == 'GetUserStats':
        usr = _user(st, un)
        for f in STATS:
            usr[f] = getattr(md['stats'], f)
    elif k == 'AddUser':
        usr = _user(st, un)
        if md['exists']:
            usr['status'] = md['status']
            for f in STATS:
                usr[f] = getattr(md['stats'], f)
    elif k == 'PrivilegedUsers':
        for u in USERS:
            st['priv'][u] = u in md['listed']
            if st['users'][u]['exists']:
                st['users'][u]['privileged'] = u in md['listed']
        for u in md['listed']:
            _user(st, u)
    elif k == 'AddPrivilegedUser':
        _user(st, un)['privileged'] = True
    elif k == 'CheckPrivileges':
        st['time_left'] = md['time_left']
    elif k in ('RoomChatMessage', 'PublicChatMessage'):
        # a chat line changes no view; the room becomes known (unless the sender is blocked)
        if st['rooms'][rn]['exists'] is False:
            st['rooms'][rn] = new_room()
            st['rooms'][rn]['private'] = False
            st['rooms'][rn]['exists'] = None         # may or may not be registered
    elif k == 'PrivateChatMessage':
        pass
    else:
        raise HarnessError(k)
    return st


# ------------------------------------------------------------------------------------------
# building the real managers around a symbolic (or the constructor) state
# ------------------------------------------------------------------------------------------

class _Net:
    def __init__(self):
        self.sent = []

    async def send_server_messages(self, *msgs):
        self.sent.extend(msgs)


class _CapLog:
    """stand-in for aioslsk.events.logger: records what EventBus.emit would only log"""

    def __init__(self, sink):
        self.sink = sink

    def exception(self, *a, **k):
        self.sink.append(sys.exc_info()[1])

    def __getattr__(self, name):
        return lambda *a, **k: None


class Env:
    pass


_MISSING = object()


class Stubs:
    def __init__(self, env):
        self.env = env

    def __enter__(self):
        self.saved = [(ev_mod, 'logger', ev_mod.__dict__.get('logger', _MISSING)),
                      (room_mod, 'time', room_mod.__dict__.get('time', _MISSING))]
        ev_mod.__dict__['logger'] = _CapLog(self.env.excs)
        room_mod.__dict__['time'] = types.SimpleNamespace(time=lambda: 1000.0)
        return self

    def __exit__(self, *a):
        for mod, name, v in self.saved:
            if v is _MISSING:
                mod.__dict__.pop(name, None)
            else:
                mod.__dict__[name] = v


def build(c, init='any', umode='choose', rmode='choose'):
    env = Env()
    env.c = c
    env.excs = []
    env.events = []
    env.settings = Settings(credentials={'username': ME, 'password': 'pw'})
    env.bus = EventBus()
    env.net = _Net()
    env.um = um = UserManager(env.settings, env.bus, env.net)
    um._session = Session(User(ME), ip_address='1.2.3.4', greeting='', client_version=157, minor_version=100)
    env.rm = rm = RoomManager(env.settings, env.bus, um, env.net)
    env.conn = object()          # handlers never look at the connection

    def rec(e):
        env.events.append(e)
    env.rec = rec                # the bus keeps weak references only
    for cls in RECORDED:
        env.bus.register(cls, rec)

    st = {'rooms': {r: new_room() for r in ROOMS}, 'users': {u: new_user() for u in USERS},
          'priv': {u: False for u in USERS}, 'time_left': 0}
    env.user_objs = {}

    # blocking flags are the user's configuration, symbolic in every mode
    env.blocked = {}
    for u in USERS:
        bv = c.fresh_bv(f'blocked_{u}', FLAG_BITS)
        if c.symbolic:
            env.settings.users.blocked[u] = SFlag(bv, FLAG_BITS)
        else:
            env.settings.users.blocked[u] = BlockingFlag(bv)
        env.blocked[u] = bv

    if init == 'empty':
        # constructor state after login: only the own user object exists (held by the session handler)
        me = um.get_self()
        env.user_objs[ME] = me
        st['users'][ME].update(exists=True)
        env.abs = st
        return env

    # ---- arbitrary state -------------------------------------------------------------------
    if umode == 'choose':
        uex = {u: bool(c.choose(2, f'{u}_exists')) for u in USERS}
    elif umode == 'all':
        uex = {u: True for u in USERS}
    elif umode == 'me':
        uex = {u: u == ME for u in USERS}
    else:
        uex = {u: False for u in USERS}
    if rmode == 'choose':
        rex = {r: bool(c.choose(2, f'{r}_exists')) for r in ROOMS}
    else:
        rex = {r: True for r in ROOMS}

    priv_bits = {}
    for u in USERS:
        priv_bits[u] = c.fresh_bool(f'privset_{u}')
        st['priv'][u] = priv_bits[u]
    um._privileged_users = SymSet(priv_bits) if c.symbolic else {u for u in USERS if priv_bits[u]}

    for u in USERS:
        if not uex[u]:
            continue
        s = c.fresh_int(f'{u}_status', -1, 2)
        p = c.fresh_bool(f'{u}_privileged')
        obj = User(name=u, status=SEnum(s, UserStatus) if c.symbolic else UserStatus(s), privileged=p)
        a = st['users'][u]
        a.update(exists=True, status=s, privileged=p)
        for f in STATS:
            v = c.fresh_int(f'{u}_{f}')      # write-only for the handlers: unconstrained
            setattr(obj, f, v)
            a[f] = v
        um._users[u] = obj
        env.user_objs[u] = obj

    for r in ROOMS:
        if not rex[r]:
            continue
        a = st['rooms'][r]
        a['exists'] = True
        a['joined'] = c.fresh_bool(f'{r}_joined')
        a['private'] = c.fresh_bool(f'{r}_private')
        a['owner'] = c.fresh_int(f'{r}_owner', 0, len(USERS))
        present, value = {}, {}
        for u in USERS:
            a['users'][u] = b_ite(c.fresh_bool(f'{r}_user_{u}'), 1, 0) if uex[u] else 0
            a['members'][u] = c.fresh_bool(f'{r}_member_{u}')
            a['operators'][u] = c.fresh_bool(f'{r}_operator_{u}')
            a['tick'][u] = present[u] = c.fresh_bool(f'{r}_ticker_{u}')
            a['tickval'][u] = value[u] = tok(c, f'{r}_tickertext_{u}')
        room = Room(name=r)
        room.joined, room.private = a['joined'], a['private']
        known = [u for u in USERS if uex[u]]
        if c.symbolic:
            room.owner = SName(a['owner'], USERS)
            room.users = SymObjList([env.user_objs[u] for u in known], [a['users'][u] for u in known])
            room.members = SymSet(a['members'])
            room.operators = SymSet(a['operators'])
            room.tickers = SymMap(present, value)
        else:
            room.owner = None if a['owner'] == 0 else USERS[a['owner'] - 1]
            room.users = [env.user_objs[u] for u in known if a['users'][u]]
            room.members = {u for u in USERS if a['members'][u]}
            room.operators = {u for u in USERS if a['operators'][u]}
            room.tickers = {u: value[u] for u in USERS if present[u]}
        rm._rooms[r] = room
    env.abs = st
    return env


def is_blocked(env, u, flag):
    bv = env.blocked[u]
    if isinstance(bv, int):
        return bool(bv & int(flag))
    return plain(SFlag(bv, FLAG_BITS).has(flag))


# ------------------------------------------------------------------------------------------
# messages
# ------------------------------------------------------------------------------------------

SELF_KINDS = ('PrivateRoomMembershipGranted', 'PrivateRoomMembershipRevoked', 'PrivateRoomOperatorGranted',
              'PrivateRoomOperatorRevoked')
ROOM_USER_KINDS = ('UserJoinedRoom', 'UserLeftRoom', 'RoomTickerAdded', 'RoomTickerRemoved',
                   'PrivateRoomGrantMembership', 'PrivateRoomRevokeMembership', 'PrivateRoomGrantOperator',
                   'PrivateRoomRevokeOperator', 'RoomChatMessage', 'PublicChatMessage')
ROOM_KINDS = ('LeaveRoom',) + SELF_KINDS
USER_KINDS = ('GetUserStatus', 'GetUserStats', 'AddUser', 'AddPrivilegedUser', 'PrivateChatMessage')
LIST_KINDS = ('PrivateRoomMembers', 'PrivateRoomOperators', 'RoomTickers')
ALL_KINDS = ROOM_USER_KINDS + ROOM_KINDS + USER_KINDS + LIST_KINDS + ('PrivilegedUsers', 'CheckPrivileges',
                                                                      'JoinRoom', 'RoomList')


def num(c, name):
    """a number the code only stores and hands on (stats, counts, ids): an unconstrained Int - a
    superset of the uint32 / uint64 wire range, and two solver assertions cheaper per variable"""
    return c.fresh_int(name)


def _stats(c, p):
    return UserStats(**{f: num(c, f'{p}{f}') for f in STATS})


def _mask(m):
    return [u for i, u in enumerate(USERS) if (m >> i) & 1]


def make_msg(c, sp, i):
    """sp: JSON-able step description {'k': kind, 'r': room index, 'u': user index, ...}.
    Returns (message, md) - md is what the reference and the event checks read."""
    k = sp['k']
    p = f's{i}_'
    rn = ROOMS[sp['r']] if 'r' in sp else None
    un = USERS[sp['u']] if 'u' in sp else None
    md = {'kind': k, 'room': rn, 'user': un}
    if k in SELF_KINDS:
        md['user'] = ME
        msg = getattr(M, k).Response(room=rn)
    elif k == 'LeaveRoom':
        msg = M.LeaveRoom.Response(room=rn)
    elif k == 'UserJoinedRoom':
        md['status'], md['stats'] = c.fresh_int(p + 'status', 0, 2), _stats(c, p)
        msg = M.UserJoinedRoom.Response(room=rn, username=un, status=md['status'], user_stats=md['stats'],
                                        slots_free=num(c, p + 'slots_free'), country_code='DE')
    elif k in ('UserLeftRoom', 'RoomTickerRemoved', 'PrivateRoomGrantMembership', 'PrivateRoomRevokeMembership',
               'PrivateRoomGrantOperator', 'PrivateRoomRevokeOperator'):
        msg = getattr(M, k).Response(room=rn, username=un)
    elif k == 'RoomTickerAdded':
        md['text'] = tok(c, p + 'text')
        msg = M.RoomTickerAdded.Response(room=rn, username=un, ticker=md['text'])
    elif k in ('RoomChatMessage', 'PublicChatMessage'):
        md['text'] = tok(c, p + 'text')
        msg = getattr(M, k).Response(room=rn, username=un, message=md['text'])
    elif k == 'PrivateChatMessage':
        md['text'] = tok(c, p + 'text')
        md['chat_id'], md['timestamp'] = num(c, p + 'chat_id'), num(c, p + 'timestamp')
        md['is_direct'] = c.fresh_bool(p + 'is_direct')
        msg = M.PrivateChatMessage.Response(chat_id=md['chat_id'], timestamp=md['timestamp'], username=un,
                                            message=md['text'], is_direct=md['is_direct'])
    elif k == 'GetUserStatus':
        md['status'], md['privileged'] = c.fresh_int(p + 'status', 0, 2), c.fresh_bool(p + 'privileged')
        msg = M.GetUserStatus.Response(username=un, status=md['status'], privileged=md['privileged'])
    elif k == 'GetUserStats':
        md['stats'] = _stats(c, p)
        msg = M.GetUserStats.Response(username=un, user_stats=md['stats'])
    elif k == 'AddUser':
        md['exists'] = bool(sp.get('exists', 1))
        if md['exists']:
            md['status'], md['stats'] = c.fresh_int(p + 'status', 0, 2), _stats(c, p)
            msg = M.AddUser.Response(username=un, exists=True, status=md['status'], user_stats=md['stats'],
                                     country_code='DE')
        else:
            msg = M.AddUser.Response(username=un, exists=False)
    elif k == 'AddPrivilegedUser':
        msg = M.AddPrivilegedUser.Response(username=un)
    elif k == 'CheckPrivileges':
        md['time_left'] = num(c, p + 'time_left')
        msg = M.CheckPrivileges.Response(time_left=md['time_left'])
    elif k in ('PrivateRoomMembers', 'PrivateRoomOperators'):
        md['listed'] = _mask(sp['m'])
        msg = getattr(M, k).Response(room=rn, usernames=list(md['listed']))
    elif k == 'PrivilegedUsers':
        md['listed'] = _mask(sp['m'])
        msg = M.PrivilegedUsers.Response(users=list(md['listed']))
    elif k == 'RoomTickers':
        md['listed'] = _mask(sp['m'])
        md['texts'] = [tok(c, f'{p}text_{u}') for u in md['listed']]
        msg = M.RoomTickers.Response(room=rn, tickers=[RoomTicker(u, t) for u, t in zip(md['listed'], md['texts'])])
    elif k == 'JoinRoom':
        md['listed'] = _mask(sp['m'])
        if sp.get('st', 'linked') == 'linked' and md['listed']:
            # one symbolic status, a different one per position (keeps the index wiring observable)
            s0 = c.fresh_int(p + 'status', 0, 2)
            md['statuses'] = [s0] + [(s0 + j) % 3 for j in range(1, len(md['listed']))]
        else:
            md['statuses'] = [c.fresh_int(f'{p}status_{u}', 0, 2) for u in md['listed']]
        md['stats'] = [_stats(c, f'{p}{u}_') for u in md['listed']]
        md['owner'] = None if sp.get('o', 0) == 0 else USERS[sp['o'] - 1]
        md['operators'] = None if sp.get('ops', -1) < 0 else _mask(sp['ops'])
        msg = M.JoinRoom.Response(
            room=rn, users=list(md['listed']), users_status=list(md['statuses']), users_stats=list(md['stats']),
            users_slots_free=[num(c, f'{p}{u}_slots_free') for u in md['listed']],
            users_countries=['DE'] * len(md['listed']), owner=md['owner'],
            operators=None if md['operators'] is None else list(md['operators']))
    elif k == 'RoomList':
        md['cats'] = dict(zip(ROOMS, sp['cats']))
        md['oper'] = {r: bool(o) for r, o in zip(ROOMS, sp['oper'])}
        pub = [r for r in ROOMS if md['cats'][r] == 'public']
        own = [r for r in ROOMS if md['cats'][r] == 'owned']
        mem = [r for r in ROOMS if md['cats'][r] == 'member']
        msg = M.RoomList.Response(
            rooms=pub, rooms_user_count=[num(c, f'{p}{r}_count') for r in pub],
            rooms_private_owned=own, rooms_private_owned_user_count=[num(c, f'{p}{r}_count') for r in own],
            rooms_private=mem, rooms_private_user_count=[num(c, f'{p}{r}_count') for r in mem],
            rooms_private_operated=[r for r in ROOMS if md['oper'][r]])
    else:
        raise HarnessError(f'unknown kind {k}')
    tu = md['user']
    md['who'] = '-' if tu is None else ('self' if tu == ME else 'other')
    return msg, md


def deliver(env, msg):
    """what DataConnection._perform_message_callback -> Network.on_message_received does: a
    MessageReceivedEvent on the real bus; both managers' _on_message_received listeners run"""
    coro = env.bus.emit(MessageReceivedEvent(message=msg, connection=env.conn))
    try:
        coro.send(None)
    except StopIteration:
        pass
    else:
        coro.close()
        raise HarnessError('a handler suspended')
    for e in env.excs:
        if isinstance(e, HarnessError):
            raise e


# ------------------------------------------------------------------------------------------
# reading the views back
# ------------------------------------------------------------------------------------------

def owner_code(o):
    if o is None:
        return 0
    if isinstance(o, SName):
        return plain(o.e)
    if isinstance(o, str) and o in USERS:
        return code(o)
    return -1


def status_val(s):
    if isinstance(s, (UserStatus, SEnum)):
        return s.value
    return -99


def set_view(s):
    """-> (bit per universe name, 'something outside the universe is in it')"""
    if isinstance(s, SymSet):
        return {u: s.bit(u) for u in USERS}, b_or(*[b for k, b in s.bits.items() if k not in USERS], False)
    try:
        items = set(s)
    except TypeError:
        return {u: False for u in USERS}, True
    return {u: u in items for u in USERS}, any(x not in USERS for x in items)


def users_view(env, lst):
    """-> (multiplicity per universe name, 'holds something that is not the shared user object')"""
    counts = {u: 0 for u in USERS}
    foreign = False
    if isinstance(lst, SymObjList):
        for o, n in zip(lst.objs, lst.counts):
            counts[o.name] = n
        extra = lst.tail
    elif isinstance(lst, (list, tuple)):
        extra = lst
    else:
        return counts, True
    for x in extra:
        name = getattr(x, 'name', None)
        if isinstance(x, User) and name in counts and env.um._users.get(name) is x:
            counts[name] = plain(counts[name] + 1)
        else:
            foreign = True
    return counts, foreign


def tick_view(t):
    if isinstance(t, SymMap):
        return ({u: t.has(u) for u in USERS}, {u: t.value.get(u) for u in USERS},
                b_or(*[b for k, b in t.present.items() if k not in USERS], False))
    if not isinstance(t, dict):
        return {u: False for u in USERS}, {u: None for u in USERS}, True
    return {u: u in t for u in USERS}, {u: t.get(u) for u in USERS}, any(k not in USERS for k in t)


def view_room(env, room):
    if room is None:
        d = new_room()
        d.update(foreign=False, extra_m=False, extra_o=False, extra_t=False)
        return d
    users, foreign = users_view(env, room.users)
    members, extra_m = set_view(room.members)
    operators, extra_o = set_view(room.operators)
    tick, tickval, extra_t = tick_view(room.tickers)
    return {'joined': room.joined, 'private': room.private, 'owner': owner_code(room.owner), 'users': users,
            'members': members, 'operators': operators, 'tick': tick, 'tickval': tickval, 'foreign': foreign,
            'extra_m': extra_m, 'extra_o': extra_o, 'extra_t': extra_t}


# ------------------------------------------------------------------------------------------
# obligations
# ------------------------------------------------------------------------------------------

def compare(c, env, exp, md):
    kind, who = md['kind'], md['who']
    info = {'handler_exception': repr(env.excs[0])} if env.excs else None

    failed = []

    def chk(cond, label, sig, extra=None, got=None, want=None):
        cond = plain(cond)
        if not c.symbolic and not bool(cond):
            c.note('MISMATCH', label, sig, 'got', _show(got), 'expected', _show(want))
        ok = c.check(cond, label, sig=sig, info=extra if extra is not None else info)
        if not ok:
            failed.append(label)
        return ok

    # ---- rooms ---------------------------------------------------------------------------
    for r in ROOMS:
        part = 'all' if kind == 'RoomList' else ('target' if r == md['room'] else 'other')
        sig = [kind, who, part]
        er = exp['rooms'][r]
        room = env.rm._rooms.get(r)
        if kind == 'RoomList':
            chk((room is not None) == bool(er['exists']), 'room_set', sig)
        v = view_room(env, room)
        chk(eqv(v['joined'], er['joined']), 'room_joined', sig, got=v['joined'], want=er['joined'])
        chk(b_and(b_not(v['foreign']), *[eqv(v['users'][u], er['users'][u]) for u in USERS]), 'room_users', sig,
            got=[r, v['users'], 'foreign objects' if v['foreign'] else ''], want=er['users'])
        chk(eqv(v['owner'], er['owner']), 'room_owner', sig, got=v['owner'], want=er['owner'])
        chk(b_and(b_not(v['extra_m']), *[eqv(v['members'][u], er['members'][u]) for u in USERS]), 'room_members', sig,
            got=[r, v['members']], want=er['members'])
        chk(b_and(b_not(v['extra_o']), *[eqv(v['operators'][u], er['operators'][u]) for u in USERS]),
            'room_operators', sig, got=[r, v['operators']], want=er['operators'])
        chk(b_and(b_not(v['extra_t']),
                  *[b_and(eqv(v['tick'][u], er['tick'][u]),
                          b_imp(er['tick'][u], eqv(v['tickval'][u], er['tickval'][u]))) for u in USERS]),
            'room_tickers', sig, got=[r, v['tick'], v['tickval']], want=[er['tick'], er['tickval']])
        if room is not None and er['private'] is not None:
            chk(eqv(v['private'], er['private']), 'room_private', sig, got=v['private'], want=er['private'])
        if er['exists'] is None:
            er['exists'] = room is not None

    # ---- users ------------------------------------------------------------------------------
    touched = set(md.get('listed', ())) | ({md['user']} if md['user'] else set())
    if kind in ('PrivateRoomMembers', 'PrivateRoomOperators', 'RoomTickers'):
        touched = set()          # names in these lists say nothing about the users themselves
    for u in USERS:
        sig = [kind, who, 'target' if u in touched else 'other']
        obj = env.um._users.get(u)
        if u in env.user_objs:
            chk(obj is env.user_objs[u], 'user_object_shared', sig)
        eu = exp['users'][u]
        if obj is None:
            # nobody references the user any more: there is no view, the next mention starts afresh
            exp['users'][u] = new_user()
            continue
        if not eu['exists']:
            eu.update(new_user(exp['priv'][u]))
            eu['exists'] = True
        env.user_objs.setdefault(u, obj)
        chk(eqv(status_val(obj.status), eu['status']), 'user_status', sig, got=[u, status_val(obj.status)],
            want=eu['status'])
        chk(b_and(*[eqv(getattr(obj, f), eu[f]) for f in STATS]), 'user_stats', sig,
            got=[u] + [getattr(obj, f) for f in STATS], want=[eu[f] for f in STATS])
        chk(eqv(obj.privileged, eu['privileged']), 'user_privileged', sig, got=[u, obj.privileged],
            want=eu['privileged'])

    # ---- what later views are derived from ---------------------------------------------------
    pbits, pextra = set_view(env.um._privileged_users)
    conds = [b_not(pextra)]
    for u in USERS:
        if kind == 'AddPrivilegedUser' and u == md['user']:
            conds.append(b_imp(exp['priv'][u], pbits[u]))     # recording the grant or not are both accepted
            exp['priv'][u] = pbits[u]
        else:
            conds.append(eqv(pbits[u], exp['priv'][u]))
    chk(b_and(*conds), 'privileged_set', [kind, who], got=pbits, want=exp['priv'])
    chk(eqv(env.um._session.privileges_time_left, exp['time_left']), 'own_privileges', [kind, who])

    check_events(c, env, md, chk)
    return not failed


def _show(v):
    try:
        import json
        json.dumps(v)
        return v
    except Exception:  # noqa
        return repr(v)


def _ids(xs):
    return sorted(id(x) for x in xs)


def check_events(c, env, md, chk):
    kind, who = md['kind'], md['who']
    sig = [kind, who]
    evs = env.events
    room = env.rm._rooms.get(md['room']) if md['room'] else None
    user = env.um._users.get(md['user']) if md['user'] else None
    me = env.um._users.get(ME)

    def one(cls):
        ok = len(evs) == 1 and type(evs[0]) is cls
        chk(ok, 'event_emitted', sig, {'events': [type(e).__name__ for e in evs],
                                       'handler_exception': repr(env.excs[:1])})
        return evs[0] if ok else None

    def room_ok(e, got):
        chk(room is not None and got is room and room.name == md['room'], 'event_room', sig)

    def user_ok(e, got, self_kind=False):
        if self_kind:
            chk(got is None or (me is not None and got is me), 'event_user', sig)
        else:
            chk(user is not None and got is user and user.name == md['user'], 'event_user', sig)

    if kind in ('RoomChatMessage', 'PublicChatMessage', 'PrivateChatMessage'):
        flag = BlockingFlag.PRIVATE_MESSAGES if kind == 'PrivateChatMessage' else BlockingFlag.ROOM_MESSAGES
        blocked = is_blocked(env, md['user'], flag) if md.get('in_blocklist', True) else False
        cls = {'RoomChatMessage': RoomMessageEvent, 'PublicChatMessage': PublicMessageEvent,
               'PrivateChatMessage': PrivateMessageEvent}[kind]
        n = len(evs)
        c.reach('chat_blocked' if n == 0 else 'chat_reported')
        chk(b_imp(blocked, n == 0), 'blocked_not_reported', sig)
        chk(b_imp(b_not(blocked), n == 1 and type(evs[0]) is cls), 'event_emitted', sig,
            {'events': [type(e).__name__ for e in evs], 'handler_exception': repr(env.excs[:1])})
        if n == 1 and type(evs[0]) is cls:
            e = evs[0]
            if kind == 'RoomChatMessage':
                room_ok(e, e.message.room)
                user_ok(e, e.message.user)
                chk(eqv(e.message.message, md['text']), 'event_payload', sig)
            elif kind == 'PublicChatMessage':
                room_ok(e, e.room)
                user_ok(e, e.user)
                chk(eqv(e.message, md['text']), 'event_payload', sig)
            else:
                user_ok(e, e.message.user)
                chk(b_and(eqv(e.message.message, md['text']), eqv(e.message.id, md['chat_id']),
                          eqv(e.message.timestamp, md['timestamp']), eqv(e.message.is_direct, md['is_direct'])),
                    'event_payload', sig)
        return

    if kind == 'AddUser':
        return                              # announced through the tracking events (C15), not here
    if kind == 'RoomList':
        e = one(RoomListEvent)
        if e:
            chk(_ids(e.rooms) == _ids(env.rm._rooms.values()), 'event_payload', sig)
    elif kind in ('JoinRoom', 'UserJoinedRoom'):
        e = one(RoomJoinedEvent)
        if e:
            room_ok(e, e.room)
            user_ok(e, e.user, kind == 'JoinRoom')
    elif kind in ('LeaveRoom', 'UserLeftRoom'):
        e = one(RoomLeftEvent)
        if e:
            room_ok(e, e.room)
            user_ok(e, e.user, kind == 'LeaveRoom')
    elif kind == 'RoomTickers':
        e = one(RoomTickersEvent)
        if e:
            room_ok(e, e.room)
            want = dict(zip(md['listed'], md['texts']))
            got = dict(e.tickers.items())
            chk(set(got) == set(want) and b_and(*[eqv(got[u], want[u]) for u in want if u in got]),
                'event_payload', sig)
    elif kind == 'RoomTickerAdded':
        e = one(RoomTickerAddedEvent)
        if e:
            room_ok(e, e.room)
            user_ok(e, e.user)
            chk(eqv(e.ticker, md['text']), 'event_payload', sig)
    elif kind == 'RoomTickerRemoved':
        e = one(RoomTickerRemovedEvent)
        if e:
            room_ok(e, e.room)
            user_ok(e, e.user)
    elif kind in ('PrivateRoomGrantMembership', 'PrivateRoomMembershipGranted'):
        e = one(RoomMembershipGrantedEvent)
        if e:
            room_ok(e, e.room)
            user_ok(e, e.member, kind in SELF_KINDS)
    elif kind in ('PrivateRoomRevokeMembership', 'PrivateRoomMembershipRevoked'):
        e = one(RoomMembershipRevokedEvent)
        if e:
            room_ok(e, e.room)
            user_ok(e, e.member, kind in SELF_KINDS)
    elif kind in ('PrivateRoomGrantOperator', 'PrivateRoomOperatorGranted'):
        e = one(RoomOperatorGrantedEvent)
        if e:
            room_ok(e, e.room)
            user_ok(e, e.member, kind in SELF_KINDS)
    elif kind in ('PrivateRoomRevokeOperator', 'PrivateRoomOperatorRevoked'):
        e = one(RoomOperatorRevokedEvent)
        if e:
            room_ok(e, e.room)
            user_ok(e, e.member, kind in SELF_KINDS)
    elif kind in ('PrivateRoomMembers', 'PrivateRoomOperators'):
        e = one(RoomMembersEvent if kind == 'PrivateRoomMembers' else RoomOperatorsEvent)
        if e:
            room_ok(e, e.room)
            got = e.members if kind == 'PrivateRoomMembers' else e.operators
            want = [env.um._users.get(u) for u in md['listed']]
            chk(all(w is not None for w in want) and _ids(got) == _ids(want), 'event_payload', sig)
    elif kind in ('GetUserStatus', 'GetUserStats'):
        e = one(UserStatusUpdateEvent if kind == 'GetUserStatus' else UserStatsUpdateEvent)
        if e:
            user_ok(e, e.current)
            chk(e.before is not e.current and e.before.name == md['user'], 'event_payload', sig)
    elif kind == 'PrivilegedUsers':
        e = one(PrivilegedUsersEvent)
        if e:
            want = [env.um._users.get(u) for u in md['listed']]
            chk(all(w is not None for w in want) and _ids(e.users) == _ids(want), 'event_payload', sig)
    elif kind == 'AddPrivilegedUser':
        e = one(PrivilegedUserAddedEvent)
        if e:
            user_ok(e, e.user)
    elif kind == 'CheckPrivileges':
        e = one(PrivilegesUpdateEvent)
        if e:
            chk(eqv(e.time_left, md['time_left']), 'event_payload', sig)
    else:
        raise HarnessError(kind)


# ------------------------------------------------------------------------------------------
# harnesses
# ------------------------------------------------------------------------------------------

def h_run(c, steps, init='any', umode='choose', rmode='choose'):
    """deliver `steps` (1 for the inductive step, 2-3 for scenarios) starting from an arbitrary
    state (init='any') or from the constructor state (init='empty')"""
    env = build(c, init, umode, rmode)
    exp = env.abs
    with Stubs(env):
        for i, sp in enumerate(steps):
            msg, md = make_msg(c, sp, i)
            if sp.get('nb') and md['user']:
                # the sender is not in the block list at all (dict.get default path)
                env.settings.users.blocked.pop(md['user'], None)
                md['in_blocklist'] = False
            exp = ref_step(copy_abs(exp), md)
            del env.events[:]
            del env.excs[:]
            deliver(env, msg)
            if not c.symbolic:
                c.note('step', i, repr(msg))
            c.reach('delivered')
            c.reach('kind:' + md['kind'])
            for e in env.excs:
                c.note('handler exception', md['kind'], repr(e))
            if not compare(c, env, exp, md):
                # the replica has diverged from the reference: what later notifications do to it would only
                # repeat this finding under their own signature
                c.note('scenario stopped after the first refuted step', i)
                break


# ------------------------------------------------------------------------------------------
# jobs
# ------------------------------------------------------------------------------------------

def _step_variants(tier):
    q = tier == 'quick'
    out = []
    for k in ROOM_USER_KINDS:
        for r in range(2):
            for u in range(3):
                out.append({'k': k, 'r': r, 'u': u})
    for k in ('RoomChatMessage', 'PublicChatMessage'):
        for u in range(3):
            out.append({'k': k, 'r': 0, 'u': u, 'nb': 1})
    for k in ROOM_KINDS:
        for r in range(2):
            out.append({'k': k, 'r': r})
    for k in USER_KINDS:
        for u in range(3):
            out.append({'k': k, 'u': u})
    for u in range(3):
        out.append({'k': 'AddUser', 'u': u, 'exists': 0})
        out.append({'k': 'PrivateChatMessage', 'u': u, 'nb': 1})
    out.append({'k': 'CheckPrivileges'})
    for k in LIST_KINDS:
        for r in range(2):
            for m in range(8):
                out.append({'k': k, 'r': r, 'm': m})
    for m in range(8):
        out.append({'k': 'PrivilegedUsers', 'm': m})
    for r in range(2):
        if q:
            # every listed subset with one owner/operator shape, every owner/operator shape with one subset
            for m in range(8):
                out.append({'k': 'JoinRoom', 'r': r, 'm': m, 'o': 0, 'ops': -1})
            for o in range(4):
                for ops in (-1, 0, 5):
                    if (o, ops) != (0, -1):
                        out.append({'k': 'JoinRoom', 'r': r, 'm': 2 if r == 0 else 1, 'o': o, 'ops': ops})
        else:
            # listed users, owner and operator list are written to different fields: every listed subset with 6
            # owner/operator shapes, every owner x operator-list shape with 2 listed subsets
            shapes = set()
            for m in range(8):
                for o, ops in ((0, -1), (0, 0), (1, 5), (2, 2), (3, 7), (2, -1)):
                    shapes.add((m, o, ops))
            for o in range(4):
                for ops in range(-1, 8):
                    shapes.add((2 if r == 0 else 1, o, ops))
                    shapes.add((5, o, ops))
            for m, o, ops in sorted(shapes):
                out.append({'k': 'JoinRoom', 'r': r, 'm': m, 'o': o, 'ops': ops})
            for m in (3, 5, 6, 7):
                out.append({'k': 'JoinRoom', 'r': r, 'm': m, 'o': 2, 'ops': 3, 'st': 'free'})
    cats = ('absent', 'public', 'owned', 'member')
    for c0 in cats:
        for c1 in cats:
            for o0 in (0, 1):
                for o1 in (0, 1):
                    if q and o0 != o1 and c0 != c1 and 'absent' not in (c0, c1):
                        continue
                    out.append({'k': 'RoomList', 'cats': [c0, c1], 'oper': [o0, o1]})
    return out


SCENARIOS = [
    # reachability of the refuting pre-states from the constructor state (replays through the public path)
    [{'k': 'PrivateRoomOperatorGranted', 'r': 0}],
    [{'k': 'PrivateRoomMembershipGranted', 'r': 0}, {'k': 'PrivateRoomOperatorGranted', 'r': 0}],
    [{'k': 'PrivateRoomOperatorGranted', 'r': 0}, {'k': 'PrivateRoomOperatorRevoked', 'r': 0}],
    [{'k': 'PrivateRoomGrantOperator', 'r': 0, 'u': 1}, {'k': 'PrivateRoomRevokeOperator', 'r': 0, 'u': 1},
     {'k': 'PrivateRoomOperators', 'r': 0, 'm': 4}],
    [{'k': 'UserJoinedRoom', 'r': 0, 'u': 1}, {'k': 'JoinRoom', 'r': 0, 'm': 4, 'o': 0, 'ops': -1}],
    [{'k': 'JoinRoom', 'r': 0, 'm': 3, 'o': 0, 'ops': -1}, {'k': 'JoinRoom', 'r': 0, 'm': 1, 'o': 0, 'ops': -1}],
    [{'k': 'JoinRoom', 'r': 0, 'm': 3, 'o': 0, 'ops': -1}, {'k': 'LeaveRoom', 'r': 0},
     {'k': 'UserJoinedRoom', 'r': 0, 'u': 2}],
    [{'k': 'JoinRoom', 'r': 1, 'm': 7, 'o': 2, 'ops': 2}, {'k': 'UserLeftRoom', 'r': 1, 'u': 2},
     {'k': 'UserLeftRoom', 'r': 1, 'u': 2}],
    [{'k': 'UserJoinedRoom', 'r': 0, 'u': 1}, {'k': 'UserJoinedRoom', 'r': 0, 'u': 1}, {'k': 'UserLeftRoom', 'r': 0, 'u': 1}],
    [{'k': 'RoomTickers', 'r': 0, 'm': 3}, {'k': 'RoomTickerRemoved', 'r': 0, 'u': 1}, {'k': 'RoomTickerRemoved', 'r': 0, 'u': 1}],
    [{'k': 'RoomTickerAdded', 'r': 0, 'u': 2}, {'k': 'RoomTickerAdded', 'r': 0, 'u': 2}, {'k': 'RoomTickers', 'r': 0, 'm': 1}],
    [{'k': 'PrivateRoomGrantMembership', 'r': 1, 'u': 1}, {'k': 'PrivateRoomGrantOperator', 'r': 1, 'u': 1},
     {'k': 'PrivateRoomRevokeMembership', 'r': 1, 'u': 1}],
    [{'k': 'PrivateRoomMembers', 'r': 1, 'm': 6}, {'k': 'PrivateRoomRevokeMembership', 'r': 1, 'u': 2},
     {'k': 'PrivateRoomMembers', 'r': 1, 'm': 2}],
    [{'k': 'RoomList', 'cats': ['member', 'owned'], 'oper': [1, 0]}, {'k': 'RoomList', 'cats': ['public', 'absent'], 'oper': [0, 0]}],
    [{'k': 'RoomList', 'cats': ['owned', 'public'], 'oper': [0, 0]}, {'k': 'PrivateRoomMembershipRevoked', 'r': 0},
     {'k': 'RoomList', 'cats': ['absent', 'public'], 'oper': [0, 0]}],
    [{'k': 'PrivateRoomOperatorGranted', 'r': 1}, {'k': 'RoomList', 'cats': ['absent', 'member'], 'oper': [0, 1]}],
    [{'k': 'PrivilegedUsers', 'm': 2}, {'k': 'UserJoinedRoom', 'r': 0, 'u': 1}, {'k': 'GetUserStatus', 'u': 1}],
    [{'k': 'UserJoinedRoom', 'r': 0, 'u': 1}, {'k': 'AddPrivilegedUser', 'u': 1}, {'k': 'PrivilegedUsers', 'm': 4}],
    [{'k': 'UserJoinedRoom', 'r': 0, 'u': 2}, {'k': 'GetUserStats', 'u': 2}, {'k': 'UserJoinedRoom', 'r': 1, 'u': 2}],
    [{'k': 'UserJoinedRoom', 'r': 0, 'u': 1}, {'k': 'AddUser', 'u': 1}, {'k': 'AddUser', 'u': 1, 'exists': 0}],
    [{'k': 'RoomChatMessage', 'r': 0, 'u': 1}, {'k': 'PublicChatMessage', 'r': 1, 'u': 2}, {'k': 'PrivateChatMessage', 'u': 1}],
    [{'k': 'CheckPrivileges'}, {'k': 'GetUserStatus', 'u': 0}],
]


def _pairs():
    """thorough: every ordered pair over a reduced alphabet (36 letters: one room, users me/u1) from the constructor state"""
    alpha = []
    for k in ROOM_USER_KINDS:
        for u in (0, 1):
            alpha.append({'k': k, 'r': 0, 'u': u})
    for k in ROOM_KINDS:
        alpha.append({'k': k, 'r': 0})
    for k in ('GetUserStatus', 'GetUserStats', 'AddPrivilegedUser'):
        alpha.append({'k': k, 'u': 1})
    for k in LIST_KINDS:
        alpha.append({'k': k, 'r': 0, 'm': 2})
    alpha.append({'k': 'PrivilegedUsers', 'm': 2})
    alpha.append({'k': 'JoinRoom', 'r': 0, 'm': 1, 'o': 0, 'ops': -1})
    alpha.append({'k': 'JoinRoom', 'r': 0, 'm': 2, 'o': 2, 'ops': 2})
    alpha.append({'k': 'RoomList', 'cats': ['member', 'absent'], 'oper': [1, 0]})
    alpha.append({'k': 'RoomList', 'cats': ['absent', 'public'], 'oper': [0, 0]})
    return [[a, b] for a in alpha for b in alpha]


@functools.lru_cache(maxsize=None)
def _jobs(tier):
    q = tier == 'quick'
    out = []
    for sp in _step_variants(tier):
        k = sp['k']
        if not q and k == 'JoinRoom' and (sp['o'], sp['ops']) != (0, -1):
            umodes = ['all', 'me', 'none']    # (every subset of pre-existing users only with the plain shape)
        elif not q:
            umodes = ['choose']
        elif k in ('RoomList', 'PrivilegedUsers') + LIST_KINDS:
            umodes = ['all', 'none']
        else:
            umodes = ['all', 'me', 'none']
        req = ['delivered', 'kind:' + k]
        if k in ('RoomChatMessage', 'PublicChatMessage', 'PrivateChatMessage'):
            req += ['chat_reported'] if sp.get('nb') else ['chat_reported', 'chat_blocked']
        for um in umodes:
            out.append({'harness': 'step', 'fn': h_run, 'params': {'steps': [sp], 'init': 'any', 'umode': um},
                        'requires': req})
    for sc in SCENARIOS + ([] if q else _pairs()):
        # (a refuted obligation that can never hold cuts the path, so only the first step is *required*)
        out.append({'harness': 'scenario', 'fn': h_run, 'params': {'steps': sc, 'init': 'empty'},
                    'requires': ['delivered', 'kind:' + sc[0]['k']]})
    return out


def jobs(tier):
    return list(_jobs(tier))


def prelude(tier):
    """the container proxies are stubs: compare them with the real set / list / dict / IntFlag on
    every content (decided by the engine) before anything is claimed with them"""
    from engine import c19sym
    r = c19sym.validate(depth=1 if tier == 'quick' else 2, flag_enum=BlockingFlag)
    return [f"proxy validation: {r['runs']} operation sequences, {r['paths']} paths, "
            f"{r['discharged']}/{r['obligations']} agreement obligations discharged"]


META = {
    'level': 'other',
    'technique': 'symbolic execution of the real RoomManager / UserManager notification handlers on a replica whose '
                 'whole pre-state is z3-backed (membership bits, flags, owner, status, stats, blocking flags), '
                 'post-state decided by z3 against a reference transition; one inductive step from an arbitrary state',
    'explanation': 'The real handlers run through the real EventBus (MessageReceivedEvent -> _on_message_received -> '
                   '_MESSAGE_MAP) on real Room / User objects whose sets, lists and dicts are container proxies '
                   'carrying one z3 Bool (or multiplicity / value) per user name; joined / private flags, owner, '
                   'status, the four stats, privileged, the privileged-user set and the 6-bit blocking flags are z3 '
                   'values too. A handler execution forks only where the code asks the replica a question; every '
                   'obligation compares the resulting view with the reference transition for all pre-states and all '
                   'message values on that path. Counterexample models are replayed on real set/list/dict containers.',
    'functions': [
        RoomManager._on_message_received, RoomManager.get_or_create_room, RoomManager._on_chat_room_message,
        RoomManager._on_public_chat_message, RoomManager._on_user_joined_room, RoomManager._on_user_left_room,
        RoomManager._on_join_room, RoomManager._on_leave_room, RoomManager._on_chat_room_tickers,
        RoomManager._on_chat_room_ticker_added, RoomManager._on_chat_room_ticker_removed,
        RoomManager._on_private_room_add_user, RoomManager._on_private_room_added,
        RoomManager._on_private_room_remove_user, RoomManager._on_private_room_removed,
        RoomManager._on_private_room_users, RoomManager._on_private_room_operators, RoomManager._on_operator_granted,
        RoomManager._on_operator_revoked, RoomManager._on_user_operator_granted,
        RoomManager._on_user_operator_revoked, RoomManager._on_room_list, Room.add_user, Room.remove_user,
        UserManager._on_message_received, UserManager.get_user_object, UserManager.get_self,
        UserManager._on_private_message, UserManager._on_check_privileges, UserManager._on_privileged_users,
        UserManager._on_add_privileged_user, UserManager._on_add_user, UserManager._on_get_user_status,
        UserManager._on_get_user_stats, User.update_from_user_stats, UsersSettings.is_blocked, EventBus.emit],
    'stubs': [
        'Room.users / members / operators / tickers, UserManager._privileged_users of the pre-state -> '
        'engine.c19sym.SymObjList / SymSet / SymMap (finite-universe containers with z3 membership); real '
        'set/list/dict in concrete replay and whenever the code assigns a fresh container',
        'Room.owner of the pre-state -> SName (z3 Int over None + 3 names); User.status of the pre-state -> SEnum',
        'settings.users.blocked values -> SFlag (6-bit vector) stored in the real pydantic dict',
        'aioslsk.events.logger -> recorder (exceptions swallowed by EventBus.emit are kept for the report)',
        'aioslsk.room.manager.time.time -> constant (timestamp of chat events is not part of the property)',
        'Network -> object with an async send_server_messages recorder; connection argument -> sentinel object',
        'ticker / chat texts are Int tokens while symbolic and strings in replay (they are only stored and compared)'],
    'data_variables': [
        'per room x user: in user list (multiplicity 0/1), member, operator, has ticker (Bool) and ticker text',
        'per room: joined, private (Bool), owner (Int over none/3 names)',
        'per user: status (-1..2), privileged (Bool), avg_speed / uploads / shared files / folders (unconstrained Int, a superset of the wire range)',
        'privileged-user set membership (Bool x 3)', 'blocking flags per user (BitVec 6)',
        'message values: status 0..2, privileged, is_direct (Bool), text tokens; stats, slots_free, user counts, chat id, '
        'timestamp, time_left (unconstrained Int)'],
    'discriminants': [
        'message kind (27 handlers)', 'announced room (2) and user (3)', 'which rooms / users exist in the pre-state',
        'shape of list-valued messages: listed subset of the 3 users, owner, operator list, per-room category in '
        'RoomList (absent/public/owned/member x operated)', 'sender present in / absent from the block list',
        'scenario (sequence of kinds) for the runs from the constructor state'],
    'bounds': {
        'quick': {'rooms': 2, 'users': 3, 'inductive_step': 'every kind x room x user from an arbitrary state; users '
                  'pre-existing: all / only self / none', 'scenarios': f'{len(SCENARIOS)} sequences of 1-3 notifications'},
        'thorough': {'rooms': 2, 'users': 3, 'inductive_step': 'as quick with every subset of pre-existing users (JoinRoom: for the 8 '
                     'plain shapes, all/self/none for the others), 108 JoinRoom shapes per room (+ independent statuses), '
                     'all 64 RoomList shapes',
                     'scenarios': 'the quick ones + every ordered pair over a 36-letter alphabet'}},
    'outside': [
        'order of Room.users and of tickers (membership and multiplicity are checked, order is not)',
        'users nobody references (weakly held: their view is dropped by design; the reference restarts them)',
        'user_count, country, slots_free, interests, upload info (not listed by the property)',
        'names outside the 3-user / 2-room universe inside messages; a room listed in two RoomList categories',
        'ConnectionStateChangedEvent resets, session initialisation (C16), tracking events (C15)',
        'code that tests `room.owner is None` on the symbolic owner proxy would be misrepresented (none does)'],
    'assumptions': [
        'pre-state invariant: a room\'s user list holds shared user objects, each at most once',
        'status values sent by the server are 0..2', 'listeners keep the events they are given for the duration of a run'],
}
