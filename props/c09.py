"""C09: peer-chosen names never escape the download directory or clobber a file.

The real split_remote_path, DefaultNamingStrategy / KeepDirectoryStrategy / NumberDuplicateStrategy,
chain_strategies, SharesManager.calculate_download_path / create_directory and
TransferManager._prepare_download_path / _download_file run on remote paths whose characters are z3
bit-vectors over a finite alphabet (engine/sstr.py), against an in-memory POSIX directory whose
pre-existing entries have symbolic names as well.  Obligations are z3 queries over all characters on
each path; a refuting model is replayed with plain strings on a real temporary directory."""
from __future__ import annotations

import asyncio
import itertools
import os
import posixpath
import re
import shutil
import tempfile

import z3

from engine import symex, sstr
from engine.symex import And, Not, Or
from engine.vloop import VLoop

import aioslsk.naming as NM
import aioslsk.utils as UT
import aioslsk.shares.manager as SM
import aioslsk.transfer.manager as TMm
from aioslsk.events import EventBus
from aioslsk.settings import Settings
from aioslsk.transfer.model import Transfer, TransferDirection
from aioslsk.transfer.state import InitializingState, TransferState

PROPERTY = 'C09'

# Σ: 32 characters = 5 bits, no padding values.  Contains both separators, '.', '@', ':', blank, brackets
# and the other regex / glob meta characters, three ASCII digits and one non-ASCII digit, mixed-case ASCII
# letters, a cased non-ASCII pair and one CJK character.
SIGMA = ['a', 'b', 'A', 'B', 'z', 'é', 'É', '中', '0', '1', '2', '٣', '.', ' ', '(', ')', '\\', '/', '@', ':',
         '[', ']', '*', '?', '+', '-', '_', '$', '^', '{', '|', '~']
assert len(set(SIGMA)) == 32
# Σ-ext = Σ + compatibility look-alikes of the dangerous characters (what Unicode normalisation folds into a
# separator, a dot or several letters), a combining accent (so that 'e' + U+0301 is a decomposed 'é') and a ligature:
#   U+FF0F fullwidth solidus, U+FF3C fullwidth reverse solidus, U+2215 division slash, U+2024 one dot leader,
#   U+FF0E fullwidth full stop, U+FE52 small full stop, U+0301 combining acute, 'e', U+FB01 ligature fi   (41 = 6 bits)
SIGMA_EXT = SIGMA + ['\uff0f', '\uff3c', '\u2215', '\u2024', '\uff0e', '\ufe52', '\u0301', 'e', '\ufb01']
assert len(set(SIGMA_EXT)) == 41
ALPHABETS = {'base': SIGMA, 'ext': SIGMA_EXT}
DL = '/vdl/DL'          # symbolic runs; no character of it is in Σ, so a peer cannot name it
STRATEGIES = {'D': NM.DefaultNamingStrategy, 'K': NM.KeepDirectoryStrategy, 'N': NM.NumberDuplicateStrategy}
_PROXY_NAMES = ('SStr', 'SInt', 'SBool', 'SReal', 'SMatch', 'SPattern', 'ReShim', 'OsShim', 'PathShim', 'FnmatchShim', 'UnicodedataShim',
                'BitVecRef', 'BoolRef')


def code_raised(e: BaseException) -> bool:
    """an exception of the code under test means "no path chosen" (observed, not a violation).  Engine errors
    and the TypeError / AttributeError of a proxy value that reached C code are harness errors instead."""
    if isinstance(e, symex.HarnessError) or not isinstance(e, Exception):
        return False
    if isinstance(e, (TypeError, AttributeError, NotImplementedError)) and any(n in str(e) for n in _PROXY_NAMES):
        return False
    return True

_MISSING = object()


# ------------------------------------------------------------------------------
# the two directory back-ends: model (symbolic runs) and a real temporary directory (replays)
# ------------------------------------------------------------------------------

class ModelDir:
    def __init__(self):
        self.fs = sstr.SymFS()
        self.dl = DL
        self.root = self.fs.mkdirs(DL)
        self.subs = {}

    def add_dir(self, name):
        self.subs[id(name)] = self.fs.add(self.root, name, 'd')
        return self.subs[id(name)]

    def add_file(self, name, sub=None):
        self.fs.add(self.root if sub is None else sub, name, 'f')

    def exists(self, path):
        """non-forking: bool | z3 Bool"""
        return self.fs.exists_expr(sstr.components(path))

    def cleanup(self):
        pass


class DiskDir:
    def __init__(self):
        self.tmp = tempfile.mkdtemp(prefix='c09-')
        self.dl = os.path.join(self.tmp, 'DL')
        os.mkdir(self.dl)

    def add_dir(self, name):
        p = os.path.join(self.dl, name)
        os.mkdir(p)
        return p

    def add_file(self, name, sub=None):
        with open(os.path.join(self.dl if sub is None else sub, name), 'wb') as fh:
            fh.write(b'old')

    def exists(self, path):
        return os.path.lexists(path)

    def cleanup(self):
        shutil.rmtree(self.tmp, ignore_errors=True)


# ------------------------------------------------------------------------------
# environment: stand-ins injected into the module globals (symbolic runs only, except the two
# suspending file-system front ends of the concurrent harness)
# ------------------------------------------------------------------------------

class _AsyncPath:
    def __init__(self, env):
        self._env = env

    async def exists(self, p):
        await self._env.hop()
        return self._env.os_path_exists(p)

    async def getsize(self, p):
        await self._env.hop()
        return self._env.getsize(p)


class _AsyncOs:
    """aiofiles.os as the code sees it: every call is a hop to the thread pool (a suspension
    point), then the operation on the directory back-end"""

    def __init__(self, env):
        self._env = env
        self.path = _AsyncPath(env)

    async def makedirs(self, p, mode=0o777, exist_ok=False):
        await self._env.hop()
        return self._env.makedirs(p, exist_ok)

    async def remove(self, p):
        await self._env.hop()
        return self._env.remove(p)

    def __getattr__(self, name):
        raise symex.HarnessError(f'aiofiles.os.{name} is not modelled')


class _Handle:
    async def write(self, data):
        return len(data)


class _OpenCtx:
    def __init__(self, env, path, mode):
        self.env, self.path, self.mode = env, path, mode

    async def __aenter__(self):
        await self.env.hop()
        if self.mode != 'ab':
            raise symex.HarnessError(f'aiofiles.open mode {self.mode!r} is not modelled')
        self.env.open_append(self.path)
        return _Handle()

    async def __aexit__(self, *a):
        return False


class _AioFiles:
    def __init__(self, env):
        self._env = env

    def open(self, path, mode='r', *a, **kw):
        return _OpenCtx(self._env, path, mode)


class Env:
    def __init__(self, c, be, suspending=False):
        self.c, self.be, self.suspending = c, be, suspending
        self.saved = []
        self.opened = []          # (path, created) in the order the files were opened

    async def hop(self):
        if self.suspending:
            await asyncio.sleep(0)

    # -- operations on the back-end (model: forking look-ups; disk: the real calls) --
    def os_path_exists(self, p):
        return self.be.fs.exists(p) if self.c.symbolic else os.path.exists(p)

    def getsize(self, p):
        return self.be.fs.getsize(p) if self.c.symbolic else os.path.getsize(p)

    def _sandbox(self, p):
        """replays run on the real file system: nothing may be created or removed outside the temporary directory
        of the replay (a path that escaped the download directory is exactly what some replays demonstrate)"""
        root, real = os.path.realpath(self.be.tmp), os.path.realpath(p)
        if real == root or os.path.commonpath([root, real]) != root:
            self.c.note('replay sandbox: refused to touch', p)
            raise PermissionError(13, 'outside the temporary directory of the replay', p)

    def makedirs(self, p, exist_ok):
        if self.c.symbolic:
            return self.be.fs.makedirs(p, exist_ok=exist_ok)
        self._sandbox(p)
        return os.makedirs(p, exist_ok=exist_ok)

    def remove(self, p):
        if self.c.symbolic:
            return self.be.fs.remove(p)
        self._sandbox(p)
        return os.remove(p)

    def open_append(self, p):
        if self.c.symbolic:
            _, created = self.be.fs.open_append(p)
        else:
            self._sandbox(p)
            created = not os.path.lexists(p)
            open(p, 'ab').close()
        self.opened.append((p, created))

    def _set(self, mod, name, value):
        self.saved.append((mod, name, mod.__dict__.get(name, _MISSING)))
        mod.__dict__[name] = value

    def __enter__(self):
        if self.c.symbolic:
            import fnmatch as real_fnmatch
            import os as real_os
            import sys
            import unicodedata as real_ud
            shim_re = sstr.ReShim()
            shim_os = sstr.OsShim(self.be.fs)
            shim_ud = sstr.UnicodedataShim()
            # whichever of these stdlib modules (or functions imported from them by name) a module under test
            # holds in its globals is replaced by the stand-in
            for mod in (UT, NM, TMm, SM):
                def setter(name, value, mod=mod):
                    self._set(mod, name, value)
                sstr.replace_by_identity(mod.__dict__, re, shim_re, setter)
                sstr.replace_by_identity(mod.__dict__, real_os, shim_os, setter, path_attr='path')
                sstr.replace_by_identity(mod.__dict__, real_fnmatch, sstr.FnmatchShim(shim_re), setter)
                sstr.replace_by_identity(mod.__dict__, real_ud, shim_ud, setter)
            # a function-local `import unicodedata` finds the stand-in too (plain arguments pass through)
            self._sysmod = ('unicodedata', sys.modules.get('unicodedata'))
            sys.modules['unicodedata'] = shim_ud
            self._set(NM, 'int', sstr.sym_int)
            self._numfmt = sstr.numeric_formatting().__enter__()
        # symbolic runs: the directory model; replays: the same front end over the real temporary directory,
        # confined to it (see _sandbox)
        if True:
            self._set(SM, 'asyncos', _AsyncOs(self))
            self._set(TMm, 'asyncos', _AsyncOs(self))
            self._set(TMm, 'aiofiles', _AioFiles(self))
        return self

    def __exit__(self, *a):
        if getattr(self, '_sysmod', None) is not None:
            import sys
            if self._sysmod[1] is None:
                sys.modules.pop(self._sysmod[0], None)
            else:
                sys.modules[self._sysmod[0]] = self._sysmod[1]
            self._sysmod = None
        if getattr(self, '_numfmt', None) is not None:
            self._numfmt.__exit__()
            self._numfmt = None
        for mod, name, old in reversed(self.saved):
            if old is _MISSING:
                mod.__dict__.pop(name, None)
            else:
                mod.__dict__[name] = old


# ------------------------------------------------------------------------------
# inputs
# ------------------------------------------------------------------------------

def build_remote(c, shape: str, base='r'):
    """shape: 'x' any character of Σ, 'c' any character of Σ except the two separators, 's' one of the two
    separators, anything else a literal character"""
    parts = []
    for i, t in enumerate(shape):
        if t == 'x':
            parts.append(sstr.fresh_str(c, f'{base}{i}', 1))
        elif t == 'c':
            parts.append(sstr.fresh_str(c, f'{base}{i}', 1, exclude='\\/'))
        elif t == 's':
            parts.append(sstr.fresh_str(c, f'{base}{i}', 1, only='\\/'))
        else:
            parts.append(t)
    out = ''
    for p in parts:
        out = out + p
    return out


def reference_parts(c, remote):
    """the harness's own reading of a remote path: maximal runs of non-separator characters"""
    if not c.symbolic:
        return [p for p in re.split(r'[\\/]+', remote) if p]
    cs = sstr.lift(remote).cs
    parts, cur = [], []
    for ch in cs:
        if sstr.ch_test(ch, 'sep', lambda x: x in '\\/'):
            if cur:
                parts.append(sstr._mk(cur))
            cur = []
        else:
            cur.append(ch)
    if cur:
        parts.append(sstr._mk(cur))
    return parts


def _valid_name(c, name):
    return And(Not(sstr.eq(name, '.')), Not(sstr.eq(name, '..'))) if c.symbolic else name not in ('.', '..')


def make_entry(c, base, tpl, n_name, n_stem, n_ext):
    """a pre-existing directory entry.  Only lengths and the three literal characters of a numbered copy are
    fixed; every other character is a fresh symbolic one.
      S        as long as the candidate name (may or may not be equal to it)
      F<m>     m free characters
      N<d>     <stem-length free> ' (' <d free> ')' <extension-length free>
      N<d>+<t> the same followed by t more free characters ('x (1).mp3.bak')"""
    def free(tag, n):
        return sstr.fresh_str(c, f'{base}{tag}', n, exclude='/')
    if tpl == 'S':
        return free('', max(1, n_name))
    if tpl[0] == 'F':
        return free('', int(tpl[1:]))
    if tpl[0] == 'N':
        d, _, t = tpl[1:].partition('+')
        return free('s', n_stem) + ' (' + free('d', int(d)) + ')' + free('e', n_ext) + free('t', int(t or 0))
    raise symex.HarnessError(tpl)


def populate(c, be, dirspec, parts):
    """fills the download directory (and optionally one sub-directory) before the code runs"""
    if not dirspec:
        return
    cand = parts[-1] if parts else 'a'
    if c.symbolic:
        stem, ext = sstr.p_splitext(cand)
    else:
        stem, ext = posixpath.splitext(cand)
    n_name, n_stem, n_ext = len(cand), len(stem), len(ext)
    assumptions = []       # valid names, pairwise distinct per directory

    def differ(a, b):
        return Not(sstr.eq(a, b)) if c.symbolic else a != b

    def fill(tpls, base, sub):
        names = [make_entry(c, f'{base}{i}', t, n_name, n_stem, n_ext) for i, t in enumerate(tpls)]
        assumptions.extend(_valid_name(c, n) for n in names)
        assumptions.extend(differ(a, b) for a, b in itertools.combinations(names, 2))
        return names
    root_names = fill(dirspec.get('root', []), 'e', None)
    sub_names, sub_name = [], None
    if dirspec.get('sub') is not None:
        n_dir = len(parts[-2]) if len(parts) >= 2 else 1
        sub_name = sstr.fresh_str(c, 'sub', n_dir, exclude='/')
        assumptions.append(_valid_name(c, sub_name))
        assumptions.extend(differ(sub_name, n) for n in root_names)
        sub_names = fill(dirspec['sub'], 'g', None)
    c.assume(And(*assumptions) if c.symbolic else all(assumptions))
    rev = dirspec.get('order') == 'rev'
    for n in (reversed(root_names) if rev else root_names):
        be.add_file(n)
    if sub_name is not None:
        sub = be.add_dir(sub_name)
        for n in (reversed(sub_names) if rev else sub_names):
            be.add_file(n, sub)


def _tree(root):
    out = []
    for d, dirs, files in os.walk(root):
        rel = os.path.relpath(d, root)
        out += [os.path.normpath(os.path.join(rel, n)) + ('/' if n in dirs else '') for n in dirs + files]
    return out


def make_managers(be, chain):
    settings = Settings(credentials={'username': 'u', 'password': 'p'})
    settings.shares.download = be.dl
    sm = SM.SharesManager(settings, EventBus(), None)
    sm.naming_strategies = [STRATEGIES[k]() for k in chain]
    tm = object.__new__(TMm.TransferManager)
    tm._shares_manager = sm
    return sm, tm


def observe_choices(c, be, sm, log):
    """observation point 'return value of calculate_download_path': records (dir, name, existed-at-that-
    moment).  The real bound method does the work."""
    real = sm.calculate_download_path

    def calculate_download_path(remote_path):
        d, f = real(remote_path)
        full = (sstr.p_join(sstr.lift(d), sstr.lift(f)) if c.symbolic else os.path.join(d, f))
        log.append((d, f, be.exists(full)))
        return d, f
    sm.calculate_download_path = calculate_download_path


# ------------------------------------------------------------------------------
# the property, stated on one chosen path
# ------------------------------------------------------------------------------

def dup_position(chain):
    if 'N' not in chain:
        return 'no_dup_strategy'
    return 'dup_last' if chain[-1] == 'N' else 'dup_not_last'


def judge(c, be, chain, d, f, existed, local_path, ctx_sig=()):
    sig = [chain, *ctx_sig]
    c.reach('chosen')
    if c.symbolic:
        fn = sstr.lift(f)
        c.check(And(len(fn) > 0, Not(sstr.eq(fn, '.')), Not(sstr.eq(fn, '..'))), 'file_name_regular', sig=sig)
        lp = sstr.lift(local_path)
        prefix = be.dl + '/'
        starts = lp.startswith(prefix)
        ok = c.check(starts, 'inside_download_dir', sig=sig, info='does not start with the download directory')
        if not ok and isinstance(starts, bool):
            return
        rel = sstr.lift(lp[len(prefix):])
        depth, conds = z3.IntVal(0), []
        for comp in sstr.components(rel):
            if len(comp) == 0:
                continue
            depth = z3.If(symex.zbool(sstr.eq(comp, '.')), depth,
                          z3.If(symex.zbool(sstr.eq(comp, '..')), depth - 1, depth + 1))
            conds.append(depth >= 0)
        c.check(And(*conds, depth >= 1), 'inside_download_dir', sig=sig)
        c.check(And(sstr.all_chars(fn, 'nosep', lambda ch: ch not in '\\/'),
                    sstr.all_chars(rel, 'nobs', lambda ch: ch != '\\')), 'names_have_no_separator', sig=sig)
        if 'N' in chain:
            c.check(Not(existed), 'path_is_fresh', sig=sig + [dup_position(chain)])
    else:
        c.note('chosen', d, f, local_path)
        root, real = os.path.realpath(be.dl), os.path.realpath(local_path)
        c.check(f not in ('', '.', '..'), 'file_name_regular', sig=sig)
        c.check(real != root and os.path.commonpath([root, real]) == root, 'inside_download_dir', sig=sig)
        c.check('/' not in f and '\\' not in f and '\\' not in local_path[len(be.dl):], 'names_have_no_separator', sig=sig)
        if 'N' in chain:
            c.check(not existed, 'path_is_fresh', sig=sig + [dup_position(chain)])


# ------------------------------------------------------------------------------
# H1: one download, every remote path of a shape, every directory content of a shape
# ------------------------------------------------------------------------------

def h_name(c, chain='DN', shape='xxx', dirspec=None, sigma='base'):
    sstr.use_alphabet(ALPHABETS[sigma])
    be = ModelDir() if c.symbolic else DiskDir()
    try:
        remote = build_remote(c, shape)
        parts = reference_parts(c, remote)
        populate(c, be, dirspec, parts)
        if not c.symbolic:
            c.note('remote path', remote, 'download directory before', sorted(_tree(be.dl)))
        sm, tm = make_managers(be, chain)
        log = []
        observe_choices(c, be, sm, log)
        transfer = Transfer('user0', remote, TransferDirection.DOWNLOAD)
        loop = VLoop()
        with Env(c, be):
            try:
                loop.run_until_complete(tm._prepare_download_path(transfer))
            except Exception as e:
                if not code_raised(e):
                    raise
                if not log:
                    c.reach('no_path:' + type(e).__name__)
                    c.note('no path chosen', repr(remote), repr(e))
                    return
                c.note('directory not created', repr(e))
            finally:
                loop.cleanup()
        if len(log) != 1:
            raise symex.HarnessError('calculate_download_path was not called exactly once')
        d, f, existed = log[0]
        judge(c, be, chain, d, f, existed, transfer.local_path)
    finally:
        be.cleanup()


# ------------------------------------------------------------------------------
# H1b: a sequence of downloads through ONE SharesManager / ONE chain of strategy objects (the normal case:
# whatever a strategy remembers between calls is part of the run)
# ------------------------------------------------------------------------------

def h_sequence(c, chain='DN', shapes=('c.c', 'c.c'), dirs=(('S',), ('S', 'N1')), sigma='base', part=None):
    """calls 1..k of TransferManager._prepare_download_path on the same manager objects, each with its own
    symbolic remote path (equal names, equal stems with different extensions, unrelated names are the solver's
    choice).  The directory is filled before the first call with entries shaped around EACH call's candidate
    (dirs[k] = templates relative to remote k; all characters symbolic, all names pairwise distinct); after each
    call the chosen path is created as a file, as the download would do with open(..., 'ab').  Every call is
    judged like a single download, freshness at the moment of its own choice."""
    sstr.use_alphabet(ALPHABETS[sigma])
    be = ModelDir() if c.symbolic else DiskDir()
    try:
        remotes = [build_remote(c, sh, base=f'r{k}_') for k, sh in enumerate(shapes)]
        if part is not None:
            # partition of the input space over several jobs (their union is everything): do the first two
            # remote paths start with the same character, and does the first pre-existing entry equal the first name?
            first_eq = sstr.eq(remotes[0][:1], remotes[1][:1])
            c.assume(first_eq if part[0] == '=' else (Not(first_eq) if c.symbolic else not first_eq))
        names, assumptions = [], []
        for k, (remote, tpls) in enumerate(zip(remotes, dirs)):
            parts = reference_parts(c, remote)
            cand = parts[-1] if parts else 'a'
            stem, ext = sstr.p_splitext(cand) if c.symbolic else posixpath.splitext(cand)
            for i, t in enumerate(tpls):
                names.append(make_entry(c, f'q{k}e{i}', t, len(cand), len(stem), len(ext)))
        assumptions.extend(_valid_name(c, n) for n in names)
        assumptions.extend((Not(sstr.eq(a, b)) if c.symbolic else a != b) for a, b in itertools.combinations(names, 2))
        if part is not None and len(part) > 1 and names:
            parts0 = reference_parts(c, remotes[0])
            taken = sstr.eq(names[0], parts0[-1]) if parts0 else False
            assumptions.append(taken if part[1] == '=' else (Not(taken) if c.symbolic else not taken))
        if assumptions:
            c.assume(And(*assumptions) if c.symbolic else all(assumptions))
        for n in names:
            be.add_file(n)
        if not c.symbolic:
            c.note('remote paths', remotes, 'download directory before', sorted(_tree(be.dl)))
        sm, tm = make_managers(be, chain)        # one SharesManager, one list of strategy objects for all calls
        log = []
        observe_choices(c, be, sm, log)
        env = Env(c, be)
        with env:
            for k, remote in enumerate(remotes):
                transfer = Transfer(f'user{k}', remote, TransferDirection.DOWNLOAD)
                loop = VLoop()
                before = len(log)
                try:
                    loop.run_until_complete(tm._prepare_download_path(transfer))
                except Exception as e:
                    if not code_raised(e):
                        raise
                    if len(log) == before:
                        c.reach('no_path:' + type(e).__name__)
                        c.note('no path chosen', repr(remote), repr(e))
                        return
                    c.note('directory not created', repr(e))
                finally:
                    loop.cleanup()
                if len(log) != before + 1:
                    raise symex.HarnessError('calculate_download_path was not called exactly once')
                d, f, existed = log[-1]
                judge(c, be, chain, d, f, existed, transfer.local_path, ctx_sig=['sequence', k + 1])
                try:
                    env.open_append(transfer.local_path)     # the download creates its file
                except OSError as e:
                    c.note('file not created', repr(e))
                    return
        c.reach('sequence_end')
    finally:
        be.cleanup()


# ------------------------------------------------------------------------------
# H2: 2..3 downloads whose start-ups interleave (real _download_file on the virtual loop)
# ------------------------------------------------------------------------------

class _Conn:
    def __init__(self):
        self.states = []

    def set_connection_state(self, s):
        self.states.append(s)

    async def receive_file(self, handle, filesize, callback=None):
        await asyncio.sleep(0)

    async def disconnect(self, reason=None):
        return None


def h_concurrent(c, chain='DN', shapes=('c', 'c'), dirspec=None, staggered=False, sigma='base'):
    """every download runs the real TransferManager._download_file (path choice, directory creation, state
    change, open(..., 'ab')) on the virtual loop; each file-system call is a suspension point and the order in
    which ready tasks continue is chosen (all interleavings until every download has chosen its path).
    staggered: each download only starts after the previous one is receiving (its file has been created)."""
    sstr.use_alphabet(ALPHABETS[sigma])
    be = ModelDir() if c.symbolic else DiskDir()
    loop = None
    try:
        remotes = [build_remote(c, sh, base=f'r{i}_') for i, sh in enumerate(shapes)]
        parts = reference_parts(c, remotes[0])
        populate(c, be, dirspec, parts)
        if not c.symbolic:
            c.note('remote paths', remotes, 'download directory before', sorted(_tree(be.dl)))
        sm, tm = make_managers(be, chain)
        log = []
        observe_choices(c, be, sm, log)
        transfers = []
        for i, r in enumerate(remotes):
            t = Transfer(f'user{i}', r, TransferDirection.DOWNLOAD)
            t.state = InitializingState(t)
            t.filesize = 0
            transfers.append(t)
        env = Env(c, be, suspending=True)

        def picker(n):
            if all(t.local_path is not None for t in transfers):
                return 0        # every download has chosen: the remaining order cannot change a chosen path
            return c.choose(n, 'sched')
        loop = VLoop(picker=picker)
        with env:
            tasks = []
            for i, t in enumerate(transfers):
                if staggered and i >= 1:
                    for _ in range(400):       # the previous download is receiving (its file exists) before this one starts
                        if len(env.opened) >= i or not loop.step():
                            break
                tasks.append(loop.spawn(tm._download_file(t, _Conn())))
            loop.run_until_quiet(max_time=10)
        for t, task in zip(transfers, tasks):
            if not task.done():
                raise symex.HarnessError('download task did not finish')
            if task.exception() is not None:
                if code_raised(task.exception()):
                    c.reach('no_path:' + type(task.exception()).__name__)
                    return
                raise task.exception()
        c.reach('all_started')
        chosen = [t.local_path for t in transfers]
        if any(p is None for p in chosen) or len(log) != len(transfers):
            c.reach('not_all_chose')
            return
        # per download: the single-download clauses at the moment of its own choice
        for d, f, existed in log:
            lp = sstr.p_join(sstr.lift(d), sstr.lift(f)) if c.symbolic else os.path.join(d, f)
            judge(c, be, chain, d, f, existed, lp, ctx_sig=['concurrent'])
        # the concurrent clause
        mode = 'staggered' if staggered else 'together'
        for i, j in itertools.combinations(range(len(transfers)), 2):
            differ = Not(sstr.eq(chosen[i], chosen[j])) if c.symbolic else chosen[i] != chosen[j]
            c.check(differ, 'concurrent_paths_distinct', sig=[chain, len(transfers), mode],
                    info={'downloads': [i, j]})
    finally:
        if loop is not None:
            loop.cleanup()
        be.cleanup()


# ------------------------------------------------------------------------------
# H0: translator validation on symbolic paths.  For every path of the stand-ins over a fully symbolic
# string, a witness of the path condition is run through CPython's re / posixpath / int and must agree.
# ------------------------------------------------------------------------------

def h_selfcheck_unicode(c, n=2):
    """the unicodedata stand-in on fully symbolic strings over Σ-ext against CPython on a witness of every path"""
    import unicodedata
    sstr.use_alphabet(SIGMA_EXT)
    s = sstr.fresh_str(c, 's', n)
    ch = sstr.fresh_str(c, 'ch', 1)
    shim = sstr.UnicodedataShim()

    def run(ud, string, one):
        out = {f: ud.normalize(f, string) for f in ('NFC', 'NFD', 'NFKC', 'NFKD')}
        out['nfkc_ctx'] = ud.normalize('NFKC', 'e' + string + '\u0301')
        out.update(category=ud.category(one), combining=ud.combining(one), decimal=ud.decimal(one, -1),
                   is_nfc=ud.is_normalized('NFC', string))
        return out
    if not c.symbolic:
        c.reach('selfcheck')
        c.check(run(shim, s, ch) == run(unicodedata, s, ch), 'shim_agrees_with_cpython', info=repr((s, ch)))
        return
    mine = run(shim, s, ch)
    c.witness('selfcheck')
    model = c._model
    if model is None:
        raise symex.HarnessError('no model for a feasible path')
    s0, ch0 = sstr.concretize(s, model), sstr.concretize(ch, model)
    real = run(unicodedata, s0, ch0)
    c.reach('selfcheck')
    c.check({k: (sstr.concretize(v, model) if isinstance(v, (str, sstr.SStr)) else v) for k, v in mine.items()} == real,
            'shim_agrees_with_cpython', info=repr((s0, ch0)))


def h_selfcheck(c, n=3):
    import types
    sstr.use_alphabet(SIGMA)
    # the patterns the code uses today; pinned copies if the code under test no longer has them
    num_pattern = getattr(NM.NumberDuplicateStrategy, 'PATTERN', None)
    num_pattern = num_pattern if isinstance(num_pattern, str) else r' \((\d+)\)'
    sep_pattern = getattr(UT, 'PATH_SEPERATOR_PATTERN', None)
    sep_pattern = sep_pattern if isinstance(sep_pattern, (str, re.Pattern)) else r'[\\/]+'
    s = sstr.fresh_str(c, 's', n)
    t = sstr.fresh_str(c, 't', 2)
    u = sstr.fresh_str(c, 'u', 2) + ' (' + sstr.fresh_str(c, 'v', 2) + ')' + sstr.fresh_str(c, 'w', 1)
    shim = sstr.ReShim()
    my_path = types.SimpleNamespace(splitext=sstr.p_splitext, split=sstr.p_split, join=sstr.p_join)

    def run(rx, path_mod, to_int, string, stem, numbered):
        num = rx.match(rx.escape(stem) + num_pattern, numbered)
        drive = rx.match(r'[a-zA-Z]{1}:', string)
        out = {'split': rx.split(sep_pattern, string), 'drive': None if drive is None else drive.span(),
               'num': None if num is None else (num.span(), num.group(1), to_int(num.group(1))),
               'splitext': path_mod.splitext(string), 'psplit': path_mod.split(string), 'join': path_mod.join('/d', string),
               'alias': bool(string.startswith('@@')), 'rfind': string.rfind('.'), 'lower': string.lower(),
               'fmt': f'{string} ({len(string)})'}
        return out
    if not c.symbolic:
        c.reach('selfcheck')
        c.check(run(shim, my_path, sstr.sym_int, s, t, u) == run(re, posixpath, int, s, t, u), 'shim_agrees_with_cpython', info=repr(s))
        return
    mine = run(shim, my_path, lambda x: int(sstr.sym_int(x)), s, t, u)
    c.witness('selfcheck')
    model = c._model
    if model is None:
        raise symex.HarnessError('no model for a feasible path')

    def conc(v):
        if isinstance(v, (sstr.SStr, str)):
            return sstr.concretize(v, model)
        if isinstance(v, (list, tuple)):
            return type(v)(conc(x) for x in v)
        return v
    s0, t0, u0 = conc(s), conc(t), conc(u)
    real = run(re, posixpath, int, s0, t0, u0)
    c.reach('selfcheck')
    c.check({k: conc(v) for k, v in mine.items()} == real, 'shim_agrees_with_cpython', info=repr((s0, t0, u0)))
    c.note(s0, u0, real)


# ------------------------------------------------------------------------------
# meta, prelude, jobs
# ------------------------------------------------------------------------------

META = {
    'level': 'other',
    'technique': 'symbolic execution of the real naming / path-choice code on strings whose characters are z3 bit-vectors over a '
                 '32-character alphabet (engine/sstr.py); containment, regular-name and freshness obligations decided by z3 per path; '
                 'start-up interleavings of concurrent downloads enumerated on a virtual event loop',
    'explanation': 'Real utils.split_remote_path, naming.DefaultNamingStrategy/KeepDirectoryStrategy/NumberDuplicateStrategy.apply, '
                   'DuplicateNamingStrategy.should_be_applied, naming.chain_strategies, SharesManager.calculate_download_path / '
                   'get_download_directory / create_directory and TransferManager._prepare_download_path / _download_file run natively. '
                   'Every character of the remote path and of every pre-existing directory entry is a 5-bit z3 variable; lengths, separator '
                   'positions found by the code, and which entry a name equals are forks.  One path therefore stands for all strings with the '
                   'same structure, and z3 decides for all of them that the chosen path stays below the download directory, names a regular '
                   'file and did not exist when chosen.  Counterexamples are replayed with plain strings, the unstubbed code and a real temporary directory.',
    'functions': [UT.split_remote_path, NM.DefaultNamingStrategy.apply, NM.KeepDirectoryStrategy.apply,
                  NM.DuplicateNamingStrategy.should_be_applied, NM.NumberDuplicateStrategy.apply, NM.chain_strategies,
                  SM.SharesManager.calculate_download_path, SM.SharesManager.get_download_directory, SM.SharesManager.create_directory,
                  TMm.TransferManager._prepare_download_path, TMm.TransferManager._download_file,
                  'state kept by the strategy objects between calls (harness sequence: the same SharesManager.naming_strategies list, built by the real constructors, serves every call of a path)'],
    'stubs': ['aioslsk.utils.re / aioslsk.naming.re -> engine.sstr.ReShim: CPython\'s own re._parser parse tree, interpreted by a backtracking matcher with '
              'sre priorities that forks on each character test (validated against re on all strings <= 3 over a 12-character alphabet at start-up)',
              'aioslsk.naming.os / aioslsk.transfer.manager.os -> engine.sstr.OsShim: transcriptions of posixpath.join/split/splitext (validated against '
              'posixpath at start-up) + exists/listdir on the in-memory directory tree engine.sstr.SymFS (POSIX semantics, no symlinks; validated against a real '
              'temporary directory at start-up)',
              'aioslsk.naming.int -> engine.sstr.sym_int (decimal digit strings -> z3 Int)',
              'unicodedata (module global, names imported from it, and sys.modules for function-local imports) -> engine.sstr.UnicodedataShim: normalize / '
              'is_normalized on symbolic strings (one-to-one replacements are applied as a symbolic character map, characters that expand / combine / reorder are '
              'concretised by forking, concrete runs go through CPython), per-character look-ups fork over their distinct results in the alphabet; tables are CPython\'s own; '
              'validated against unicodedata.normalize at start-up (17 476 strings x forms) and on symbolic paths (harness selfcheck_unicode)',
              'aioslsk.shares.manager.asyncos, aioslsk.transfer.manager.asyncos / aiofiles -> the same directory tree behind one suspension point per call '
              '(replays: the same front end over the real temporary directory, which refuses to create or remove anything outside that directory)',
              'f-strings / str(): symbolic characters travel through CPython string formatting as private-use placeholder code points and are mapped back by the shims; '
              'a symbolic integer formatted into a string is concretised by forking (sstr.numeric_formatting, a run-time replacement of symex.SInt.__format__/__str__)',
              'TransferManager built with object.__new__ and only _shares_manager; peer connection -> 3-method fake (set_connection_state, receive_file, disconnect); '
              'asyncio loop -> engine.vloop.VLoop'],
    'data_variables': ['every character of the remote path (5-bit index into Σ; Σ has both separators, ".", "@", ":", blank, brackets, regex/glob meta characters, '
                       'ASCII and non-ASCII digits and letters); in the jobs without directory content a 6-bit index into Σ-ext = Σ + U+FF0F U+FF3C U+2215 U+2024 U+FF0E '
                       'U+FE52 (look-alikes of / \\ .), U+0301 with "e" (decomposed letter) and U+FB01 (ligature)',
                       'every character of every pre-existing entry of the download directory and of its sub-directory (free; only " (", ")" of numbered-copy templates are literal)',
                       'the number inside a numbered copy (digits symbolic; concretised by forking where the code hashes it)'],
    'discriminants': ['number of consecutive downloads through one SharesManager / one chain of strategy objects (sequence harness: 2, thorough 3) and the job partition (first characters of the two remote paths equal or not, first entry equal to the first name or not; the union is unrestricted in the thorough tier)', 'chain of strategies (default chain, the 6 orders of the three shipped strategies, D / DK / KD)', 'length of the remote path / shape (which positions may be separators)',
                      'number and template of pre-existing entries, listing order', 'which ready task continues (concurrent harness)', 'staggered or simultaneous start'],
    'bounds': {'quick': {'free_form_remote_path_len': '0..5 (all 10 chains)', 'structured': '6 shapes: up to 4 components, 1..2 separators, @@ / drive prefixes',
                         'dir_entries': '0..3 per directory (+ one job with 4), candidate name length 1..3, one symbolic sub-directory',
                         'concurrent_downloads': 2, 'job_time_budget_s': 120,
                         'sequence': '2 downloads on one manager, names c.c / c + c.c, entries S | S,N1 per call; for c.c,c.c only the half where the first entry equals the first name'},
               'thorough': {'free_form_remote_path_len': '0..8 (all 10 chains)', 'structured': '15 shapes up to 14 characters',
                            'dir_entries': '0..4 per directory, both listing orders, candidate name length 1..4', 'concurrent_downloads': '2..3',
                            'job_time_budget_s': 900, 'second_engine': 'CrossHair, 3 contracts, 10 s each',
                            'sequence': '2..3 downloads on one manager (DN all shapes; DKN, KDN the basic one), names up to 4 characters, up to 2 entries per call, all partitions'}},
    'outside': ['characters outside Σ and names longer than the bound (ENAMETOOLONG)', 'Windows path semantics (ntpath, drive-relative paths, reserved names, case-insensitive '
                'directories): the model is POSIX; a backslash left inside a name is nevertheless reported', 'symbolic links inside the download directory',
                'chains without DefaultNamingStrategy (nothing derives a file name) and user-written strategies',
                'freshness for chains that contain no duplicate strategy (nothing in such a chain looks at the directory)',
                'a download resumed with an already assigned local_path (nothing is chosen)', 'other processes changing the directory'],
    'assumptions': ['the download directory exists, is absolute and none of its own characters can be supplied by the peer',
                    'pre-existing names are valid POSIX names, pairwise distinct per directory', 'aiofiles calls suspend exactly once (thread-pool hop)'],
}


def prelude(tier):
    notes = sstr.selftest(alphabet='ab.(/\\ 1)A:*' if tier == 'thorough' else 'a.(/\\ 1)', maxlen=3)
    notes += _validate_fs_model()
    if tier == 'thorough':
        try:
            notes += _second_engine()
        except Exception as e:  # noqa  (depends on the code under test: never a harness error)
            notes.append(f'second engine: no opinion ({e!r})')
    return notes


def _second_engine(per_condition_timeout=10):
    """CrossHair on the pure naming functions (spec/c09_crosshair.py).  Second opinion only: recorded in the
    evidence, never changes the verdict (a counterexample it prints is re-evaluated concretely here)."""
    import subprocess
    import sys
    spec = os.path.join(os.path.dirname(os.path.dirname(os.path.abspath(__file__))), 'spec', 'c09_crosshair.py')
    exe = os.path.join(os.path.dirname(sys.executable), 'crosshair')
    if not os.path.exists(exe):
        return ['second engine: crosshair is not installed, skipped']
    try:
        r = subprocess.run([exe, 'check', '--report_all', '--per_condition_timeout', str(per_condition_timeout), spec],
                           capture_output=True, text=True, timeout=20 * per_condition_timeout)
    except subprocess.TimeoutExpired:
        return ['second engine: crosshair timed out, no opinion']
    notes = []
    import importlib.util
    sp = importlib.util.spec_from_file_location('c09_crosshair', spec)
    mod = importlib.util.module_from_spec(sp)
    sp.loader.exec_module(mod)
    for line in (r.stdout + r.stderr).splitlines():
        m = re.search(r':(\d+): (error|info): (.*)$', line)
        if not m:
            continue
        text = m.group(3)
        call = re.search(r"when calling (\w+)\((.*)\) \(which returns", text)
        if call:
            import ast
            try:
                arg = ast.literal_eval(call.group(2))
                again = getattr(mod, call.group(1))(arg)
                text += f' -- re-evaluated concretely: returns {again}' + (' (reproduced)' if again is False else ' (NOT reproduced)')
            except Exception as e:  # noqa
                text += f' -- could not be re-evaluated: {e!r}'
        notes.append(f'second engine (CrossHair) spec/c09_crosshair.py:{m.group(1)}: {text}')
    return notes or ['second engine: crosshair printed nothing']


def _validate_fs_model():
    """SymFS (on concrete names) against a real temporary directory"""
    tmp = tempfile.mkdtemp(prefix='c09fs-')
    try:
        fs = sstr.SymFS()
        root = fs.mkdirs('/r')
        os.mkdir(f'{tmp}/r')
        for name, kind in (('f', 'f'), ('d', 'd'), ('a (1)', 'f')):
            fs.add(root, name, kind)
            if kind == 'd':
                os.mkdir(f'{tmp}/r/{name}')
            else:
                open(f'{tmp}/r/{name}', 'wb').close()
        sub = [n for nm, n in root.entries if nm == 'd'][0]
        fs.add(sub, 'g', 'f')
        open(f'{tmp}/r/d/g', 'wb').close()
        probes = ['/r', '/r/', '/r/f', '/r/f/', '/r/f/.', '/r/f/..', '/r/d', '/r/d/', '/r/d/.', '/r/d/..', '/r/d/../f', '/r/x/../f', '/r/d/g',
                  '/r/./d/g', '/r//d//g', '/r/..', '/r/../r/f', '/r/a (1)', '/r/nope', '/r/d/nope', '/', '/r/f/g']
        n = 0
        for p in probes:
            real = tmp + p
            if fs.exists(p) != os.path.exists(real) or fs.isdir(p) != os.path.isdir(real):
                raise symex.HarnessError(f'SymFS differs from the real file system on {p!r}')
            expr = fs.exists_expr(p.split('/'))
            if bool(z3.is_true(z3.simplify(symex.zbool(expr)))) != os.path.exists(real):
                raise symex.HarnessError(f'SymFS.exists_expr differs from the real file system on {p!r}')
            n += 3

        def attempt(fn):
            try:
                fn()
                return 'ok'
            except OSError as e:
                return type(e).__name__
        for p in ['/r/f', '/r/new', '/r/d', '/r/d/', '/r/.', '/r/nodir/x', '/r/f/x', '/r/d/h']:
            a = attempt(lambda: fs.open_append(p))
            b = attempt(lambda: open(tmp + p, 'ab').close())
            if a != b:
                raise symex.HarnessError(f'SymFS.open_append differs on {p!r}: model {a}, real {b}')
            n += 1
        for p in ['/r/d', '/r/m1/m2', '/r/f', '/r/f/x', '/r/m1/../m3']:
            a = attempt(lambda: fs.makedirs(p, exist_ok=True))
            b = attempt(lambda: os.makedirs(tmp + p, exist_ok=True))
            if a != b or fs.isdir(p) != os.path.isdir(tmp + p):
                raise symex.HarnessError(f'SymFS.makedirs differs on {p!r}: model {a}, real {b}')
            n += 1
        if sorted(fs.listdir('/r')) != sorted(os.listdir(f'{tmp}/r')):
            raise symex.HarnessError('SymFS.listdir differs')
        return [f'SymFS agrees with a real directory on {n} probes']
    finally:
        shutil.rmtree(tmp, ignore_errors=True)


ALL_CHAINS = ['DN', 'DKN', 'KDN', 'DNK', 'KND', 'NDK', 'NKD', 'D', 'DK', 'KD']
DUP_CHAINS = [ch for ch in ALL_CHAINS if 'N' in ch]


def jobs(tier):
    q = tier == 'quick'
    out = []

    def add(harness, fn, requires=('chosen',), **params):
        out.append({'harness': harness, 'fn': fn, 'params': params, 'requires': list(requires),
                    'timeout_s': 120 if q else 900})

    add('selfcheck', h_selfcheck, requires=['selfcheck'], n=2 if q else 3)
    add('selfcheck_unicode', h_selfcheck_unicode, requires=['selfcheck'], n=1 if q else 2)
    # (a) containment / regular name: free-form remote paths (every character any of Σ), every chain
    for chain in ALL_CHAINS:
        for n in range(0, (5 if q else 8) + 1):
            add('name', h_name, requires=['chosen'] if n >= 1 else [], chain=chain, shape='x' * n, dirspec=None, sigma='ext')
    # longer structured paths: up to 4 components, 1..2 separator characters between them, alias / drive prefixes
    struct = ['ccscc', 'cssccsc', 'scscsc', '@@csccsc', 'c:scsc', 'csc:scc']
    if not q:
        struct += ['cc', 'csc', 'ccsccscc', 'ccsscssccscc', 'cscscscsc', '@@ccsccssccscc', 'ccscsccs', 'sscscc', 'cccccsccccc']
    for chain in ALL_CHAINS:
        for sh in struct:
            add('name', h_name, chain=chain, shape=sh, dirspec=None, sigma='ext')
    # (b) freshness: directory contents shaped around the candidate name (all their characters symbolic)
    specs = [['S'], ['N1'], ['S', 'N1'], ['S', 'N1', 'N1'], ['S', 'N2'], ['S', 'N1', 'N1+1'], ['S', 'N1', 'N2']]
    for sh in (['c', 'cc', 'ccc'] if q else ['c', 'cc', 'ccc', 'cccc']):
        for sp in specs:
            if q and sh == 'ccc' and sp == ['S', 'N1', 'N2']:
                continue
            add('name', h_name, chain='DN', shape=sh, dirspec={'root': sp})
    for chain in ['DKN', 'KDN']:
        for sh in (['cc'] if q else ['c', 'cc', 'ccc']):
            for sp in ([['S', 'N1'], ['S', 'N1', 'N1']] if q else specs):
                add('name', h_name, chain=chain, shape=sh, dirspec={'root': sp})
    if not q:
        four = [({'root': ['S', 'N1', 'N1', 'N1']}, 'ccc'), ({'root': ['S', 'N1', 'N1', 'N1'], 'order': 'rev'}, 'ccc'),
                ({'root': ['S', 'N2', 'N1', 'N1+1']}, 'cc'), ({'root': ['S', 'N1', 'N2', 'N2'], 'order': 'rev'}, 'c'),
                ({'root': ['S', 'F1', 'N1']}, 'ccc'), ({'root': ['S', 'N1', 'N1+1', 'N1+1']}, 'ccc'), ({'root': ['S', 'N1', 'N1+1', 'N1']}, 'cc'),
                ({'root': ['S', 'N1', 'N1'], 'order': 'rev'}, 'ccc'), ({'root': ['S', 'N1', 'N2'], 'order': 'rev'}, 'ccc')]
        for ds, longest in four:
            for sh in ['c', 'cc', 'ccc'][:len(longest)]:
                add('name', h_name, chain='DN', shape=sh, dirspec=ds)
    else:
        add('name', h_name, chain='DN', shape='c', dirspec={'root': ['S', 'N1', 'N1+1', 'N1']})
    # with a kept directory: contents in the download directory and in a sub-directory whose name is symbolic too
    for chain in DUP_CHAINS:
        for sh in (['cscc'] if q else ['cscc', 'ccsc', 'cscsccc']):
            add('name', h_name, chain=chain, shape=sh, dirspec={'root': ['S'], 'sub': ['S']})
            if not q or chain in ('DKN', 'KDN', 'DNK'):
                add('name', h_name, chain=chain, shape=sh, dirspec={'root': ['S', 'N1'], 'sub': ['S', 'N1']})
    for chain in ['DKN', 'KDN']:
        for sh in (['cscc'] if q else ['cscc', 'ccsccc']):
            add('name', h_name, chain=chain, shape=sh, dirspec={'root': [], 'sub': ['S', 'N1', 'N1']})
            if not q and sh == 'cscc':
                add('name', h_name, chain=chain, shape=sh, dirspec={'root': ['S', 'N1', 'N1'], 'sub': ['S', 'N1', 'N1']})
                add('name', h_name, chain=chain, shape=sh, dirspec={'root': ['N1'], 'sub': ['S', 'N2', 'N1+1']})
    # free-form remote paths against an existing equally long name
    for chain in DUP_CHAINS:
        for n in range(1, (3 if q else 6) + 1):
            add('name', h_name, chain=chain, shape='x' * n, dirspec={'root': ['S'], 'sub': ['S']})
    # (b2) sequences on one SharesManager / one chain of strategy objects
    seqs = [(['c.c', 'c.c'], [['S'], ['S', 'N1']]), (['c', 'c.c'], [['S'], ['S', 'N1']])]
    if not q:
        seqs += [(['c.c', 'c', 'c.c'], [['S'], [], ['S', 'N1']]), (['c.cc', 'c.c'], [['S'], ['S', 'N1']])]
    for chain in (['DN'] if q else ['DN', 'DKN', 'KDN']):
        for shapes, dirs in (seqs if chain == 'DN' else seqs[:1]):
            # quick: for the larger shape only the half in which the first call really is a duplicate
            for part in (('==', '!=') if (q and shapes[0] != 'c') else ('==', '=!', '!=', '!!')):
                add('sequence', h_sequence, requires=['sequence_end'], chain=chain, shapes=shapes, dirs=dirs, part=part)
    # (c) concurrent downloads
    for chain in (['DN', 'DKN'] if q else ['DN', 'DKN', 'KDN']):
        shape_sets = [['c', 'c'], ['cscc', 'cscc']] if q else [['c', 'c'], ['cc', 'cc'], ['cscc', 'cscc'], ['xx', 'xx'], ['xxx', 'xxx']]
        for shapes in shape_sets:
            for stag in (False, True):
                add('concurrent', h_concurrent, requires=['all_started'], chain=chain, shapes=shapes, dirspec=None, staggered=stag)
        add('concurrent', h_concurrent, requires=['all_started'], chain=chain, shapes=['c', 'c'], dirspec={'root': ['S', 'N1']}, staggered=False)
    if not q:
        add('concurrent', h_concurrent, requires=['all_started'], chain='DN', shapes=['c', 'c', 'c'], dirspec=None, staggered=False)
        add('concurrent', h_concurrent, requires=['all_started'], chain='DN', shapes=['c', 'c', 'c'], dirspec=None, staggered=True)
    return out
