"""C20 bandwidth limits: real LimitedRateLimiter / UnlimitedRateLimiter /
RateLimiter.create_limiter / Network.set_*_speed_limit / PeerConnection.send_file /
receive_file token accounting, executed on symbolic limits, buckets and clocks."""
from __future__ import annotations

import types
from fractions import Fraction

import z3

from engine import symex
from engine.symex import SInt, SReal, And, Implies, ite, sym_int

import aioslsk.network.rate_limiter as rl
from aioslsk.network.network import Network
from aioslsk.network.connection import PeerConnection, PeerConnectionState, PeerConnectionType, ConnectionState
from engine.vloop import VLoop

PROPERTY = 'C20'


class _G:
    """size of one grant of the limited limiter, read from the code under test at run time (the property does not pin it)"""

    def __index__(self):
        return int(rl.LimitedRateLimiter.MIN_BUCKET_SIZE)


def G():
    return int(rl.LimitedRateLimiter.MIN_BUCKET_SIZE)


MINB = 128   # only for the mul-hint constants; obligations use G()


class _Sleep:
    """stand-in for asyncio.sleep(): one suspension point, the duration is recorded"""

    def __init__(self, d):
        self.d = d

    def __await__(self):
        yield ('sleep', self.d)


class _TimeModule:
    """stand-in for the `time` module inside rate_limiter: monotonic() is the reading supplied by the harness; the
    OTHER clocks (time(), perf_counter()) are unrelated to it - every reading is a fresh arbitrary non-negative real
    (a wall clock reads ~1.8e9 while monotonic() reads seconds since boot); anything else is a harness error that
    names the missing function."""

    def __init__(self, env):
        self._env = env
        self._n = 0

    def monotonic(self):
        return self._env.now

    def _other_clock(self, name):
        self._n += 1
        return symex.ctx().fresh_real(f'{name}_reading{self._n}', lo=0)

    def time(self):
        return self._other_clock('wall_clock')

    def perf_counter(self):
        return self._other_clock('perf_counter')

    def __getattr__(self, name):
        raise symex.HarnessError(f'time.{name} is not modelled by the C20 environment')


class Env:
    """installs the environment stubs into the module globals of rate_limiter
    (nothing in /repo is edited): `time.monotonic` -> readings supplied by the
    harness, `asyncio.sleep` -> a bare suspension point, `int` -> truncation that
    also understands symbolic reals."""

    def __init__(self, symbolic: bool):
        self.on_sleep = None
        self.now = None
        self.saved = {}
        self.symbolic = symbolic

    def __enter__(self):
        g = rl.__dict__
        self.saved = {k: g.get(k, _MISSING) for k in ('time', 'asyncio', 'int')}
        g['time'] = _TimeModule(self)
        g['asyncio'] = types.SimpleNamespace(sleep=lambda d: _Sleep(d))
        self.saved['max'] = g.get('max', _MISSING)
        if self.symbolic:
            g['int'] = sym_int
            g['max'] = symex.sym_max
        return self

    def __exit__(self, *a):
        g = rl.__dict__
        for k, v in self.saved.items():
            if v is _MISSING:
                g.pop(k, None)
            else:
                g[k] = v


_MISSING = object()


def hints(c, *vals):
    """constants for the valid product lemmas (see engine.symex._mul_lemmas)"""
    if c.symbolic:
        for v in vals:
            if isinstance(v, int):
                for k in (v, v - (G() - 1), v - G(), v - 127, v - 128):
                    if k not in c.mul_hints:
                        c.mul_hints.append(k)


def poll(lim, env, t):
    """one scheduling step of a caller inside `await limiter.take_tokens()`:
    runs the real coroutine up to its first suspension. returns bytes granted
    (0 when it went to sleep)."""
    env.now = t
    co = lim.take_tokens()
    try:
        r = co.send(None)
    except StopIteration as e:
        return e.value
    assert r[0] == 'sleep'
    co.close()
    return 0


def _arbitrary_aux_state(c, lim, upper):
    """any further float bookkeeping the limiter carries (attributes other than the
    three documented ones) is arbitrary in [0, upper] as well"""
    for name, v in sorted(vars(lim).items()):
        if name in ('limit_bps', 'bucket', 'last_refill') or not isinstance(v, float):
            continue
        x = c.fresh_real(('aux_' if upper is not None else 'other_aux_') + name, lo=0)
        if upper is not None:
            c.assume(x <= upper)
        setattr(lim, name, x)


def _clock(c, name, lo):
    t = c.fresh_real(name, lo=0)
    c.assume(t >= lo)
    return t


def _mk_limited(c, kbps):
    lim = rl.RateLimiter.create_limiter(kbps)
    assert type(lim) is rl.LimitedRateLimiter or c.symbolic
    return lim


def _exact(x):
    """concrete replay runs in floats; obligations are compared in exact rationals"""
    if isinstance(x, float):
        return Fraction(x)
    return x


# ------------------------------------------------------------------------------
# H1: one refill / one take from an arbitrary valid state
# ------------------------------------------------------------------------------

def h_step(c, fixed_kbps=None):
    kbps = c.fresh_int('limit_kbps', 1, 10000) if fixed_kbps is None else fixed_kbps
    with Env(c.symbolic) as env:
        lim = rl.RateLimiter.create_limiter(kbps)
        c.check(type(lim) is rl.LimitedRateLimiter, 'limited_class')
        L = lim.limit_bps
        c.check(L == kbps * 1024, 'limit_is_kib')
        b0 = c.fresh_int('bucket', 0, None)
        c.assume(b0 <= L)
        r0 = c.fresh_real('last_refill', lo=0)
        t = _clock(c, 't', r0)
        lim.bucket = b0
        lim.last_refill = r0
        _arbitrary_aux_state(c, lim, t)
        env.now = t
        empty = lim.refill()
        b1 = lim.bucket
        c.reach('after_refill')
        c.check(And(b1 >= 0, b1 <= L), 'bucket_in_range')
        c.check(b1 >= b0, 'refill_monotone')
        c.check(_exact(b1 - b0) <= _exact(L) * (_exact(t) - _exact(r0)) + 0, 'refill_at_most_rate', info='added > L*dt')
        c.check(bool(empty) == bool(b1 < G()), 'is_empty_truthful')
        # a grant is exactly the decrease of the bucket
        g = poll(lim, env, t)
        c.check(lim.bucket == b1 - g, 'grant_is_bucket_decrease')
        c.check(ite(b1 >= G(), g == G(), g == 0) if c.symbolic else (g == (G() if b1 >= G() else 0)), 'grant_size')
        c.check(lim.bucket >= 0, 'bucket_nonneg_after_take')


# ------------------------------------------------------------------------------
# H2: window bound over k polls, optional limit change through the real Network code
# ------------------------------------------------------------------------------

class _Conn:
    def __init__(self):
        self.upload_rate_limiter = None
        self.download_rate_limiter = None


def mk_net(c=None, conns=(), direction=None, other=None):
    """a real Network from its real constructor (nothing is started or connected; state a change adds in __init__
    exists, helpers a change adds next to the setters exist).  `other`: limit of the OTHER direction's limiter, which
    then sits in an arbitrary valid state (a setter must not look at it)."""
    from aioslsk.events import EventBus
    from aioslsk.settings import Settings, CredentialsSettings
    settings = Settings(credentials=CredentialsSettings(username='me', password='pw'))
    settings.network.upnp.enabled = False
    net = VLoop().call(Network, settings, EventBus())
    net.peer_connections = list(conns)
    if other is not None and direction is not None:
        odir = 'download' if direction == 'upload' else 'upload'
        getattr(Network, f'set_{odir}_speed_limit')(net, other)
        olim = getattr(net, f'_{odir}_rate_limiter')
        if type(olim) is rl.LimitedRateLimiter and c is not None:
            ob = c.fresh_int('other_bucket', 0, None)
            c.assume(ob <= olim.limit_bps)
            olim.bucket = ob
            olim.last_refill = c.fresh_real('other_last_refill', lo=0)
            _arbitrary_aux_state(c, olim, None)
    return net


def h_window(c, k=4, kbps=None, change_at=None, new_kbps=None, direction='upload', from_init=False, other=None):
    """k scheduling steps of callers of take_tokens at arbitrary non-decreasing
    instants (which caller polls is irrelevant for the bucket: the limiter is shared
    and a poll is atomic).  Obligation: bytes granted in any window [t_i, t_j] are at
    most sum(L_s * dt_s) + max L_s."""
    k0 = c.fresh_int('limit_kbps', 1, 10000) if kbps is None else kbps
    hints(c, k0 * 1024 if isinstance(k0, int) else None, new_kbps * 1024 if isinstance(new_kbps, int) else None)
    with Env(c.symbolic) as env:
        net = mk_net(c, [_Conn(), _Conn()], direction, other)
        attr = f'_{direction}_rate_limiter'
        setter = getattr(Network, f'set_{direction}_speed_limit')
        setter(net, k0)
        lim = getattr(net, attr)
        c.check(all(getattr(pc, f'{direction}_rate_limiter') is lim for pc in net.peer_connections), 'limiter_propagated')
        L0 = lim.limit_bps
        if from_init:
            t_prev = 0
        else:
            b0 = c.fresh_int('bucket', 0, None)
            c.assume(b0 <= L0)
            r0 = c.fresh_real('last_refill', lo=0)
            lim.bucket = b0
            lim.last_refill = r0
            _arbitrary_aux_state(c, lim, r0)
            t_prev = r0
        times, grants, limits = [], [], []
        Lcur = L0
        for i in range(k):
            if change_at is not None and i == change_at:
                nk = c.fresh_int('new_limit_kbps', 0, 10000) if new_kbps is None else new_kbps
                setter(net, nk)
                lim = getattr(net, attr)
                c.check(all(getattr(pc, f'{direction}_rate_limiter') is lim for pc in net.peer_connections), 'limiter_propagated')
                if type(lim) is rl.UnlimitedRateLimiter:
                    c.reach('changed_to_unlimited')
                    g = poll(lim, env, t_prev)
                    c.check(g == rl.UnlimitedRateLimiter.MIN_BUCKET_SIZE, 'unlimited_grants_without_wait')
                    return
                Lcur = lim.limit_bps
            t = _clock(c, f't{i}', t_prev)
            g = poll(lim, env, t)
            times.append(t)
            grants.append(g)
            limits.append(Lcur)
            t_prev = t
        c.reach('window_end')
        # The property for the history extended by m more polls at instant t_j implies
        #   granted[i..j] + 128*floor(bucket_j/128) <= budget + burst
        # (every such poll is granted while the bucket holds >= 128).  Symbolically that
        # implied form is the obligation; in concrete replay the extra polls are really
        # performed and the literal window sum is compared.
        if c.symbolic:
            tail = G() * (lim.bucket // G())
        else:
            tail = 0
            for _ in range(int(lim.limit_bps) // G() + 2):
                g = poll(lim, env, times[-1])
                if g == 0:
                    break
                tail += g
        for i in range(k):
            for j in (range(i, k) if c.symbolic else [k - 1]):
                total = sum(grants[i:j + 1])
                if j == k - 1:
                    total = total + tail
                budget = 0
                for s in range(i + 1, j + 1):
                    # rate in force on (t_{s-1}, t_s] is the one the s-th poll ran under
                    budget = budget + _exact(limits[s]) * (_exact(times[s]) - _exact(times[s - 1]))
                burst = limits[i]
                for s in range(i, j + 1):
                    burst = symex.sym_max(burst, limits[s])
                c.check(_exact(total) <= budget + _exact(burst), 'window_bound',
                        sig=['change' if change_at is not None else 'nochange',
                             'from_init' if from_init else 'any_state'],
                        info={'i': i, 'j': j})


def h_from_unlimited(c, k=3, new_kbps=1, direction='upload', other=None):
    """unlimited -> limited at run time through the real Network setter: the limited
    period starts with whatever copy_tokens hands over; windows inside the limited
    period obey the bound."""
    hints(c, new_kbps * 1024)
    with Env(c.symbolic) as env:
        net = mk_net(c, [_Conn()], direction, other)
        attr = f'_{direction}_rate_limiter'
        setter = getattr(Network, f'set_{direction}_speed_limit')
        setter(net, 0)
        lim = getattr(net, attr)
        c.check(type(lim) is rl.UnlimitedRateLimiter, 'unlimited_iff_zero')
        t_prev = c.fresh_real('tu', lo=0)
        c.check(poll(lim, env, t_prev) == 8192, 'unlimited_grants_without_wait')
        setter(net, new_kbps)
        lim = getattr(net, attr)
        c.check(net.peer_connections[0].__dict__[f'{direction}_rate_limiter'] is lim, 'limiter_propagated')
        L = lim.limit_bps
        times, grants = [], []
        for i in range(k):
            t = _clock(c, f't{i}', t_prev)
            grants.append(poll(lim, env, t))
            times.append(t)
            t_prev = t
        c.reach('window_end')
        tail = G() * (lim.bucket // G()) if c.symbolic else 0
        if not c.symbolic:
            for _ in range(int(L) // G() + 2):
                g = poll(lim, env, times[-1])
                if g == 0:
                    break
                tail += g
        for i in range(k):
            total = sum(grants[i:]) + tail
            c.check(_exact(total) <= _exact(L) * (_exact(times[-1]) - _exact(times[i])) + _exact(L), 'window_bound',
                    sig=['from_unlimited'], info={'i': i})


# ------------------------------------------------------------------------------
# H2b: the bytes a real PeerConnection moves (send_file / receive_file) obey the limit that
# is in force, for a connection in any peer-connection state at the time of the change
# ------------------------------------------------------------------------------

class _FakeWriter:
    def __init__(self, log):
        self.log = log

    def write(self, data):
        self.log.append(len(data))

    async def drain(self):
        return None

    def is_closing(self):
        return False

    def close(self):
        pass

    async def wait_closed(self):
        return None


class _FakeReader:
    def __init__(self, log):
        self.log = log

    async def read(self, n):
        self.log.append(n)
        return bytes(n)


class _YieldingReader:
    def __init__(self, log):
        self.log = log

    async def read(self, n):
        import asyncio as _a
        await _a.sleep(0)
        self.log.append(n)
        return bytes(n)


class _FakeFile:
    def __init__(self, chunks, yielding=False):
        self.left = chunks
        self.yielding = yielding

    async def read(self, n):
        if self.yielding:
            import asyncio as _a
            await _a.sleep(0)      # the disk read yields to the loop once per chunk
        if self.left <= 0:
            return b''
        self.left -= 1
        return bytes(n)

    async def write(self, data):
        return len(data)


def h_conn(c, op='send', conn_state='NEGOTIATING_TRANSFER', old_kbps=0, new_kbps=1, when='before', sleeps=1, other=None):
    """a file connection exists (in `conn_state`) while the limit is changed through the
    real Network setter; afterwards the real send_file / receive_file runs on the
    virtual loop.  Every suspension in take_tokens resumes at a fresh symbolic instant.
    Obligation: bytes moved since the change obey the window bound of the new limit."""
    hints(c, new_kbps * 1024, old_kbps * 1024)
    direction = 'upload' if op == 'send' else 'download'
    loop = VLoop()
    with Env(c.symbolic) as env:
        rl.__dict__['asyncio'] = types.SimpleNamespace(sleep=asyncio_sleep(loop))
        fake_net = mk_net(c, [], direction, other)
        conn = PeerConnection('1.2.3.4', 1234, fake_net, connection_type=PeerConnectionType.FILE)
        conn.state = ConnectionState.CONNECTED
        conn.connection_state = PeerConnectionState[conn_state]
        moved = []
        conn._writer = _FakeWriter(moved)
        conn._reader = _FakeReader(moved)
        setter = getattr(Network, f'set_{direction}_speed_limit')
        setter(fake_net, old_kbps)
        # what Network does when it accepts / finalises a peer connection (network.py: _finalize_peer_connection)
        fake_net.peer_connections.append(conn)
        conn.download_rate_limiter = fake_net._download_rate_limiter or conn.download_rate_limiter
        conn.upload_rate_limiter = fake_net._upload_rate_limiter or conn.upload_rate_limiter
        t0 = c.fresh_real('t_change', lo=0)
        env.now = t0
        old = getattr(fake_net, f'_{direction}_rate_limiter')
        if type(old) is rl.LimitedRateLimiter:
            # the old bucket is full and fresh (worst case for a hand-over); arbitrary buckets are H2's job
            old.bucket, old.last_refill = old.limit_bps, t0
            _arbitrary_aux_state(c, old, t0)
        task = None
        if when == 'during':
            # the transfer is already inside its loop when the limit changes
            if op == 'send':
                coro0 = conn.send_file(_FakeFile(10**6, yielding=True))
            else:
                conn._reader = _YieldingReader(moved)
                coro0 = conn.receive_file(_FakeFile(0), filesize=10**12)
            task = loop.spawn(coro0)
            for _ in range(6):
                if not loop.step():
                    break
            c.reach('running_at_change')
        moved_before = sum(moved)
        setter(fake_net, new_kbps)
        L = new_kbps * 1024
        times = [t0]

        def on_sleep():
            t = _clock(c, f't{len(times)}', times[-1])
            times.append(t)
            env.now = t

        env.on_sleep = on_sleep
        chunks = (L // G()) + 4
        if task is None:
            if op == 'send':
                coro = conn.send_file(_FakeFile(chunks))
            else:
                coro = conn.receive_file(_FakeFile(0), filesize=chunks * G())
            task = loop.spawn(coro)
        n_sleeps = 0
        while not task.done():
            if when == 'during':
                for _ in range(40):          # bounded: an unthrottled transfer never stops by itself
                    if not loop.step():
                        break
            else:
                loop.run_ready()
            if task.done():
                break
            if when == 'during' and loop._ready:
                break
            nt = loop.next_timer()
            if nt is None:
                raise symex.HarnessError('transfer coroutine blocked on something that is not the limiter')
            if n_sleeps >= sleeps:
                break
            n_sleeps += 1
            on_sleep()
            loop.advance_to(nt)
        c.reach('conn_end')
        lim_now = getattr(conn, f'{direction}_rate_limiter')
        c.check(lim_now is getattr(fake_net, f'_{direction}_rate_limiter'), 'connection_uses_current_limiter',
                sig=[op, conn_state, old_kbps, new_kbps])
        total = sum(moved) - moved_before
        lim_now = getattr(fake_net, f'_{direction}_rate_limiter')
        pot = G() * (lim_now.bucket // G()) if (c.symbolic and type(lim_now) is rl.LimitedRateLimiter) else 0
        # a chunk whose tokens were granted by the OLD limiter before the change may still be in flight at the change
        inflight = (rl.UnlimitedRateLimiter.MIN_BUCKET_SIZE if old_kbps == 0 else G()) if when == 'during' else 0
        c.check(_exact(total + pot) <= _exact(L) * (_exact(times[-1]) - _exact(t0)) + _exact(L) + inflight, 'window_bound',
                sig=['conn', op, conn_state, old_kbps, new_kbps, when], info={'moved': repr(total)})
        task.cancel()
        loop.cleanup()


def asyncio_sleep(loop):
    import asyncio as _a
    from asyncio import events as _ev

    def sleep(d):
        # inside the virtual loop: the real asyncio.sleep; driven by hand (poll): a bare suspension point
        return _a.sleep(d) if _ev._get_running_loop() is not None else _Sleep(d)
    return sleep


# ------------------------------------------------------------------------------
# H2c: concurrent callers whose take_tokens coroutines stay alive across their sleeps
# ------------------------------------------------------------------------------

def h_callers(c, n=2, order=(0, 1, 0, 1), kbps=1, low=False):
    """n connections share the limiter; every caller keeps its real take_tokens coroutine across suspensions (what it
    does AFTER a sleep is executed too).  Which caller is scheduled at each step is a discriminant; the instants are
    symbolic: non-decreasing, and a sleeping caller is resumed no earlier than the end of the sleep it asked for."""
    hints(c, kbps * 1024)
    with Env(c.symbolic) as env:
        lim = rl.RateLimiter.create_limiter(kbps)
        L = lim.limit_bps
        b0 = c.fresh_int('bucket', 0, G() - 1 if low else None)
        c.assume(b0 <= L)
        r0 = c.fresh_real('last_refill', lo=0)
        lim.bucket, lim.last_refill = b0, r0
        _arbitrary_aux_state(c, lim, r0)
        t = r0
        callers = [{'co': None, 'wake': None} for _ in range(n)]
        grants, times = [], []
        for s_, i in enumerate(order):
            cal = callers[i]
            tn = _clock(c, f't{s_}', t)
            if cal['wake'] is not None:
                c.assume(tn >= cal['wake'])
            t = tn
            env.now = t
            if cal['co'] is None:
                cal['co'] = lim.take_tokens()
            try:
                r = cal['co'].send(None)
            except StopIteration as e:
                cal['co'], cal['wake'] = None, None
                grants.append(e.value)
                times.append(t)
                c.check(lim.bucket >= 0, 'bucket_nonneg_after_take', sig=['callers', n])
                c.check(e.value == G(), 'grant_size', sig=['callers'])
            else:
                c.check(r[1] >= rl.INTERVAL, 'sleeps_interval', sig=['callers'])
                cal['wake'] = t + r[1]
        c.reach('callers_end')
        for cal in callers:
            if cal['co'] is not None:
                cal['co'].close()
        k = len(grants)
        if k:
            c.reach('callers_granted')
        pot = symex.sym_max(0, G() * (lim.bucket // G())) if c.symbolic else 0
        for i in range(k):
            total = sum(grants[i:]) + pot
            c.check(_exact(total) <= _exact(L) * (_exact(times[-1]) - _exact(times[i])) + _exact(L), 'window_bound',
                    sig=['callers', n], info={'i': i, 'grants': k})


# ------------------------------------------------------------------------------
# H2d: tokens taken before a limit change must not come back into the new limiter
# ------------------------------------------------------------------------------

class _PendingReader:
    """a read that is still outstanding when the limit changes; completed by the harness with a SHORT chunk"""

    def __init__(self, loop):
        self.loop = loop
        self.asked = []
        self.fut = None

    async def read(self, n):
        self.asked.append(n)
        self.fut = self.loop.create_future()
        return await self.fut


def h_refund(c, old_kbps=0, new_kbps=1, drain=9, after=2, other=None):
    """connection A sits in a pending read (tokens already taken from the limiter in force) while the download limit
    is changed through the real Network setter; another connection B drains the new limiter's initial burst; then
    A's read completes with a short chunk; then B polls again.  Bytes moved since the change + what the bucket can
    still hand out at the last instant must fit the window bound of the new limit."""
    hints(c, new_kbps * 1024, old_kbps * 1024)
    loop = VLoop()
    with Env(c.symbolic) as env:
        rl.__dict__['asyncio'] = types.SimpleNamespace(sleep=asyncio_sleep(loop))
        fake_net = mk_net(c, [], 'download', other)
        conn = PeerConnection('1.2.3.4', 1234, fake_net, connection_type=PeerConnectionType.FILE)
        conn.state = ConnectionState.CONNECTED
        conn.connection_state = PeerConnectionState.TRANSFERRING
        reader = _PendingReader(loop)
        conn._reader, conn._writer = reader, _FakeWriter([])
        Network.set_download_speed_limit(fake_net, old_kbps)
        fake_net.peer_connections.append(conn)
        conn.download_rate_limiter = fake_net._download_rate_limiter
        t0 = c.fresh_real('t_change', lo=1)
        env.now = t0
        old = fake_net._download_rate_limiter
        if type(old) is rl.LimitedRateLimiter:
            old.bucket, old.last_refill = old.limit_bps, t0
            _arbitrary_aux_state(c, old, t0)
        received = []
        task = loop.spawn(conn.receive_file(_FakeFile(0), filesize=10**9, callback=lambda d: received.append(len(d))))
        loop.run_ready()
        if reader.fut is None:
            raise symex.HarnessError('connection A never reached its read')
        Network.set_download_speed_limit(fake_net, new_kbps)
        lim = fake_net._download_rate_limiter
        L = lim.limit_bps
        moved = []
        t1 = _clock(c, 't_drain', t0)
        for _ in range(drain):
            moved.append(poll(lim, env, t1))
        c.reach('drained')
        # A's outstanding read completes with one byte
        t2 = _clock(c, 't_short', t1)
        env.now = t2
        reader.fut.set_result(bytes(1))
        loop.run_ready()
        c.check(conn.download_rate_limiter is lim, 'connection_uses_current_limiter', sig=['refund'])
        t_last = t2
        for j in range(after):
            t_last = _clock(c, f't_after{j}', t_last)
            moved.append(poll(lim, env, t_last))
        c.reach('refund_end')
        pot = symex.sym_max(0, G() * (lim.bucket // G())) if c.symbolic else 0
        if not c.symbolic:
            for _ in range(int(L) // G() + 2):
                g = poll(lim, env, t_last)
                if g == 0:
                    break
                pot += g
        total = sum(moved) + sum(received[1:]) + pot
        c.check(_exact(total) <= _exact(L) * (_exact(t_last) - _exact(t0)) + _exact(L), 'window_bound',
                sig=['refund', old_kbps, new_kbps], info={'moved': repr(sum(moved))})
        task.cancel()
        loop.cleanup()


# ------------------------------------------------------------------------------
# H3: unlimited never throttles; create_limiter chooses the class by the limit
# ------------------------------------------------------------------------------

def h_unlimited(c):
    kbps = c.fresh_int('limit_kbps', 0, 10000)
    with Env(c.symbolic) as env:
        lim = rl.RateLimiter.create_limiter(kbps)
        if type(lim) is rl.UnlimitedRateLimiter:
            c.reach('unlimited')
            c.check(kbps == 0, 'unlimited_iff_zero')
            for i in range(3):
                g = poll(lim, env, c.fresh_real(f't{i}', lo=0))
                c.check(g == 8192, 'unlimited_grants_without_wait')
            c.check(not lim.is_empty(), 'unlimited_never_empty')
        else:
            c.reach('limited')
            c.check(kbps >= 1, 'unlimited_iff_zero')
            c.check(lim.limit_bps == kbps * 1024, 'limit_is_kib')


# ------------------------------------------------------------------------------
# H4: progress.  A caller that polls every INTERVAL gets a grant within a bounded
# number of polls whatever up to 3 other callers do in between.
# ------------------------------------------------------------------------------

def h_wait_bound(c, kbps=None, n=16):
    """single caller: from any state with bucket < 128 and last_refill = the instant of
    its previous poll, polling at spacing >= INTERVAL, take_tokens returns within n
    polls (unwinding assertion: the loop below must not run out)."""
    k0 = c.fresh_int('limit_kbps', 1, 10000) if kbps is None else kbps
    hints(c, k0 * 1024 if isinstance(k0, int) else None)
    with Env(c.symbolic) as env:
        lim = rl.RateLimiter.create_limiter(k0)
        b0 = c.fresh_int('bucket', 0, G() - 1)
        T = c.fresh_real('T0', lo=0)
        lim.bucket = b0
        lim.last_refill = T
        _arbitrary_aux_state(c, lim, T)
        env.now = T
        co = lim.take_tokens()
        granted = None
        for i in range(n):
            T2 = c.fresh_real(f'T{i + 1}', lo=0)
            c.assume(T2 >= T + Fraction(1, 100))
            T = T2
            env.now = T
            try:
                r = co.send(None)
            except StopIteration as e:
                granted = e.value
                break
            if i > 0 or True:
                c.check(r[1] == rl.INTERVAL, 'sleeps_interval')
        c.reach('wait_end')
        c.check(granted is not None, 'granted_within_bound', sig=['polls', n],
                info=f'take_tokens still waiting after {n} polls spaced >= INTERVAL')
        if granted is not None:
            c.check(granted == G(), 'grant_size')


def h_progress_round(c, others=1, kbps=None):
    """exact per-round lemma used for the bounded-wait claim: start of round =
    right after one of our polls at instant T0 (so last_refill == T0) with bucket
    b < 128.  During the round `others` foreign polls and then our poll at T1 >= T0 +
    INTERVAL.  Claim: (bucket at our refill) + (bytes granted to foreign callers in the
    round) >= b + floor-sum lower bound >= b + 1 whenever L >= 1024.  Hence every round
    either hands out a grant to someone or increases the bucket by >= 1, so our caller
    is granted after at most 128 rounds in which no foreign caller is granted, i.e.
    within 128 * INTERVAL plus the foreign callers' grants."""
    k0 = c.fresh_int('limit_kbps', 1, 10000) if kbps is None else kbps
    hints(c, k0 * 1024 if isinstance(k0, int) else None)
    with Env(c.symbolic) as env:
        lim = rl.RateLimiter.create_limiter(k0)
        b0 = c.fresh_int('bucket', 0, G() - 1)
        T0 = c.fresh_real('T0', lo=0)
        lim.bucket = b0
        lim.last_refill = T0
        _arbitrary_aux_state(c, lim, T0)
        t_prev = T0
        foreign = 0
        for j in range(others):
            t = _clock(c, f'o{j}', t_prev)
            foreign = foreign + poll(lim, env, t)
            t_prev = t
        T1 = c.fresh_real('T1', lo=0)
        c.assume(T1 >= t_prev)
        c.assume(T1 >= T0 + Fraction(1, 100))
        g = poll(lim, env, T1)
        c.reach('round_end')
        gain = lim.bucket + g + foreign - b0
        c.check(gain >= 1, 'round_makes_progress', sig=['others', others],
                info='a full INTERVAL passed yet neither a grant nor a single token was gained')
        # quantitative form from which the waiting bound is derived: in a round in which nobody is
        # granted anything the bucket stayed below 128 throughout, so every refill ran on a deficit
        # >= L-127:   gain >= (L-127)*INTERVAL - (others+1);  hence at most
        # ceil(128 / max(1, ceil((L-127)/100) - (others+1))) consecutive grant-less rounds.
        nogrant = (g + foreign == 0)
        c.check(Implies(nogrant, 100 * (gain + others + 1) >= lim.limit_bps - (G() - 1)) if c.symbolic
                else ((g + foreign != 0) or 100 * (gain + others + 1) >= lim.limit_bps - (G() - 1)),
                'grantless_round_gain_lower_bound', sig=['others', others])
        c.check(Implies(b0 + 0 >= G(), g == G()) if c.symbolic else True, 'grant_when_enough')


META = {
    'level': 'other',
    'technique': 'symbolic execution of the real rate-limiter code on z3 Int/Real proxies (limit, bucket, clock readings symbolic); window and progress obligations decided by z3 per path',
    'explanation': 'Real LimitedRateLimiter.refill/take_tokens/add_tokens/is_empty/copy_tokens, UnlimitedRateLimiter, '
                   'RateLimiter.create_limiter and Network.set_upload/download_speed_limit are run natively with the limit, the bucket, '
                   'last_refill and every clock reading replaced by z3-backed values; each branch forks, each obligation is a z3 query '
                   'over all values on that path. Counterexample models are replayed on the unstubbed code with float clocks.',
    'functions': [rl.LimitedRateLimiter.refill, rl.LimitedRateLimiter.take_tokens, rl.LimitedRateLimiter.add_tokens,
                  rl.LimitedRateLimiter.is_empty, rl.LimitedRateLimiter.copy_tokens, rl.UnlimitedRateLimiter.take_tokens,
                  rl.RateLimiter.create_limiter, Network.set_upload_speed_limit, Network.set_download_speed_limit],
    'stubs': ['rate_limiter.time.monotonic -> harness-supplied non-decreasing symbolic real',
              'rate_limiter.asyncio.sleep -> bare suspension point (duration recorded)',
              'rate_limiter.int -> truncation toward zero on symbolic reals',
              'time.time() / time.perf_counter() inside rate_limiter -> a fresh arbitrary non-negative real per reading (unrelated to monotonic())',
              'Network: real constructor (Settings with credentials only, upnp off, real EventBus); never started or connected; peer_connections replaced by the harness connections'],
    'data_variables': ['limit_kbps in 1..10000 (Int)', 'bucket in 0..limit (Int)', 'last_refill >= 0 (Real)',
                       'every clock reading (Real, non-decreasing)', 'new limit 0..10000 (Int)'],
    'discriminants': ['number of polls k', 'position of the limit change', 'direction upload/download', 'which of n callers is scheduled at each step (callers harness)', 'connection state at the change'],
    'bounds': {'quick': {'polls_k': 4, 'limit_change_positions': 'each of 1..k-1', 'foreign_polls_per_round': '0..3'},
               'thorough': {'polls_k': 6, 'limit_change_positions': 'each of 1..k-1', 'foreign_polls_per_round': '0..3'}},
    'outside': ['double rounding: the code computes in IEEE doubles, the encoding in exact reals (see DESIGN §C20 floats)',
                'more than k polls per window (the window obligation is inductive in the bucket invariant, which H1 proves for one step from any state)',
                'callers still suspended inside the old limiter object at the moment of a limit change'],
    'assumptions': ['time.monotonic is non-decreasing', 'asyncio.sleep(INTERVAL) sleeps at least INTERVAL'],
}


def jobs(tier):
    q = tier == 'quick'
    out = []
    out.append({'harness': 'step', 'fn': h_step, 'params': {}, 'requires': ['after_refill']})
    out.append({'harness': 'unlimited', 'fn': h_unlimited, 'params': {}, 'requires': ['unlimited', 'limited']})
    k = 4 if q else 5
    for kb in ([1, 7, 1000] if q else [1, 7, 1000, 10000]):
        out.append({'harness': 'window', 'fn': h_window, 'params': {'k': k, 'kbps': kb}, 'requires': ['window_end']})
    if not q:
        for kb in (2, 64):
            out.append({'harness': 'window', 'fn': h_window, 'params': {'k': 4, 'kbps': kb}, 'requires': ['window_end']})
    for d in ('upload', 'download'):
        for ca in range(1, k):
            for (a, b) in ([(2, 1)] if (q and d == 'download') else [(2, 1), (1, 3)] if q else [(2, 1), (1, 3)] if d == 'download' else [(2, 1), (1, 3), (1000, 7)]):
                out.append({'harness': 'window', 'fn': h_window,
                            'params': {'k': k, 'kbps': a, 'change_at': ca, 'new_kbps': b, 'direction': d}, 'requires': ['window_end']})
        out.append({'harness': 'window', 'fn': h_window,
                    'params': {'k': 3, 'kbps': 2, 'change_at': 1, 'new_kbps': 0, 'direction': d}, 'requires': ['changed_to_unlimited']})
        out.append({'harness': 'from_unlimited', 'fn': h_from_unlimited, 'params': {'k': 3, 'new_kbps': 1, 'direction': d},
                    'requires': ['window_end']})
    for op in ('send', 'receive'):
        for st in ('AWAITING_INIT', 'ESTABLISHED', 'NEGOTIATING_TRANSFER', 'TRANSFERRING'):
            for (a, b) in ([(0, 1), (2, 1)] if q else [(0, 1), (2, 1), (1, 2), (1000, 1)]):
                out.append({'harness': 'conn', 'fn': h_conn,
                            'params': {'op': op, 'conn_state': st, 'old_kbps': a, 'new_kbps': b}, 'requires': ['conn_end']})
    for op in ('send', 'receive'):
        for (a, b) in ([(0, 1)] if q else [(0, 1), (1000, 1)]):
            out.append({'harness': 'conn', 'fn': h_conn,
                        'params': {'op': op, 'conn_state': 'TRANSFERRING', 'old_kbps': a, 'new_kbps': b, 'when': 'during'},
                        'requires': ['conn_end', 'running_at_change']})
    import itertools as _it
    orders = [[0, 1, 0, 1], [0, 1, 1, 0], [0, 0, 1, 1], [0, 1, 0, 0]] if q else \
        [list(o) for o in _it.product(range(2), repeat=4) if o[0] == 0] + \
        [[0, 1, 0, 1, 0], [0, 1, 1, 0, 0], [0, 0, 1, 1, 0], [0, 1, 0, 0, 1], [0, 1, 2, 0, 1, 2], [0, 1, 2, 2, 1, 0]]
    for o in orders:
        for low in (True, False):
            out.append({'harness': 'callers', 'fn': h_callers, 'params': {'n': max(o) + 1, 'order': o, 'kbps': 1, 'low': low},
                        'requires': ['callers_end'] + ([] if low else ['callers_granted'])})
    for (a, b) in ([(0, 1)] if q else [(0, 1), (0, 2), (2, 1)]):
        out.append({'harness': 'refund', 'fn': h_refund, 'params': {'old_kbps': a, 'new_kbps': b, 'drain': 8 * b + 1},
                    'requires': ['drained', 'refund_end']})
    # reachability of the refuting pre-states from the constructor state, through the public setters
    out.append({'harness': 'window', 'fn': h_window, 'params': {'k': k, 'kbps': 1, 'from_init': True}, 'requires': ['window_end']})
    out.append({'harness': 'window', 'fn': h_window,
                'params': {'k': 3, 'kbps': 2, 'change_at': 1, 'new_kbps': 1, 'from_init': True}, 'requires': ['window_end']})
    out.append({'harness': 'window', 'fn': h_window,
                'params': {'k': 4, 'kbps': 2, 'change_at': 2, 'new_kbps': 1, 'from_init': True}, 'requires': ['window_end']})
    # the OTHER direction's limiter sits in an arbitrary state (limited, symbolic bucket / refill instant): a setter of
    # one direction must not look at it
    for d in ('upload', 'download'):
        for ca in ([2] if q else [1, 2, 3]):
            for oth in ([None, 3] if q else [None, 3, 1000]):
                out.append({'harness': 'window', 'fn': h_window,
                            'params': {'k': 4, 'kbps': 2, 'change_at': ca, 'new_kbps': 2, 'direction': d, 'other': oth},
                            'requires': ['window_end']})
        out.append({'harness': 'from_unlimited', 'fn': h_from_unlimited, 'params': {'k': 3, 'new_kbps': 1, 'direction': d, 'other': 3},
                    'requires': ['window_end']})
    for op in ('send', 'receive'):
        out.append({'harness': 'conn', 'fn': h_conn,
                    'params': {'op': op, 'conn_state': 'TRANSFERRING', 'old_kbps': 2, 'new_kbps': 1, 'other': 3}, 'requires': ['conn_end']})
    out.append({'harness': 'wait_bound', 'fn': h_wait_bound, 'params': {'n': 2, 'kbps': 1000}, 'requires': ['wait_end']})
    for kb in ([1] if q else [1, 2, 1000]):
        for o in range(0, 4):
            out.append({'harness': 'progress_round', 'fn': h_progress_round, 'params': {'others': o, 'kbps': kb},
                        'requires': ['round_end']})
    if not q:
        # symbolic limit (non-linear): smaller k; inconclusive results are reported as such
        out.append({'harness': 'window', 'fn': h_window, 'params': {'k': 3, 'kbps': None}, 'requires': ['window_end'],
                    'solver_timeout_ms': 60000})
        out.append({'harness': 'window', 'fn': h_window,
                    'params': {'k': 3, 'kbps': None, 'change_at': 1, 'new_kbps': None}, 'requires': [], 'solver_timeout_ms': 60000})
        for o in range(0, 3):
            out.append({'harness': 'progress_round', 'fn': h_progress_round, 'params': {'others': o, 'kbps': None},
                        'requires': ['round_end'], 'solver_timeout_ms': 30000})
    return out
