"""C01: wire codec - every message survives encode -> wire -> decode, byte-compatibly.

The REAL ProtocolDataclass / MessageDataclass (de)serialisers, the hand-written Attribute / FileData /
DirectoryData codecs, every primitive, the dispatchers, obfuscation.encode/decode/rotate_key and
DataConnection.encode_message_data / decode_message_data run on messages whose integer, boolean, text,
blob, IPv4 leaves and obfuscation key are z3 bit-vector terms (engine/codec.py).  One path = one *shape*
(which conditionals / optionals are present, array counts, byte lengths); on it z3 decides, for all
values at once: decode(encode(m)) == m, the bytes equal those of an independent reference encoder driven
by the pinned table spec/wire_layout.json, prefix == length, dispatch returns the same class."""
from __future__ import annotations

import json
import os
import zlib

import z3

from engine import symex, codec
from engine.codec import SWord, SBytes, SStr, SIp
from engine.symex import SBool

import aioslsk.protocol.primitives as P
import aioslsk.protocol.messages as M
import aioslsk.protocol.obfuscation as O
from aioslsk.network.connection import DataConnection, ServerConnection, PeerConnection, PeerConnectionState

PROPERTY = 'C01'
VERIF = os.path.dirname(os.path.dirname(os.path.abspath(__file__)))
LAYOUT = json.load(open(os.path.join(VERIF, 'spec', 'wire_layout.json')))
MESSAGES, RECORDS = LAYOUT['messages'], LAYOUT['records']
INTS = {'uint8': (1, False), 'uint16': (2, False), 'uint32': (4, False), 'uint64': (8, False), 'int32': (4, True)}
for _r, _fl in RECORDS.items():
    assert not any(k in f for f in _fl for k in ('if_true', 'if_false', 'optional')), _r

BOUNDS = {
    'quick': {'S': 4, 'A': 2, 'long': 140, 'obf_max': 140, 'rich': False},
    'thorough': {'S': 10, 'A': 4, 'long': 300, 'obf_max': 300, 'rich': True},
}

# ------------------------------------------------------------------------------
# shapes (finite discriminants): flags x present optionals x size profile
# ------------------------------------------------------------------------------


def profiles(S, A, long, rich=False):
    """size profiles: the k-th text/blob leaf gets s[(k+so) % len(s)] bytes, the k-th array a[(k+ao) % len(a)]
    elements.  Uniform profiles for every (s, a) in 0..S x 0..A, staggered ones (consecutive leaves get different
    sizes), and one with a long leading text (> 128 bytes: crosses the obfuscation key cycle on a real frame).
    rich (thorough tier): every combination of text and array offsets, and a second cycle order with stride 3."""
    out = [{'s': [s], 'a': [a]} for s in range(S + 1) for a in range(A + 1)]
    cyc_s, cyc_a = list(range(S + 1)), list(range(A + 1))
    if rich:
        for so in range(S + 1):
            for ao in range(A + 1):
                out.append({'s': cyc_s, 'a': cyc_a, 'so': so, 'ao': ao})
        st = [(3 * i) % (S + 1) for i in range(S + 1)] if (S + 1) % 3 else cyc_s[::2] + cyc_s[1::2]
        for so in range(S + 1):
            out.append({'s': st, 'a': cyc_a[::-1], 'so': so, 'ao': so})
    else:
        for k in range(max(4, S + 1)):
            out.append({'s': cyc_s, 'a': cyc_a, 'so': k, 'ao': k})
    out.append({'s': cyc_s[::-1], 'a': cyc_a[::-1], 'so': 0, 'ao': 1})
    out.append({'s': [1], 'a': [1], 'first': long})
    return out


class Sizes:
    def __init__(self, prof):
        self.p, self.si, self.ai, self.trace = prof, 0, 0, []

    def text(self):
        p, k = self.p, self.si
        self.si += 1
        n = p['first'] if (k == 0 and 'first' in p) else p['s'][(k + p.get('so', 0)) % len(p['s'])]
        self.trace.append(('s', n))
        return n

    def array(self):
        p, k = self.p, self.ai
        self.ai += 1
        n = p['a'][(k + p.get('ao', 0)) % len(p['a'])]
        self.trace.append(('a', n))
        return n


def flag_names(fields):
    out = []
    for f in fields:
        for k in ('if_true', 'if_false'):
            if k in f and f[k] not in out:
                out.append(f[k])
    return out


def applicable(f, flags):
    if 'if_true' in f and not flags[f['if_true']]:
        return False
    if 'if_false' in f and flags[f['if_false']]:
        return False
    return True


_SHAPES = {}


def shapes_cached(name, fields, bounds):
    key = (name, bounds['S'], bounds['A'], bounds['long'], bool(bounds.get('rich')))
    if key not in _SHAPES:
        _SHAPES[key] = shapes_for(fields, bounds)
    return _SHAPES[key]


def shapes_for(fields, bounds):
    """all shapes: among the trailing optionals whose condition holds the present ones form a prefix (documented in-domain
    predicate).  A conditional field (if_true / if_false, optional or not) whose condition is FALSE may nevertheless be
    populated through the public constructor - `stray`: none of them / all of them; the pinned layout omits such a field
    and the round trip normalises it to absent (None)."""
    out, seen = [], set()
    fn = flag_names(fields)
    for fbits in range(1 << len(fn)):
        flags = {n: bool(fbits >> i & 1) for i, n in enumerate(fn)}
        opts = [f['name'] for f in fields if f.get('optional') and applicable(f, flags)]
        has_false = any(not applicable(f, flags) for f in fields)
        for stray in ((False, True) if has_false else (False,)):
            for nopt in range(len(opts) + 1):
                for prof in profiles(bounds['S'], bounds['A'], bounds['long'], bool(bounds.get('rich'))):
                    sz = Sizes(prof)
                    _walk_sizes(fields, flags, opts[:nopt], sz, stray)
                    key = (fbits, stray, nopt, tuple(sz.trace))
                    if key in seen:
                        continue
                    seen.add(key)
                    out.append({'flags': flags, 'present': opts[:nopt], 'prof': prof, 'stray': stray})
    return out


def _walk_sizes(fields, flags, present, sz, stray=False):
    for f in fields:
        if not applicable(f, flags):
            if not stray:
                continue
        elif f.get('optional') and f['name'] not in present:
            continue
        _walk_type(f['type'], f.get('subtype'), sz)


def _walk_type(t, sub, sz):
    if t in ('string', 'bytearr'):
        sz.text()
    elif t == 'array':
        for _ in range(sz.array()):
            _walk_type(sub, None, sz)
    elif t.startswith('record:'):
        for f in RECORDS[t[7:]]:
            _walk_type(f['type'], f.get('subtype'), sz)


def shape_tag(shape):
    return ','.join([f'{k}={int(v)}' for k, v in shape['flags'].items()] + [f'opt={len(shape["present"])}'] +
                    (['stray_conditionals'] if shape.get('stray') else []))


# ------------------------------------------------------------------------------
# value generation from the pinned layout (wire domain of every leaf)
# ------------------------------------------------------------------------------

def record_class(name):
    return getattr(P, name)


def gen_value(g, sz, t, sub, name):
    if t in INTS:
        nb, signed = INTS[t]
        return g.word(name, 8 * nb, signed)
    if t == 'boolean':
        return g.boolean(name)
    if t == 'string':
        return g.text(name, sz.text())
    if t == 'bytearr':
        return g.raw(name, sz.text())
    if t == 'ipaddr':
        return g.ip(name)
    if t == 'array':
        return [gen_value(g, sz, sub, None, f'{name}[{i}]') for i in range(sz.array())]
    if t.startswith('record:'):
        rn = t[7:]
        return record_class(rn)(**{f['name']: gen_value(g, sz, f['type'], f.get('subtype'), f'{name}.{f["name"]}') for f in RECORDS[rn]})
    raise symex.HarnessError(f'unknown wire type {t}')


def gen_fields(g, fields, shape):
    """(kwargs, expected kwargs after a round trip)"""
    sz = Sizes(shape['prof'])
    kw, exp = {}, {}
    for f in fields:
        n = f['name']
        if n in shape['flags']:
            kw[n] = exp[n] = shape['flags'][n]       # conditional flags are discriminants
        elif not applicable(f, shape['flags']):
            # condition false: the wire has no such field.  stray: it is populated anyway (constructible through the public
            # constructor); the encoder must drop it and the decoded message has it absent
            kw[n] = gen_value(g, sz, f['type'], f.get('subtype'), n) if shape.get('stray') else None
            exp[n] = None
        elif f.get('optional') and n not in shape['present']:
            kw[n] = None
            exp[n] = f.get('absent_decodes_to')       # absent on the wire decodes to the declared default
        else:
            kw[n] = exp[n] = gen_value(g, sz, f['type'], f.get('subtype'), n)
    return kw, exp


# ------------------------------------------------------------------------------
# independent reference encoder over the pinned layout (byte terms: int or z3 BV8)
# ------------------------------------------------------------------------------

def le(v, nb, signed=False):
    if isinstance(v, SWord):
        assert v.bits == 8 * nb and v.signed == signed
        return [z3.Extract(8 * i + 7, 8 * i, v.e) for i in range(nb)]
    return list(int(v).to_bytes(nb, 'little', signed=signed))


def ref_value(t, sub, v, out):
    if t in INTS:
        out += le(v, *INTS[t])
    elif t == 'boolean':
        out.append(z3.If(v.e, z3.BitVecVal(1, 8), z3.BitVecVal(0, 8)) if isinstance(v, SBool) else (1 if v else 0))
    elif t == 'string':
        bs = list(v.raw.b) if isinstance(v, SStr) else list(v.encode('utf-8'))
        out += le(len(bs), 4) + bs
    elif t == 'bytearr':
        bs = list(v.b) if isinstance(v, SBytes) else list(v)
        out += le(len(bs), 4) + bs
    elif t == 'ipaddr':
        out += list(reversed(v.octets.b if isinstance(v, SIp) else [int(x) for x in v.split('.')]))
    elif t == 'array':
        out += le(len(v), 4)
        for x in v:
            ref_value(sub, None, x, out)
    elif t.startswith('record:'):
        for f in RECORDS[t[7:]]:
            ref_value(f['type'], f.get('subtype'), getattr(v, f['name']), out)
    else:
        raise symex.HarnessError(t)


def ref_payload(fields, obj):
    out = []
    for f in fields:
        v = getattr(obj, f['name'])
        if 'if_true' in f and not getattr(obj, f['if_true']):
            continue
        if 'if_false' in f and getattr(obj, f['if_false']):
            continue
        if f.get('optional') and v is None:
            continue
        ref_value(f['type'], f.get('subtype'), v, out)
    return out


def terms_equal(got, want):
    """python bool / z3 Bool: byte string `got` (bytes or SBytes) equals the byte terms `want`"""
    if isinstance(got, (bytes, bytearray)):
        got = SBytes(list(got))
    if not isinstance(got, SBytes):
        return False
    return got.eq_formula(SBytes([codec._norm(t) for t in want]))


def body_matches(body, payload, compressed):
    if not compressed:
        return terms_equal(body, payload)
    tag = codec.ZTAG
    if isinstance(body, SBytes) and len(body) >= len(tag) and body[:len(tag)].concrete() == tag:
        return terms_equal(body[len(tag):], payload)       # the zlib stand-in (symbolic payload)
    raw = body.concrete() if isinstance(body, SBytes) else bytes(body)
    if raw is None or not all(isinstance(codec._norm(t), int) for t in payload):
        return False
    try:
        return zlib.decompress(raw) == bytes(codec._norm(t) for t in payload)   # real zlib (concrete payload)
    except zlib.error:
        return False


def uint_le(bs):
    """value of little-endian byte string as python int / SWord"""
    return codec.word_from_terms(bs.b if isinstance(bs, SBytes) else list(bs))


# ------------------------------------------------------------------------------
# helpers
# ------------------------------------------------------------------------------

def beq(a, b):
    """byte strings a == b as python bool / z3 Bool (either may be bytes or SBytes)"""
    return terms_equal(a, list(b.b) if isinstance(b, SBytes) else list(b))


def current_model(c):
    """z3 model of the current path condition (engine-core private fields; see docs/C01.md)"""
    if c._model is None:
        if c._check() != 'sat':
            return None
        c._model = c._last_model
    return c._model


WITNESS_KEY = bytes.fromhex('99abcdef')      # the key of the repository's own obfuscation vector


def raise_if_harness(e):
    """an engine error wrapped by aioslsk (MessageDeserializationError from HarnessError) is not a verdict"""
    seen = 0
    while e is not None and seen < 10:
        if isinstance(e, symex.HarnessError):
            raise e
        e, seen = (e.__cause__ or e.__context__), seen + 1


def real_eq(a, b):
    try:
        return bool(a == b)
    except Exception:  # noqa
        return False


def resolve(name):
    a, b = name.split('.')
    return getattr(getattr(M, a, None), b, None)


def make_connection(group, kind, obf):
    if group == 'server':
        return ServerConnection('server', 2416, None, obfuscated=obf)
    conn = PeerConnection('1.2.3.4', 1234, None, obfuscated=obf, connection_type='D' if group == 'distributed' else 'P')
    conn.connection_state = PeerConnectionState.AWAITING_INIT if group == 'peer_init' else PeerConnectionState.ESTABLISHED
    return conn


# ------------------------------------------------------------------------------
# H1: message round trip, layout, prefix, dispatch, connection level
# ------------------------------------------------------------------------------

def h_message(c, cls_name, S, A, long, part=0, parts=1, rich=False):
    L = MESSAGES[cls_name]
    fields, idw, comp = L['fields'], L['id_width'], L['compressed']
    shapes = shapes_cached(cls_name, fields, {'S': S, 'A': A, 'long': long, 'rich': rich})[part::parts]
    si = c.choose(len(shapes), 'shape')
    shape = shapes[si]
    sig = [cls_name, shape_tag(shape)]
    info = {'shape': shape}
    cls = resolve(cls_name)
    if not c.check(cls is not None, 'class_exists', sig=[cls_name]):
        return
    g = codec.Gen(c)
    keys = []

    def key_source(n):
        k = g.raw(f'obfkey{len(keys)}', n)
        keys.append(k)
        return k

    witness = None
    with codec.installed(c.symbolic, key_source=key_source):
        kw, exp_kw = gen_fields(g, fields, shape)
        g.commit()
        try:
            m, exp = cls(**kw), cls(**exp_kw)
        except symex.HarnessError:
            raise
        except Exception as e:  # noqa
            raise_if_harness(e)
            c.check(False, 'constructible', sig=sig, info=repr(e))
            return
        # ---- encode -----------------------------------------------------------------------
        try:
            raw = m.serialize()
        except symex.HarnessError:
            raise
        except Exception as e:  # noqa
            raise_if_harness(e)
            c.check(False, 'encode_total', sig=sig, info=repr(e))
            return
        c.reach('encoded')
        n = len(raw)
        # (b) the length prefix equals the number of bytes that follow
        ok_len = n >= 4 + idw
        c.check(ok_len and (uint_le(raw[0:4]) == n - 4), 'length_prefix', sig=sig, info=info)
        if not ok_len:
            return
        # (c) byte-for-byte the pinned layout: header, id (value and width), payload
        payload = ref_payload(fields, m)
        c.check(terms_equal(raw[4:4 + idw], le(L['id'], idw)), 'message_code', sig=sig, info=info)
        c.check(body_matches(raw[4 + idw:], payload, comp), 'wire_layout', sig=sig, info=info)
        if not comp:
            c.check(n == 4 + idw + len(payload), 'wire_layout', sig=sig, info=info)
        # (g) the public "append a frame" contract of serialize_into(buffer): the caller's buffer may already hold bytes
        # (a symbolic prefix of 0..3 bytes, then a first frame); what is appended is exactly one frame - its prefix counts
        # the bytes that follow it, its bytes are the pinned layout - and nothing that was in the buffer is touched.
        # The second append of a compressed class passes compress=True (what its serialize() does).
        frame_ref = le(idw + len(payload), 4) + le(L['id'], idw) + payload
        for pre in (range(4) if len(shapes) < 4 else [(si + part) % 4]):
            prefix = g.raw(f'buf{pre}', pre)
            buf = codec.sym_bytearray() if c.symbolic else bytearray()
            buf.extend(prefix)
            for which, compress in (('first', False), ('second', comp)):
                asig = sig + [f'append_{which}' + ('_compressed' if compress else '')]
                ainfo = {'shape': shape, 'buffer_bytes_before': len(buf)}
                before = buf[:]
                try:
                    if compress:
                        m.serialize_into(buf, compress=True)
                    else:
                        m.serialize_into(buf)
                except symex.HarnessError:
                    raise
                except Exception as e:  # noqa
                    raise_if_harness(e)
                    c.check(False, 'encode_total', sig=asig, info=repr(e))
                    break
                c.reach('appended')
                frame = buf[len(before):]
                c.check(len(buf) >= len(before) and beq(buf[:len(before)], before), 'append_buffer_untouched', sig=asig, info=ainfo)
                c.check(len(frame) >= 4 and (uint_le(frame[0:4]) == len(frame) - 4), 'append_length_prefix', sig=asig, info=ainfo)
                c.check(beq(frame, raw) if compress else terms_equal(frame, frame_ref), 'append_wire_layout', sig=asig, info=ainfo)
        # (a) decode(encode(m)) == m
        try:
            back = cls.deserialize(0, raw)
        except symex.HarnessError:
            raise
        except Exception as e:  # noqa
            raise_if_harness(e)
            back = e
            c.check(False, 'decode_total', sig=sig, info=repr(e))
        if not isinstance(back, Exception):
            c.check(codec.eq_formula(back, exp) if c.symbolic else real_eq(back, exp), 'roundtrip', sig=sig, info=info)
        # (d) connection level: encode_message_data -> (obfuscated) wire -> decode_message_data -> dispatcher
        for obf in ((False, True) if L['group'] != 'distributed' else (False,)):
            if obf and comp:
                # the zlib stand-in's frame is longer than the real one and obfuscation faults depend on the frame length
                # (a symbolic verdict would not transfer): compressed x obfuscated is decided below on the real-zlib witness
                continue
            csig = sig + ['obfuscated' if obf else 'plain']
            conn = make_connection(L['group'], L['kind'], obf)
            try:
                wire = conn.encode_message_data(m)
            except symex.HarnessError:
                raise
            except Exception as e:  # noqa
                raise_if_harness(e)
                c.check(False, 'encode_total', sig=csig, info=repr(e))
                continue
            if obf:
                frame_ok = codec._and(len(wire) == n + 4, len(keys) > 0, beq(wire[:4], keys[-1]) if keys else False)
            else:
                frame_ok = beq(wire, raw)
            c.check(frame_ok, 'wire_framing', sig=csig, info=info)
            try:
                if L['group'] == 'server' and L['kind'] == 'Request':
                    # the client never receives these; what a server does: de-obfuscate, dispatch
                    got = M.ServerMessage.deserialize_request(O.decode(wire) if obf else wire)
                else:
                    got = conn.decode_message_data(wire)
            except symex.HarnessError:
                raise
            except Exception as e:  # noqa
                raise_if_harness(e)
                c.check(False, 'decode_total', sig=csig, info=repr(e) + ' / ' + repr(e.__cause__))
                continue
            c.reach('roundtrip_connection')
            if c.check(type(got) is cls, 'dispatch_class', sig=csig, info=type(got).__qualname__):
                c.check(codec.eq_formula(got, exp) if c.symbolic else real_eq(got, exp), 'roundtrip_connection', sig=csig, info=info)
        # (e) one concrete witness of this path through the real, unstubbed codec (real struct, real zlib)
        if c.symbolic:
            model = current_model(c)
            if model is not None:
                witness = (codec.evaluate(model, m), codec.evaluate(model, exp), codec.evaluate(model, raw),
                           bytes(codec._norm(t) if isinstance(codec._norm(t), int) else model.eval(t, model_completion=True).as_long()
                                 for t in payload))
        else:
            witness = (m, exp, raw, None)
    if witness is not None:
        wm, wexp, wraw, wpayload = witness
        real_raw = None
        try:
            real_raw = wm.serialize()
            real_back = cls.deserialize(0, real_raw)
            ok = real_eq(real_back, wexp) and int.from_bytes(real_raw[:4], 'little') == len(real_raw) - 4
            rbuf = bytearray(b'\x05\x06\x07')
            wm.serialize_into(rbuf, compress=comp)
            ok = ok and bytes(rbuf[:3]) == b'\x05\x06\x07' and bytes(rbuf[3:]) == real_raw
            if comp and wpayload is not None:
                ok = ok and zlib.decompress(real_raw[4 + idw:]) == wpayload
            elif c.symbolic and real_raw != wraw:
                raise symex.HarnessError(f'stub fidelity: stubbed codec produced {wraw!r}, real codec {real_raw!r} for {wm!r}')
        except symex.HarnessError:
            raise
        except Exception as e:  # noqa
            raise_if_harness(e)
            ok = False
            info = {'shape': shape, 'exc': repr(e)}
        c.check(ok, 'real_codec_witness', sig=sig, info=info)
        if comp and real_raw is not None and L['group'] != 'distributed':
            # compressed x obfuscated on the exact real frame, fixed non-trivial key (all keys/lengths: obfuscation harness)
            csig = sig + ['obfuscated']
            with codec.installed(False, key_source=lambda k: WITNESS_KEY[:k]):
                conn = make_connection(L['group'], L['kind'], True)
                try:
                    wire = conn.encode_message_data(wm)
                    c.check(len(wire) == len(real_raw) + 4 and wire[:4] == WITNESS_KEY, 'wire_framing', sig=csig, info=info)
                    got = conn.decode_message_data(wire)
                except symex.HarnessError:
                    raise
                except Exception as e:  # noqa
                    raise_if_harness(e)
                    c.check(False, 'decode_total', sig=csig, info=repr(e) + ' / ' + repr(e.__cause__))
                else:
                    c.reach('roundtrip_connection')
                    if c.check(type(got) is cls, 'dispatch_class', sig=csig, info=type(got).__qualname__):
                        c.check(real_eq(got, wexp), 'roundtrip_connection', sig=csig, info=info)


# ------------------------------------------------------------------------------
# H1c: compressed classes with highly repetitive (well compressible) content
# ------------------------------------------------------------------------------

def h_compressed(c, cls_name, count, S=2, classes=5):
    """the three zlib-compressed classes carrying `count` IDENTICAL records (one record with symbolic leaves, shared).  The
    zlib stand-in runs in its compressible model: compress() returns an opaque body whose LENGTH is a discriminant chosen
    between an honest lower bound for deflate (11 + n/1000 bytes) and 'stored' (n + 11), independent of the content, so
    that a decoder that depends on the compression ratio is exercised (decompressobj(...).decompress(data, max_length) is
    honoured exactly).  Every symbolic failure is confirmed against the REAL zlib on the path's model before it is reported
    (the stand-in may be more optimistic than zlib); the real-zlib witness is an obligation of its own."""
    L = MESSAGES[cls_name]
    fields, idw = L['fields'], L['id_width']
    cls = resolve(cls_name)
    if not c.check(cls is not None, 'class_exists', sig=[cls_name]):
        return
    shape = {'flags': {}, 'present': [f['name'] for f in fields if f.get('optional')], 'prof': {'s': [S], 'a': [1]}}
    g = codec.Gen(c)
    sym = {'fail': None, 'eq': None}
    witness = None
    with codec.installed(c.symbolic):
        kw, exp_kw = gen_fields(g, fields, shape)
        g.commit()
        for f in fields:                                   # `count` copies of the one record (shared symbolic leaves)
            if f['type'] == 'array' and f.get('subtype', '').startswith('record:') and kw.get(f['name']):
                kw[f['name']] = exp_kw[f['name']] = list(kw[f['name']]) * count
        m, exp = cls(**kw), cls(**exp_kw)
        payload = ref_payload(fields, m)
        plen = len(payload)
        cmin = 11 + plen // 1000 + 1
        cands = sorted({cmin, max(cmin, plen // 33), max(cmin, plen // 32 + 1), max(cmin, plen // 8), plen + 11})
        if classes < 5:
            cands = sorted({cands[0], max(cmin, plen // 32 + 1), cands[-1]})   # quick: best case, just above 32:1, stored
        pick = {}

        def clen(n):
            if 'i' not in pick:
                pick['i'] = c.choose(len(cands), 'compressed_length_class')
            return cands[pick['i']]
        codec.ZLIB_MODEL['compressible'] = clen if c.symbolic else None
        try:
            try:
                raw = m.serialize()
            except symex.HarnessError:
                raise
            except Exception as e:  # noqa
                raise_if_harness(e)
                c.check(False, 'encode_total', sig=[cls_name, f'records={count}'], info=repr(e))
                return
            sig = [cls_name, f'records={count}', 'compressed_length_class=%s' % pick.get('i', 'real')]
            info = {'records': count, 'plain_bytes': plen, 'compressed_bytes': len(raw) - 4 - idw}
            c.reach('compressed_encoded')
            c.check(len(raw) >= 4 + idw and (uint_le(raw[0:4]) == len(raw) - 4), 'compressed_length_prefix', sig=sig, info=info)
            c.check(terms_equal(raw[4:4 + idw], le(L['id'], idw)), 'compressed_wire_layout', sig=sig, info=info)
            body = raw[4 + idw:]
            if c.symbolic and isinstance(body, SBytes) and body[:len(codec.ZCTAG)].concrete() == codec.ZCTAG:
                plain = codec.zc_plain(body.b[len(codec.ZCTAG):])
                c.check(plain is not None and terms_equal(SBytes(plain), payload), 'compressed_wire_layout', sig=sig, info=info)
            else:
                c.check(body_matches(body, payload, True), 'compressed_wire_layout', sig=sig, info=info)
            try:
                back = cls.deserialize(0, raw)
                sym['eq'] = codec.eq_formula(back, exp) if c.symbolic else real_eq(back, exp)
            except symex.HarnessError:
                raise
            except Exception as e:  # noqa
                raise_if_harness(e)
                sym['fail'], sym['eq'] = repr(e), False
            if c.symbolic:
                model = current_model(c)
                if model is not None:
                    witness = (codec.evaluate(model, m), codec.evaluate(model, exp),
                               bytes(codec._norm(t) if isinstance(codec._norm(t), int) else model.eval(t, model_completion=True).as_long()
                                     for t in payload))
            else:
                witness = (m, exp, bytes(payload))
        finally:
            codec.ZLIB_MODEL['compressible'] = None
    # the real zlib on the witness (in replay: the run itself)
    real_ok, real_info = None, dict(info)
    if witness is not None:
        wm, wexp, wpayload = witness
        try:
            real_raw = wm.serialize()
            real_info['real_compressed_bytes'] = len(real_raw) - 4 - idw
            real_back = cls.deserialize(0, real_raw)
            real_ok = (real_eq(real_back, wexp) and int.from_bytes(real_raw[:4], 'little') == len(real_raw) - 4
                       and zlib.decompress(real_raw[4 + idw:]) == wpayload)
        except symex.HarnessError:
            raise
        except Exception as e:  # noqa
            raise_if_harness(e)
            real_ok, real_info['exc'] = False, repr(e)
    if sym['eq'] is False:
        # decode of the encoder's own bytes raised / came back different in the model: a verdict only when real zlib agrees
        if real_ok is False:
            c.check(False, 'compressed_roundtrip', sig=sig, info={**real_info, 'model_failure': sym['fail']})
        else:
            c.note('compressible model failed where real zlib does not (model more optimistic than zlib)', sig, sym['fail'])
            c.check(True, 'compressed_roundtrip', sig=sig)
    else:
        c.check(sym['eq'], 'compressed_roundtrip', sig=sig, info=info)
    if real_ok is not None:
        c.check(real_ok, 'compressed_roundtrip_real_zlib', sig=sig[:2], info=real_info)


# ------------------------------------------------------------------------------
# H2: records and primitives on their own (their serialize() differs from serialize_into())
# ------------------------------------------------------------------------------

PRIMS = ['uint8', 'uint16', 'uint32', 'uint64', 'int32', 'boolean', 'string', 'bytearr', 'ipaddr',
         'array:uint32', 'array:string', 'array:record:Attribute']


def h_element(c, what, S, A, long, rich=False):
    """record classes and primitives: serialize() == serialize_into() == reference bytes;
    deserialize(pos, prefix + bytes + suffix) == (pos + len, value)"""
    if what.startswith('record:'):
        t, sub = what, None
    elif what.startswith('array:'):
        t, sub = 'array', what[6:]
    else:
        t, sub = what, None
    profs, seen = [], set()
    for p in profiles(S, A, long, rich):
        sz = Sizes(p)
        _walk_type(t, sub, sz)
        if tuple(sz.trace) not in seen:
            seen.add(tuple(sz.trace))
            profs.append(p)
    prof = profs[c.choose(len(profs), 'shape')]
    pre = c.choose(2, 'prefix_len') * 3
    sig = [what]
    info = {'prof': prof, 'prefix': pre}
    g = codec.Gen(c)
    with codec.installed(c.symbolic):
        v = gen_value(g, Sizes(prof), t, sub, 'v')
        junk_a, junk_b = g.raw('junk_a', pre), g.raw('junk_b', 2)
        g.commit()
        want = []
        ref_value(t, sub, v, want)
        try:
            if t.startswith('record:'):
                kls = record_class(t[7:])
                raw = v.serialize()
                buf = codec.sym_bytearray() if c.symbolic else bytearray()
                buf.extend(junk_a)
                v.serialize_into(buf)
                into = buf[pre:]
            else:
                kls = getattr(P, t)
                raw = kls(v).serialize(*([record_class(sub[7:]) if sub.startswith('record:') else getattr(P, sub)] if sub else []))
                buf = codec.sym_bytearray() if c.symbolic else bytearray()
                buf.extend(junk_a)
                kls(v).serialize_into(buf, *([record_class(sub[7:]) if sub.startswith('record:') else getattr(P, sub)] if sub else []))
                into = buf[pre:]
        except symex.HarnessError:
            raise
        except Exception as e:  # noqa
            raise_if_harness(e)
            c.check(False, 'encode_total', sig=sig, info=repr(e))
            return
        c.reach('element_encoded')
        c.check(terms_equal(raw, want), 'element_layout', sig=sig, info=info)
        c.check(terms_equal(into, want), 'element_layout_into', sig=sig, info=info)
        data = junk_a + raw + junk_b
        try:
            if sub:
                pos, back = kls.deserialize(pre, data, record_class(sub[7:]) if sub.startswith('record:') else getattr(P, sub))
            else:
                pos, back = kls.deserialize(pre, data)
        except symex.HarnessError:
            raise
        except Exception as e:  # noqa
            raise_if_harness(e)
            c.check(False, 'decode_total', sig=sig, info=repr(e))
            return
        c.check(pos == pre + len(raw), 'element_position', sig=sig, info=info)
        c.check(codec.eq_formula(back, v) if c.symbolic else real_eq(back, v), 'element_roundtrip', sig=sig, info=info)


# ------------------------------------------------------------------------------
# H3: obfuscation
# ------------------------------------------------------------------------------

def keystream(key, i):
    """pinned definition: block j = i // 4 is XORed with the little-endian bytes of rotl32(key, (j mod 32) + 1)"""
    r = ((i // 4) % 32 + 1) % 32
    if all(isinstance(k, int) for k in key):
        k32 = int.from_bytes(bytes(key), 'little')
        rot = ((k32 << r) | (k32 >> (32 - r))) & 0xFFFFFFFF if r else k32
        return (rot >> (8 * (i % 4))) & 0xFF
    k32 = z3.Concat(*[codec._bv8(k) for k in reversed(key)])
    rot = z3.RotateLeft(k32, r)
    return z3.Extract(8 * (i % 4) + 7, 8 * (i % 4), rot)


def _xor(a, b):
    if isinstance(a, int) and isinstance(b, int):
        return a ^ b
    return codec._bv8(a) ^ codec._bv8(b)


def h_obfuscation(c, lo, hi):
    n = lo + c.choose(hi - lo + 1, 'length')
    sig = ['len_mod4=%d' % (n % 4), 'over128' if n > 128 else 'upto128']
    g = codec.Gen(c)
    key, data, other = g.raw('key', 4), g.raw('data', n), g.raw('wire', n)
    gen = []

    def key_source(k):
        gen.append(g.raw('genkey', k))
        return gen[-1]

    kt, dt, ot = [list(x.b) if isinstance(x, SBytes) else list(x) for x in (key, data, other)]
    sig = sig[:1] + ['empty' if n == 0 else sig[1]]

    def total(what, fn, *dependent):
        """obf_total: encode/decode of in-range input (4-byte key + any payload, the empty one included) raise nothing.
        When a call raises, the obligations that needed its result are marked reached (they are owed, not vacuous)."""
        try:
            r = fn()
        except symex.HarnessError:
            raise
        except Exception as e:  # noqa
            raise_if_harness(e)
            c.check(False, 'obf_total', sig=sig + [what], info=repr(e))
            for lab in dependent:
                c.reach(lab)
            return None
        c.check(True, 'obf_total', sig=sig + [what])
        return r

    with codec.installed(c.symbolic, key_source=key_source):
        enc = total('encode', lambda: O.encode(data, key), 'obf_length', 'obf_key_prefix', 'obf_keystream', 'obf_roundtrip')
        dec = total('decode_of_encode', lambda: O.decode(enc), 'obf_roundtrip') if enc is not None else None
        dec_other = total('decode', lambda: O.decode(key + other), 'obf_decode_keystream')
        enc_gen = total('encode_generated_key', lambda: O.encode(data), 'obf_generated_key')
        head = total('decode_header_only', lambda: O.decode(enc[:8]), 'obf_header_only') if (enc is not None and n >= 4) else None
        c.reach('obfuscated')
        if enc is not None:
            c.check(len(enc) == n + 4, 'obf_length', sig=sig)
            c.check(terms_equal(enc[:4], kt), 'obf_key_prefix', sig=sig)
            c.check(terms_equal(enc[4:], [_xor(dt[i], keystream(kt, i)) for i in range(n)]), 'obf_keystream', sig=sig)
        if dec is not None:
            c.check(terms_equal(dec, dt), 'obf_roundtrip', sig=sig)
        if dec_other is not None:
            c.check(terms_equal(dec_other, [_xor(ot[i], keystream(kt, i)) for i in range(n)]), 'obf_decode_keystream', sig=sig)
        if enc_gen is not None:
            gk = [list(x.b) if isinstance(x, SBytes) else list(x) for x in gen]
            c.check(codec._and(len(gk) == 1, len(enc_gen) == n + 4, terms_equal(enc_gen[:4], gk[0]) if gk else False,
                               terms_equal(enc_gen[4:], [_xor(dt[i], keystream(gk[0], i)) for i in range(n)]) if gk else False),
                    'obf_generated_key', sig=sig)
        if head is not None:
            # what DataConnection._read_message relies on: the first 8 bytes alone give the 4 length bytes
            c.check(terms_equal(head, dt[:4]), 'obf_header_only', sig=sig)


# ------------------------------------------------------------------------------
# META / jobs / prelude
# ------------------------------------------------------------------------------

def _fns(mod, names):
    """function objects for the evidence; a name that a changed tree no longer has must not break the import of the check"""
    out = []
    for dotted in names.split():
        o = mod
        try:
            for a in dotted.split('.'):
                o = getattr(o, a)
            out.append(getattr(o, '__func__', o))
        except AttributeError:
            out.append(f'{mod.__name__}:{dotted} (not present in this tree)')
    return out


META = {
    'level': 'other',
    'technique': 'symbolic execution of the real (de)serialisers, dispatchers, obfuscation and DataConnection.encode/decode_message_data on '
                 'z3 bit-vector proxies (engine/codec.py); per shape, z3 decides byte equality with an independent reference encoder over the '
                 'pinned layout table and equality of the decoded message, for all leaf values and all keys at once',
    'explanation': 'For each of the 158 Request/Response classes of the pinned table spec/wire_layout.json and each in-domain shape, a message whose '
                   'leaves are symbolic (uint8/16/32/64, int32 as bit-vectors over their full range; booleans; every byte of every text - constrained '
                   'to well-formed UTF-8 - and blob; IPv4 octets) is built with the real constructor and pushed through the real MessageDataclass.'
                   'serialize, .deserialize, the four dispatchers and (Server|Peer)Connection.encode_message_data/decode_message_data, plain and '
                   'obfuscated with a symbolic 4-byte key. Obligations are z3 queries over all those values: (a) decoded == original, (b) uint32 '
                   'prefix == len-4, (c) bytes == reference encoding of the pinned layout incl. message code and width, (d) dispatcher returns the '
                   'same class and an equal message, (e) one model witness per path through the real unstubbed codec (real struct, real zlib), '
                   '(f) obfuscation: length, key prefix, keystream = rotl32(key, j mod 32 + 1) per 4-byte block, decode inverse, header-only decode, '
                   'for all keys and data bytes at every length 0..140/300.',
    'functions': _fns(P, 'ProtocolDataclass.serialize ProtocolDataclass.serialize_into ProtocolDataclass.deserialize '
                         'ProtocolDataclass._field_needs_deserialization ProtocolDataclass._get_value_for_field MessageDataclass.serialize '
                         'MessageDataclass.serialize_into MessageDataclass.deserialize Attribute.serialize Attribute.serialize_into '
                         'Attribute.deserialize FileData.serialize FileData.serialize_into FileData.deserialize DirectoryData.serialize '
                         'DirectoryData.deserialize uint8 uint16 uint32 uint64 int32 boolean string bytearr ipaddr array decode_string') +
                 _fns(M, '_PeerInitTicket ServerMessage.deserialize_request ServerMessage.deserialize_response '
                         'PeerInitializationMessage.deserialize_request PeerMessage.deserialize_request DistributedMessage.deserialize_request') +
                 _fns(O, 'rotate_key encode decode generate_key') +
                 [DataConnection.encode_message_data, DataConnection.decode_message_data, DataConnection.serialize_message,
                  ServerConnection.deserialize_message, PeerConnection.deserialize_message,
                  'all 158 Request/Response dataclasses of aioslsk.protocol.messages (constructed with their real __init__)'],
    'stubs': codec.STUBS + ['connections are built with their real constructors and network=None; PeerConnection.connection_state is assigned directly'],
    'data_variables': ['every uint8/uint16/uint32/uint64/int32 leaf: bit-vector over the full wire range', 'every boolean leaf (except conditional flags)',
                       'every byte of every text (BV8, constrained to well-formed UTF-8: all code points incl. 2/3/4-byte ones) and blob',
                       'the 4 octets of every IPv4 address', 'the 4 obfuscation key bytes (explicit and generated key)',
                       'obfuscation harness: every data byte and every wire byte'],
    'discriminants': ['message class (158) / record class (8) / primitive (12)', 'value of the flag a conditional field depends on',
                      'stray_conditionals: condition-false conditional fields left None / all populated',
                      'compressed harness: number of identical records (1, 100; thorough also 40, 200), compressed-length class (3 / 5)',
                      'number of present trailing optionals (prefix-closed)', 'size profile: byte length of every text/blob, element count of every array',
                      'plain vs obfuscated connection; connection kind follows the message group', 'obfuscation: data length'],
    'bounds': {'quick': {'text/blob byte length': '0..4 (uniform and staggered profiles) plus one 140-byte text', 'array elements': '0..2 (nested arrays too)',
                         'obfuscation data length': '0..140, every length'},
               'thorough': {'text/blob byte length': '0..10 plus one 300-byte text', 'array elements': '0..4 (nested arrays too)',
                            'size profiles': 'uniform x every text/array offset combination of the staggered cycles x a stride-3 cycle',
                            'obfuscation data length': '0..300, every length'}},
    'outside': ['texts/blobs longer and arrays larger than the bound; size profiles other than the uniform / staggered / long-first ones (lengths of '
                'different leaves are not combined exhaustively)',
                'non-prefix-closed optionals (a later trailing optional present while an earlier one is absent) - out of the wire domain',
                'None for a field that is not optional/conditional on the wire',
                'texts that are not encodable as UTF-8 (lone surrogates); non-canonical IPv4 spellings (leading zeros, hex, short forms)',
                'the real zlib bit stream: symbolic payloads go through a tagged-identity stand-in; the real zlib sees one model witness per path',
                'MessageDataclass subclasses outside aioslsk.protocol.messages; classes added to the code but absent from the pinned table are '
                'reported by the prelude as not covered'],
    'assumptions': ['CPython 3.12 struct/int/bytes/UTF-8 semantics as validated by engine.codec.validate() at the start of every run',
                    'DOMAIN NORMALISATION for conditional fields (if_true / if_false, optional or not): a value may populate such a field '
                    'while its condition is false (constructible through the public constructor; shape discriminant stray_conditionals: '
                    'none / all of them populated with symbolic values). The pinned layout has no such field on the wire, so the reference '
                    'encoder omits it, wire_layout must match byte for byte, and the round-trip oracle is decode(encode(m)) == m with the '
                    'condition-false fields normalised to absent (None). That is what "in-domain value" means for a conditional field.',
                    'ZLIB MODEL: (1) message harness: tagged identity for symbolic payloads, real zlib for concrete ones and for one model '
                    'witness per path; (2) compressed harness: compress() is an injective uninterpreted function whose result is an opaque '
                    'body of a length chosen as a discriminant between an honest lower bound for deflate (11 + n/1000 bytes) and stored '
                    '(n + 11), independent of the content; decompress / decompressobj().decompress(data, max_length) return the plain bytes, '
                    'max_length honoured exactly (truncation, unconsumed_tail). A failure found in that model is reported only when the real '
                    'zlib run on the model witness fails too (the model may be more optimistic than zlib); the real-zlib run on 1/100(/40/200) '
                    'identical records is an obligation of its own (compressed_roundtrip_real_zlib).',
                    'an absent trailing optional decodes to the dataclass default (None; False for JoinRoom.Request.is_private and '
                    'PrivateChatMessage.Response.is_direct, as pinned by the repository tests)'],
}


def jobs(tier):
    b = BOUNDS[tier]
    p = {'S': b['S'], 'A': b['A'], 'long': b['long'], 'rich': b['rich']}
    out = []
    req = ['encoded', 'length_prefix', 'message_code', 'wire_layout', 'roundtrip', 'wire_framing', 'dispatch_class',
           'roundtrip_connection', 'real_codec_witness', 'appended', 'append_buffer_untouched', 'append_length_prefix',
           'append_wire_layout']
    # the shapes of a class are split over several jobs (about SHAPES_PER_JOB units of work each); heavy ones first
    # wall-clock limits per job (a job takes 2-3 s CPU on a tree where the property holds). On a tree where the layout is
    # broken the decoder sees mis-framed symbolic bytes and the path tree of the list-bearing classes explodes: the job is then
    # cut (reported as NOT-EXHAUSTED) after having reported the violations it found, instead of running for hours.
    limits = {'timeout_s': 150 if tier == 'quick' else 600, 'solver_timeout_ms': 60000}
    for name in sorted(MESSAGES, key=lambda k: -_weight(MESSAGES[k]['fields'])):
        n = len(shapes_cached(name, MESSAGES[name]['fields'], p))
        parts = max(1, min(n, round(n * _weight(MESSAGES[name]['fields']) / 400)))
        for part in range(parts):
            out.append({'harness': 'message', 'fn': h_message, 'params': {'cls_name': name, **p, 'part': part, 'parts': parts},
                        'requires': req, **limits})
    for name in sorted(k for k, v in MESSAGES.items() if v['compressed']):
        for count in ((1, 100) if tier == 'quick' else (1, 40, 100, 200)):
            for S in ((2,) if tier == 'quick' else (0, 2, 5)):
                out.append({'harness': 'compressed', 'fn': h_compressed, **limits,
                            'params': {'cls_name': name, 'count': count, 'S': S, 'classes': 3 if tier == 'quick' else 5},
                            'requires': ['compressed_encoded', 'compressed_length_prefix', 'compressed_wire_layout', 'compressed_roundtrip',
                                         'compressed_roundtrip_real_zlib']})
    for r in RECORDS:
        out.append({'harness': 'element', 'fn': h_element, 'params': {'what': 'record:' + r, **p}, **limits,
                    'requires': ['element_encoded', 'element_layout', 'element_layout_into', 'element_position', 'element_roundtrip']})
    for t in PRIMS:
        out.append({'harness': 'element', 'fn': h_element, 'params': {'what': t, **p}, **limits,
                    'requires': ['element_encoded', 'element_layout', 'element_layout_into', 'element_position', 'element_roundtrip']})
    step = 10
    for lo in range(0, b['obf_max'] + 1, step):
        out.append({'harness': 'obfuscation', 'fn': h_obfuscation, 'params': {'lo': lo, 'hi': min(lo + step - 1, b['obf_max'])}, **limits,
                    'requires': ['obfuscated', 'obf_total', 'obf_length', 'obf_key_prefix', 'obf_keystream', 'obf_roundtrip',
                                 'obf_decode_keystream', 'obf_generated_key']})
    return out


def _weight(fields):
    w = 0
    for f in fields:
        w += 1 + (8 if f['type'] == 'array' else 0) + (40 if f.get('subtype', '').startswith('record:Dir') else 0) \
            + (15 if f.get('subtype', '').startswith('record:File') else 0) + (3 if f.get('optional') else 0)
    return w * (2 if flag_names(fields) else 1)


def prelude(tier):
    notes = codec.validate(text_deep=(tier == 'thorough'))
    # pinned table vs code: every pinned class must exist (else its job reports it); extra classes are not covered
    in_code = set()
    for base in (M.ServerMessage, M.PeerInitializationMessage, M.PeerMessage, M.DistributedMessage):
        for sub in base.__subclasses__():
            for k in ('Request', 'Response'):
                if getattr(sub, k, None) is not None:
                    in_code.add(f'{sub.__name__}.{k}')
    extra = sorted(in_code - set(MESSAGES))
    notes.append(f'pinned layout: {len(MESSAGES)} message classes, {len(RECORDS)} records (generated from {LAYOUT["generated_from"][:10]}); '
                 f'classes in the code that are not pinned (NOT covered): {extra or "none"}')
    # reference encoder + pinned table cross-checked against the repository's own byte vectors
    # RULE: only the PINNED byte strings (the hex literals of the repository's vector file) are an authority for the reference
    # encoder; bytes merely produced by the code under test are not (on a changed tree they may be wrong: the harness decides).
    import re
    try:
        pinned = {bytes.fromhex(h) for h in re.findall(r"fromhex\(\s*['\"]([0-9a-fA-F]*)['\"]\s*\)", open(codec.TEST_VECTORS).read())}
    except OSError:
        pinned = set()
    rec, outcomes = codec.harvest_vectors()
    n_ser = n_de = n_unpinned = 0
    noncanon = []
    for kind, obj, data, comp, tname in rec:
        name = type(obj).__qualname__
        L = MESSAGES.get(name)
        if L is None:
            continue
        idw = L['id_width']
        payload = ref_payload(L['fields'], obj)
        if not all(isinstance(t, int) for t in payload):
            raise symex.HarnessError('reference encoder returned a symbolic byte for a concrete vector')
        payload = bytes(payload)
        try:
            body = zlib.decompress(data[4 + idw:]) if L['compressed'] else data[4 + idw:]
        except zlib.error:
            body = None
        same = (int.from_bytes(data[:4], 'little') == len(data) - 4 and data[4:4 + idw] == L['id'].to_bytes(idw, 'little')
                and body == payload)
        if data not in pinned:
            n_unpinned += 1
            continue
        if kind == 'ser':
            n_ser += 1
            if not same:
                raise symex.HarnessError(f'pinned layout / reference encoder disagrees with the repository test vector of {tname}: '
                                         f'{data.hex()} vs payload {payload.hex()}')
        else:
            n_de += 1
            if not same:
                noncanon.append(tname.split('.')[-1])
    notes.append(f'reference encoder over the pinned table reproduces all {n_ser} serialize vectors and {n_de - len(noncanon)} of {n_de} '
                 f'deserialize vectors of tests/unit/protocol/test_messages.py byte for byte; the other {len(noncanon)} are non-canonical inputs '
                 f'(absent optional decoded to a default, uint64 PeerInit ticket, trailing bytes): {sorted(set(noncanon))}')
    if n_unpinned:
        notes.append(f'{n_unpinned} recorded byte strings are not literals of the vector file and were not used as an authority')
    failing = sorted(k for k, v in outcomes.items() if v != 'pass')
    if failing:
        notes.append(f'{len(failing)} repository vector tests do not pass on this tree: {failing[:5]}')
    return notes
